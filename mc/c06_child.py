"""C06 child-process runner:  python -m mc.c06_child <batch.json> <result.log>

Reads a JSON list of cases, executes them one after the other against the real RadialSolver and appends to
<result.log> (O_APPEND, unbuffered os.write, so the log survives any kind of process death)

    B <k>\n                     before case k of the batch is started
    E <k> <json observation>\n  after it has finished (returned or raised)

The parent (mc/props/C06.py) derives crash / hang / silent-exit verdicts from the exit status and from the
last `B` line without a matching `E` line.  Nothing in this file judges: it only observes.

A case is a small JSON dict
    stack : list of kind indices (innermost first) into KINDS = {solid,liquid} x {static,dynamic} x {incompressible,compressible}
    fault : name from the fault menu (see apply_fault) or 'none'
    nd, rof : nondimensionalize / raise_on_fail
    kam   : use_kamata (default True)
    f     : seed-rotated material factor (default 1.0)
    seq   : None | 'FG' (fault call, then good call on the SAME arrays) | 'GF'
"""
import gc
import json
import math
import os
import sys

KINDS = [(t, s, i) for t in ('solid', 'liquid') for s in (True, False) for i in (True, False)]
N_PER_LAYER = 12
R_PLANET = 6.0e6
FREQ = 1.0e-3
MAX_STEPS = 20000
ARRAY_NAMES = ('radius', 'density', 'gravity', 'bulk', 'shear')
ULP_TOL = 4.0          # property statement: "within a few ulp"
SIG_TOL = 64.0         # ulp tolerance of the "arrays equal the non-dimensionalised originals" signature


def kind_name(k):
    t, s, i = KINDS[k]
    return ('S' if t == 'solid' else 'L') + ('s' if s else 'd') + ('i' if i else 'c')


def build_call(case):
    """Return (args list of 11 positional arguments, kwargs, meta) for radial_solver; nothing is executed."""
    import numpy as np
    from mc import rs
    st = case['stack']
    n = len(st)
    f = float(case.get('f', 1.0))
    N = N_PER_LAYER
    R = R_PLANET
    layers = []
    for i, k in enumerate(st):
        t, s, inc = KINDS[k]
        rho = (9000. - 5000. * i / max(1, n - 1)) * f if n > 1 else 5000. * f
        mu = 0j if t == 'liquid' else (6e10 + 6e8j) * f
        layers.append((R * (i + 1) / n, rho, mu, 2e11 * f))
    arrs, rhob, tops = rs.layered_planet(layers, N=N)
    arrs = [np.ascontiguousarray(a) for a in arrs]
    types = tuple(KINDS[k][0] for k in st)
    stat = tuple(KINDS[k][1] for k in st)
    inc = tuple(KINDS[k][2] for k in st)
    w = FREQ
    kw = dict(degree_l=2, solve_for=('tidal', 'loading'), use_kamata=bool(case.get('kam', True)),
              integration_method='RK45', integration_rtol=1e-6, integration_atol=1e-10, max_num_steps=MAX_STEPS,
              nondimensionalize=bool(case.get('nd', True)), raise_on_fail=bool(case.get('rof', False)),
              warnings=False, verbose=False)
    fault = case.get('fault', 'none')
    nan, inf = float('nan'), float('inf')
    if fault == 'none':
        pass
    # ---- tuple length mismatches
    elif fault == 'len_types_short':
        types = types[:-1]
    elif fault == 'len_types_long':
        types = types + ('solid',)
    elif fault == 'len_static_short':
        stat = stat[:-1]
    elif fault == 'len_static_long':
        stat = stat + (True,)
    elif fault == 'len_incomp_short':
        inc = inc[:-1]
    elif fault == 'len_incomp_long':
        inc = inc + (False,)
    elif fault == 'len_tops_short':
        tops = tops[:-1]
    elif fault == 'len_tops_long':
        tops = tops + (2 * R,)
    elif fault.startswith('len_arr'):           # len_arr<k>: array k one element shorter than the others
        ai = int(fault[-1])
        arrs[ai] = arrs[ai][:-1].copy()
    elif fault == 'no_layers':
        types, stat, inc, tops = (), (), (), ()
    elif fault == 'empty_arrays':               # total_slices = 0
        arrs = [a[:0].copy() for a in arrs]
    # ---- solve_for
    elif fault == 'solve_list':
        kw['solve_for'] = ['tidal']
    elif fault == 'solve_unknown':
        kw['solve_for'] = ('tidal', 'bogus')
    elif fault == 'solve_six':
        kw['solve_for'] = ('tidal',) * 6
    elif fault == 'solve_empty':
        kw['solve_for'] = ()
    elif fault == 'solve_upper':
        kw['solve_for'] = ('Tidal',)
    elif fault == 'solve_nonstr':
        kw['solve_for'] = (1,)
    elif fault == 'solve_none':
        kw['solve_for'] = None
    elif fault == 'solve_five':
        kw['solve_for'] = ('tidal', 'loading', 'free', 'tidal', 'loading')
    # ---- model names
    elif fault == 'layer_unknown':
        types = types[:-1] + ('gas',)
    elif fault == 'integrator_unknown':
        kw['integration_method'] = 'euler'
    elif fault == 'method_rk23':
        kw['integration_method'] = 'RK23'
    elif fault == 'method_dop853':
        kw['integration_method'] = 'DOP853'
    # ---- slices
    elif fault == 'few_slices':                  # total_slices <= 3 * num_layers
        idx = np.linspace(0, len(arrs[0]) - 1, 3 * n).round().astype(int)
        arrs = [a[idx].copy() for a in arrs]
    elif fault == 'thin_layer':                  # innermost layer keeps 3 slices only
        tops = (float(arrs[0][2]),) + tuple(tops[1:])
    elif fault == 'tops_decreasing':
        tops = tuple(reversed(tops)) if n > 1 else (-tops[0],)
    elif fault == 'tops_beyond':
        tops = tuple(tops[:-1]) + (2 * R,)
    elif fault == 'tops_below':
        tops = tuple(tops[:-1]) + (0.9 * R,)
    elif fault == 'degree0':
        kw['degree_l'] = 0
    elif fault == 'degree1':
        kw['degree_l'] = 1
    elif fault == 'degree3':
        kw['degree_l'] = 3
    # ---- integration failures forced through an argument
    elif fault == 'steps1':
        kw['max_num_steps'] = 1
    elif fault == 'steps3':
        kw['max_num_steps'] = 3
    elif fault == 'ram0':
        kw['max_ram_MB'] = 0
    elif fault == 'ram1':
        kw['max_ram_MB'] = 1
    elif fault == 'expected0':
        kw['expected_size'] = 0
    elif fault == 'expected1':
        kw['expected_size'] = 1
    elif fault == 'expected_huge':
        kw['expected_size'] = 2 ** 40
    elif fault == 'rtol0':
        kw['integration_rtol'] = 0.
    elif fault == 'rtolneg':
        kw['integration_rtol'] = -1e-6
    elif fault == 'atolnan':
        kw['integration_atol'] = nan
    elif fault == 'maxstep_tiny':
        kw['max_step'] = 1e-3
    elif fault == 'maxstep_neg':
        kw['max_step'] = -1.
    # ---- scalars
    elif fault == 'freq0':
        w = 0.
    elif fault == 'freqnan':
        w = nan
    elif fault == 'freqneg':
        w = -FREQ
    elif fault == 'rhob0':
        rhob = 0.
    elif fault == 'rhobnan':
        rhob = nan
    # ---- array entries:  arr:<array index>:<first|iface|last>:<nan|zero|inf|neg>
    elif fault.startswith('arr:'):
        _, ai, pos, val = fault.split(':')
        ai = int(ai)
        idx = {'first': 0, 'iface': (N if n > 1 else N // 2), 'last': len(arrs[ai]) - 1}[pos]
        a = arrs[ai].copy()
        if val == 'neg':
            v = -a[idx] if a[idx] != 0 else -1.0
        else:
            v = {'nan': nan, 'zero': 0., 'inf': inf}[val]
        a[idx] = v
        arrs[ai] = a
    else:
        raise ValueError('unknown fault %r' % (fault,))
    args = list(arrs) + [w, rhob, types, stat, inc, tuple(tops)]
    return args, kw


def ulp_diff(a, b):
    """max over entries of |a-b| in units of the spacing of the larger magnitude; NaN==NaN, inf==inf (same sign).
    Complex arrays are compared component-wise, except that an entry which is non-finite in `b` only has to be
    non-finite in `a` as well: C complex arithmetic turns (nan+0j)/c*c into nan+nanj and (inf+0j)/c*c into a complex
    NaN, so a non-finite complex entry has no component-wise identity to preserve."""
    import numpy as np
    a = np.asarray(a)
    b = np.asarray(b)
    with np.errstate(all='ignore'):
        if a.dtype.kind == 'c':
            cls = ~np.isfinite(b) & ~np.isfinite(a)
            a = np.ascontiguousarray(a).view(np.float64)
            b = np.ascontiguousarray(b).view(np.float64)
            cls = np.repeat(cls, 2)
        else:
            cls = np.zeros(a.shape, dtype=bool)
        same = (a == b) | (np.isnan(a) & np.isnan(b)) | cls
        if bool(same.all()):
            return 0.0
        d = np.abs(a - b) / np.spacing(np.maximum(np.abs(a), np.abs(b)))
        d = np.where(same, 0.0, d)
        d = np.where(np.isnan(d), np.inf, d)
        return float(d.max())


def nondim_expected(before, R, rhob):
    """The five arrays as cf_non_dimensionalize_physicals leaves them (same operation order as the .pyx)."""
    import numpy as np
    G = 6.67430e-11
    with np.errstate(all='ignore'):
        R = np.float64(R)
        rhob = np.float64(rhob)
        second2 = np.float64(1.) / (np.float64(math.pi) * G * rhob)
        length = R
        mass = rhob * R ** 3
        pascal = mass / (length * second2)
        return [before[0] / length, before[1] / rhob, before[2] / (length / second2), before[3] / pascal,
                before[4] / pascal]


def observe_call(args, kw):
    """One real call; returns a JSON-able observation (no verdicts)."""
    import numpy as np
    from TidalPy.RadialSolver import radial_solver
    arrs = args[:5]
    before = [np.array(a, copy=True) for a in arrs]
    rec = {}
    out = None
    try:
        out = radial_solver(*args, **kw)
    except BaseException as e:   # noqa: the property is about *which kind* of exception escapes
        rec['kind'] = 'exc'
        rec['type'] = type(e).__name__
        rec['is_exception'] = isinstance(e, Exception)
        rec['msg'] = str(e)[:160]
    else:
        rec['kind'] = 'ret'
        rec['cls'] = type(out).__name__
        try:
            succ = out.success
            msg = out.message
            rec['success'] = bool(succ)
            rec['success_is_bool'] = isinstance(succ, (bool, int))
            rec['msg'] = msg[:160] if isinstance(msg, str) else None
            rec['msg_is_str'] = isinstance(msg, str)
            exposed = []
            for nm in ('result', 'love', 'k', 'h', 'l'):
                if getattr(out, nm) is not None:
                    exposed.append(nm)
            sf = kw.get('solve_for')
            names = sf if isinstance(sf, tuple) and all(isinstance(x, str) for x in sf) else ('tidal',)
            for nm in names:
                try:
                    if out[nm] is not None:
                        exposed.append('getitem:' + nm)
                except Exception as e:   # unknown key etc. -- not a numeric result
                    rec.setdefault('getitem_exc', type(e).__name__)
            rec['exposed'] = sorted(set(exposed))
            if rec['success']:
                love = out.love
                res = out.result
                with np.errstate(all='ignore'):
                    rec['love_finite'] = bool(np.all(np.isfinite(love)))
                    rec['result_shape'] = list(res.shape)
                    rec['love6'] = [[float('%.6g' % v.real), float('%.6g' % v.imag)] if np.isfinite(v) else None
                                    for v in np.asarray(love).ravel()[:3]]
        except Exception as e:
            rec['protocol_error'] = '%s: %s' % (type(e).__name__, str(e)[:120])
    # ---- caller arrays versus their pre-call copies
    ulps = [ulp_diff(a, b) for a, b in zip(arrs, before)]
    rec['ulp'] = [(u if math.isfinite(u) else 1e300) for u in ulps]
    if max(ulps) > ULP_TOL:
        try:
            R = float(before[0][-1]) if len(before[0]) else float('nan')
            exp = nondim_expected(before, R, args[6])
            sig = [ulp_diff(a, e) for a, e in zip(arrs, exp)]
            rec['nondim_sig_ulp'] = [(u if math.isfinite(u) else 1e300) for u in sig]
            rec['nondim_match'] = bool(max(sig) <= SIG_TOL)
            with np.errstate(all='ignore'):
                k = int(np.argmax(ulps))
                j = min(1, len(before[k]) - 1)
                rec['example'] = dict(array=ARRAY_NAMES[k], index=j, before=repr(before[k][j]), after=repr(arrs[k][j]))
        except Exception as e:   # harness problem: must be visible
            rec['nondim_sig_error'] = '%s: %s' % (type(e).__name__, e)
    del out        # refcount -> RadialSolverSolution.__dealloc__ runs here (PyMem_Free of the solver's malloc blocks)
    return rec


#: faults that leave the five arrays exactly as the no-fault call would pass them (usable in same-array sequences)
def is_argument_fault(fault):
    return not (fault.startswith('arr:') or fault.startswith('len_arr') or fault in ('few_slices', 'empty_arrays'))


def run_one(case):
    if case.get('seq'):
        fargs, fkw = build_call(case)
        gargs, gkw = build_call(dict(case, fault='none'))
        # SAME five array objects in both calls
        gargs[:5] = fargs[:5]
        order = [('F', fargs, fkw), ('G', gargs, gkw)] if case['seq'] == 'FG' else [('G', gargs, gkw), ('F', fargs, fkw)]
        import numpy as np
        orig = [np.array(a, copy=True) for a in fargs[:5]]
        calls = []
        for tag, a, k in order:
            r = observe_call(a, k)
            r['call'] = tag
            calls.append(r)
        return dict(calls=calls, ulp_total=[min(ulp_diff(a, b), 1e300) for a, b in zip(fargs[:5], orig)])
    args, kw = build_call(case)
    return dict(calls=[observe_call(args, kw)])


def main(argv):
    batch_path, log_path = argv[1], argv[2]
    mark = os.environ.get('C06_STDERR_MARKERS') == '1'
    with open(batch_path) as fh:
        cases = json.load(fh)
    fd = os.open(log_path, os.O_WRONLY | os.O_APPEND | os.O_CREAT, 0o644)
    from mc import env
    env.tidalpy()
    import numpy  # noqa
    from TidalPy.RadialSolver import radial_solver  # noqa
    os.write(fd, b'R\n')     # ready: imports done
    for k, case in enumerate(cases):
        os.write(fd, ('B %d\n' % k).encode())
        if mark:
            sys.stderr.write('@@C06 BEGIN %d\n' % k)
            sys.stderr.flush()
        try:
            obs = run_one(case)
            line = 'E %d %s\n' % (k, json.dumps(obs))
        except BaseException:   # a bug in this harness (the code under test is observed inside observe_call)
            import traceback
            os.write(fd, ('H %d %s\n' % (k, json.dumps(traceback.format_exc()[-1500:]))).encode())
            os._exit(3)
        os.write(fd, line.encode())
    gc.collect()
    os.write(fd, b'D\n')     # done: all cases ran; interpreter finalisation follows
    os.close(fd)
    return 0


if __name__ == '__main__':
    sys.exit(main(sys.argv))
