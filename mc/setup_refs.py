"""Generate / self-validate cached reference tables used by the checks (idempotent)."""
import importlib
import sys

from . import env


def main():
    env.setup_env()
    for name in ('mc.refmodels.hansen', 'mc.refmodels.kaula'):
        try:
            m = importlib.import_module(name)
        except ModuleNotFoundError:
            continue
        if hasattr(m, 'ensure_cache'):
            m.ensure_cache(verbose=True)


if __name__ == '__main__':
    main()
