"""E2: explicit-state breadth-first search over operation histories on *real* objects.

A state is identified with a shortest history reaching it; live TidalPy objects do not deep-copy (numba typed
dicts, closures), so every exploration step rebuilds fresh objects and replays the history.  The system under
test is a module-level function `explore(task)` (run in pool workers) with task = dict(config=..., history=[op, ...])
returning dict(key=<canonical state key or None>, viol=[(site, detail)], obs=<hashable summary>, exc=<str or None>).

bfs():
  phase 1  all histories up to `depth_full` (no merging at all),
  phase 2  continue from the canonical states found, merging on the canonical key, until `depth_canon`
           or a fixed point (no new canonical state), whichever comes first.
Every explored history is an implementation trace; the invariant is evaluated after every one of them.
"""
import hashlib
import types

import numpy as np


def rnd(x, digits=12):
    x = float(x)
    if x != x or x in (float('inf'), float('-inf')):
        return repr(x)
    return float(f'%.{digits}g' % x)


def fingerprint(obj, skip_attrs=(), module_prefix='TidalPy', _seen=None, _path='', digits=12):
    """Deep, value-based fingerprint of every instance attribute reachable from obj (see DESIGN E2)."""
    if _seen is None:
        _seen = {}
    if obj is None or isinstance(obj, (bool, int, str)):
        return obj
    if isinstance(obj, (float, np.floating)):
        return rnd(obj, digits)
    if isinstance(obj, (complex, np.complexfloating)):
        return (rnd(obj.real, digits), rnd(obj.imag, digits))
    if isinstance(obj, np.integer):
        return int(obj)
    if isinstance(obj, np.bool_):
        return bool(obj)
    if isinstance(obj, np.ndarray):
        if obj.dtype.kind in 'fc':
            flat = np.asarray(obj).ravel()
            vals = [rnd(v, digits) for v in np.real(flat).tolist()] + \
                   ([rnd(v, digits) for v in np.imag(flat).tolist()] if obj.dtype.kind == 'c' else [])
            return ('arr', obj.shape, hashlib.md5(repr(vals).encode()).hexdigest()[:12])
        return ('arr', obj.shape, str(obj.dtype), hashlib.md5(obj.tobytes()).hexdigest()[:12])
    if isinstance(obj, (types.FunctionType, types.BuiltinFunctionType, types.MethodType, types.LambdaType)) \
            or type(obj).__name__ in ('CPUDispatcher',):
        return ('fn', getattr(obj, '__qualname__', type(obj).__name__))
    if isinstance(obj, type):
        return ('type', obj.__name__)
    is_tp_obj = hasattr(obj, '__dict__') and type(obj).__module__.startswith(module_prefix)
    if is_tp_obj:
        if id(obj) in _seen:
            return ('ref', _seen[id(obj)])
        _seen[id(obj)] = _path
        return (type(obj).__name__, tuple((k, fingerprint(v, skip_attrs, module_prefix, _seen, _path + '.' + k, digits))
                                          for k, v in sorted(vars(obj).items()) if k not in skip_attrs))
    if isinstance(obj, (list, tuple)):
        return (type(obj).__name__, tuple(fingerprint(x, skip_attrs, module_prefix, _seen, f'{_path}[{i}]', digits)
                                          for i, x in enumerate(obj)))
    if isinstance(obj, (set, frozenset)):
        return ('set', tuple(sorted(repr(fingerprint(x, skip_attrs, module_prefix, _seen, _path + '{}', digits)) for x in obj)))
    if hasattr(obj, 'items'):
        try:
            items = []
            for k, v in obj.items():
                kk = fingerprint(k, skip_attrs, module_prefix, _seen, _path + '<k>', digits)
                items.append((repr(kk), fingerprint(v, skip_attrs, module_prefix, _seen, _path + '.' + repr(kk)[:30], digits)))
            return ('dict', tuple(sorted(items, key=lambda kv: kv[0])))
        except Exception as e:  # pragma: no cover
            return ('dict-err', type(e).__name__)
    if callable(obj):
        return ('fn', getattr(obj, '__qualname__', type(obj).__name__))
    return ('opaque', type(obj).__name__)


def digest(x):
    return hashlib.sha256(repr(x).encode()).hexdigest()[:24]


def bfs(ctx, fn_path, config, ops, depth_full, depth_canon, chunk=None, max_frontier=None):
    """Returns dict(states, transitions, executions, depth_reached, fixpoint, outcomes)."""
    seen = set()
    executions = 0
    transitions = 0
    outcomes = set()
    samples = []
    # root
    r0 = ctx.map(fn_path, [dict(config=config, history=[])])[0]
    _absorb(ctx, config, [], r0)
    seen.add(r0.get('key'))
    executions += 1
    frontier = [[]]
    depth = 0
    fixpoint = False
    capped = False
    while depth < depth_canon and frontier:
        depth += 1
        tasks = [dict(config=config, history=h + [op]) for h in frontier for op in ops]
        res = ctx.map(fn_path, tasks, chunk=chunk)
        executions += len(tasks)
        transitions += len(tasks)
        nxt = []
        new_keys = 0
        for t, r in zip(tasks, res):
            if r.get('status') == 'harness_error':
                from .core import HarnessError
                raise HarnessError(f"{config}: history {t['history']}: {r.get('err')}\n{r.get('tb', '')}")
            _absorb(ctx, config, t['history'], r)
            outcomes.add(digest(r.get('obs')))
            k = r.get('key')
            if k is None:        # the last operation raised: state not extended
                continue
            if depth <= depth_full:
                nxt.append(t['history'])
                if k not in seen:
                    seen.add(k)
                    new_keys += 1
            elif k not in seen:
                seen.add(k)
                new_keys += 1
                nxt.append(t['history'])
        if len(samples) < 3 and tasks:
            samples.append(tasks[len(tasks) // 2]['history'])
        if depth > depth_full and new_keys == 0:
            fixpoint = True
            break
        if depth == depth_full:
            # switch to canonical frontier: one representative (shortest, first) per canonical state seen at this depth
            reps, got = [], set()
            for t, r in zip(tasks, res):
                k = r.get('key')
                if k is not None and k not in got:
                    got.add(k)
                    reps.append(t['history'])
            nxt = reps
        if max_frontier and len(nxt) > max_frontier:
            capped = True
            nxt = nxt[:max_frontier]
        frontier = nxt
    return dict(states=len(seen), transitions=transitions, executions=executions, depth_reached=depth,
                fixpoint=fixpoint, distinct_outcomes=len(outcomes), frontier_capped=capped, samples=samples)


def _absorb(ctx, config, history, r):
    for site, detail in r.get('viol', []):
        ctx.violation(site, dict(config=config, history=history), detail)
