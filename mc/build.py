"""Hash-driven rebuild of TidalPy's compiled extensions from the working tree.

There is no Cython in this image, so the deciding artefact for a compiled module is its generated
`.c` file (on disk next to the `.so`, git-ignored).  For every extension of cython_extensions.json:

  sha256(.c) == hash the current .so was last built from ?  -> nothing to do
  otherwise                                                 -> gcc, in place, flags of setup.py

"last built from" = <VERIF_HOME>/.cache/built/<repo-key>.json, falling back to the committed
build_baseline.json (hashes of the pinned tree's .c/.so/.pyx).  If Cython is importable, the
repo's own build_ext is used for stale .pyx files; otherwise a .pyx that differs from the baseline
while its .c does not is reported as `stale_pyx` (nothing in this image can act on it).
"""
import hashlib
import json
import os
import subprocess
import sys
import sysconfig
import time
from concurrent.futures import ThreadPoolExecutor

from . import env


def _sha(path):
    try:
        with open(path, 'rb') as fh:
            return hashlib.sha256(fh.read()).hexdigest()
    except OSError:
        return None


def _exts(repo):
    with open(os.path.join(repo, 'cython_extensions.json')) as fh:
        d = json.load(fh)
    out = []
    for key, e in d.items():
        pyx = os.path.join(repo, *e['sources'][0])
        c = pyx[:-4] + '.c'
        so_dir = os.path.dirname(pyx)
        modname = e['name'].split('.')[-1]
        so = None
        for f in os.listdir(so_dir):
            if f.startswith(modname + '.') and f.endswith('.so'):
                so = os.path.join(so_dir, f)
        if so is None:
            so = os.path.join(so_dir, modname + sysconfig.get_config_var('EXT_SUFFIX'))
        out.append(dict(key=key, name=e['name'], pyx=pyx, c=c, so=so,
                        include_dirs=[os.path.join(repo, *p) for p in e['include_dirs']],
                        compile_args=e['compile_args'], link_args=e['link_args']))
    return out


def snapshot(repo):
    return {e['name']: dict(c=_sha(e['c']), so=_sha(e['so']), pyx=_sha(e['pyx'])) for e in _exts(repo)}


def _compile(e, repo, extra_flags=(), out=None):
    import numpy as np
    import CyRK
    cyrk = os.path.dirname(CyRK.__file__)
    inc_py = sysconfig.get_paths()['include']
    cmd = ['gcc', '-shared', '-fPIC', '-O3', '-fopenmp', '-DNPY_NO_DEPRECATED_API=NPY_1_7_API_VERSION',
           f'-I{inc_py}', f'-I{np.get_include()}', f'-I{cyrk}/cy', f'-I{cyrk}/array', f'-I{cyrk}/utils']
    cmd += [f'-I{d}' for d in e['include_dirs']]
    cmd += list(extra_flags) + [e['c'], '-o', (out or e['so']) + '.tmp'] + e['compile_args'] + e['link_args']
    p = subprocess.run(cmd, capture_output=True, text=True, cwd=repo)
    if p.returncode != 0:
        return False, p.stderr[-2000:]
    os.replace((out or e['so']) + '.tmp', out or e['so'])
    return True, ''


def ensure_built(repo=None, verbose=True):
    """Rebuild whatever is stale. Returns a dict for the evidence file."""
    repo = repo or env.REPO
    t0 = time.time()
    base_path = os.path.join(env.HOME, 'build_baseline.json')
    baseline = json.load(open(base_path)) if os.path.exists(base_path) else {}
    key = hashlib.sha256(os.path.realpath(repo).encode()).hexdigest()[:12]
    state_path = os.path.join(env.CACHE, 'built', key + '.json')
    state = json.load(open(state_path)) if os.path.exists(state_path) else {}
    todo, stale_pyx, info = [], [], {}
    for e in _exts(repo):
        c_now, so_now, pyx_now = _sha(e['c']), _sha(e['so']), _sha(e['pyx'])
        b = baseline.get(e['name'], {})
        st = state.get(e['name'])
        if st is None:
            # no record: trust the .so only if both it and the .c are the pinned ones
            st = dict(c=b.get('c'), so=b.get('so')) if so_now == b.get('so') else dict(c=None, so=None)
        if c_now is None:
            info[e['name']] = 'no .c on disk'
            continue
        if st.get('c') != c_now or st.get('so') != so_now:
            todo.append(e)
        if pyx_now != b.get('pyx') and c_now == b.get('c'):
            stale_pyx.append(os.path.relpath(e['pyx'], repo))
    rebuilt = []
    if todo:
        if verbose:
            print(f'[build] recompiling {len(todo)} extension(s): ' + ', '.join(e["name"] for e in todo), flush=True)
        with ThreadPoolExecutor(16) as ex:
            res = list(ex.map(lambda e: _compile(e, repo), todo))
        for e, (ok, err) in zip(todo, res):
            if not ok:
                print(f'[build] FAILED {e["name"]}:\n{err}', file=sys.stderr, flush=True)
                raise SystemExit(3)
            rebuilt.append(e['name'])
    # record what the .so files now correspond to
    new_state = {}
    for e in _exts(repo):
        new_state[e['name']] = dict(c=_sha(e['c']), so=_sha(e['so']))
    os.makedirs(os.path.dirname(state_path), exist_ok=True)
    tmp = f'{state_path}.{os.getpid()}.tmp'       # per-process name: several checks / replays may run ensure_built at once
    with open(tmp, 'w') as fh:
        json.dump(new_state, fh)
    os.replace(tmp, state_path)
    return dict(rebuilt=rebuilt, stale_pyx=stale_pyx, build_s=round(time.time() - t0, 2), notes=info)


if __name__ == '__main__':
    if len(sys.argv) > 1 and sys.argv[1] == 'baseline':
        json.dump(snapshot(env.REPO), open(os.path.join(env.HOME, 'build_baseline.json'), 'w'), indent=1, sort_keys=True)
        print('baseline written')
    else:
        print(ensure_built())
