"""Reference model for C09: Kaula's inclination functions F_lmp(I) and the universal coefficients, in exact rationals.

Kaula (1966), eq. 3.62:

    F_lmp(I) = sum_{t=0}^{min(p,k)} (2l-2t)! / ( t! (l-t)! (l-m-2t)! 2^(2l-2t) )  sin^(l-m-2t) I
               * sum_{s=0}^{m} C(m,s) cos^s I  * sum_c C(l-m-2t+s, c) C(m-s, p-t-c) (-1)^(c-k),      k = floor((l-m)/2)

`F_sincos` returns it as an exact polynomial in (sin I, cos I); `F2_cos_coeffs` turns F^2 -- an even trigonometric
polynomial of degree 2l in I -- into exact rational cosine coefficients a_0..a_2l (F^2 = sum_k a_k cos kI); `F2_on_nodes`
evaluates that on the nodes I_j = 4 pi j / M  (j = 0..M-1, i.e. I/2 equispaced over a full period) with mpmath at 40
digits and rounds once to float.  `selfcheck` proves (exact rational arithmetic on rational points of the unit circle,
more points than the degree) that the summation formula coded here agrees with the independent half-angle formula of
Allan (1965) / Gooding & Wagner (2008) up to the known overall sign, and with the textbook l=2 functions.

`universal_coeff(l, m)` = (2 - delta_0m) (l-m)! / (l+m)!  as a Fraction.
"""
import math
from fractions import Fraction as Fr
from math import comb, factorial


def F_sincos(l, m, p):
    """{(a, b): Fraction}  meaning  sum coeff * sin^a(I) * cos^b(I)."""
    k = (l - m) // 2
    out = {}
    for t in range(0, min(p, k) + 1):
        pre = Fr(factorial(2 * l - 2 * t),
                 factorial(t) * factorial(l - t) * factorial(l - m - 2 * t) * 2 ** (2 * l - 2 * t))
        a = l - m - 2 * t
        for s in range(0, m + 1):
            csum = 0
            for c in range(0, l - m - 2 * t + s + 1):
                d = p - t - c
                if 0 <= d <= m - s:
                    csum += comb(l - m - 2 * t + s, c) * comb(m - s, d) * (-1) ** ((c - k) % 2)
            if csum:
                key = (a, s)
                out[key] = out.get(key, Fr(0)) + pre * comb(m, s) * csum
    return {k_: v for k_, v in out.items() if v != 0}


def F_allan(l, m, p, c, s):
    """Half-angle formula (Allan 1965; Gooding & Wagner 2008 eq. 4), c = cos(I/2), s = sin(I/2), any ring."""
    tot = 0
    for j in range(max(0, l - m - 2 * p), min(l - m, 2 * l - 2 * p) + 1):
        tot += (-1) ** j * comb(2 * l - 2 * p, j) * comb(2 * p, l - m - j) * c ** (3 * l - m - 2 * p - 2 * j) * s ** (m - l + 2 * p + 2 * j)
    return Fr(factorial(l + m), 2 ** l * factorial(p) * factorial(l - p)) * tot


def eval_sincos(poly, sinI, cosI):
    return sum(v * sinI ** a * cosI ** b for (a, b), v in poly.items())


# -- Gaussian rationals as (re, im) pairs; Laurent polynomials in w = exp(iI) as dict {power: (re, im)}
def _cmul(x, y):
    return (x[0] * y[0] - x[1] * y[1], x[0] * y[1] + x[1] * y[0])


def _lmul(A, B):
    R = {}
    for i, a in A.items():
        for j, b in B.items():
            v = _cmul(a, b)
            o = R.get(i + j, (Fr(0), Fr(0)))
            R[i + j] = (o[0] + v[0], o[1] + v[1])
    return R


def _lpow(A, n):
    R = {0: (Fr(1), Fr(0))}
    for _ in range(n):
        R = _lmul(R, A)
    return R


_SIN = {1: (Fr(0), Fr(-1, 2)), -1: (Fr(0), Fr(1, 2))}      # (w - 1/w) / (2i)
_COS = {1: (Fr(1, 2), Fr(0)), -1: (Fr(1, 2), Fr(0))}


def F_laurent(l, m, p):
    """F_lmp as a Laurent polynomial in w = exp(iI) with Gaussian-rational coefficients."""
    R = {}
    for (a, b), v in F_sincos(l, m, p).items():
        T = _lmul(_lpow(_SIN, a), _lpow(_COS, b))
        for k, x in T.items():
            o = R.get(k, (Fr(0), Fr(0)))
            R[k] = (o[0] + v * x[0], o[1] + v * x[1])
    return R


_F2 = {}


def F2_cos_coeffs(l, m, p):
    """[a_0 .. a_2l] exact rationals with  F_lmp(I)^2 = sum_k a_k cos(k I)."""
    key = (l, m, p)
    if key not in _F2:
        L = F_laurent(l, m, p)
        S = _lmul(L, L)
        a = [Fr(0)] * (2 * l + 1)
        for k, (re, im) in S.items():
            if abs(k) > 2 * l:
                assert re == 0 and im == 0
                continue
            assert im == 0, 'F^2 must be a real even trigonometric polynomial'
            assert S.get(-k, (Fr(0), Fr(0)))[0] == re
            if k == 0:
                a[0] = re
            elif k > 0:
                a[k] = 2 * re
        _F2[key] = a
    return _F2[key]


def F2_at_zero(l, m, p):
    """F_lmp(0)^2 exactly."""
    return sum(F2_cos_coeffs(l, m, p))


_COSTAB = {}
SUB = 8          # node offsets are multiples of 1/SUB of a node spacing


def _cos_table(M):
    """mpmath cos(2 pi r / M), r = 0..M-1, at 40 digits."""
    if M not in _COSTAB:
        import mpmath as mp
        with mp.workdps(40):
            _COSTAB[M] = [mp.cos(2 * mp.pi * r / M) for r in range(M)]
    return _COSTAB[M]


def node_angles(M, shift=0):
    """I_j = 4 pi (j + shift/SUB) / M, j = 0..M-1: I/2 on M equispaced nodes over one full period [0, 2 pi)."""
    return [4.0 * math.pi * (SUB * j + shift) / (SUB * M) for j in range(M)]


def F2_on_nodes(l, m, p, M, shift=0):
    """float(F_lmp(I_j)^2) on `node_angles(M, shift)`, correctly rounded from a 40-digit evaluation of the exact cosine
    series; the node angles enter as exact rational multiples of pi (cos(k I_j) = cos(2 pi (2k(SUB j + shift)) / (SUB M)))."""
    import mpmath as mp
    MM = SUB * M
    T = _cos_table(MM)
    a = F2_cos_coeffs(l, m, p)
    with mp.workdps(40):
        am = [(k, mp.mpf(x.numerator) / x.denominator) for k, x in enumerate(a) if x != 0]
        out = []
        for j in range(M):
            r = SUB * j + shift
            s = mp.mpf(0)
            for k, ak in am:
                s += ak * T[(2 * k * r) % MM]
            out.append(float(s))
    return out


def F2_at(l, m, p, I):
    """float(F_lmp(I)^2) at a float angle I (taken as the exact binary number), 40-digit evaluation."""
    import mpmath as mp
    a = F2_cos_coeffs(l, m, p)
    with mp.workdps(40):
        x = mp.mpf(I)
        return float(sum((mp.mpf(c.numerator) / c.denominator) * mp.cos(k * x) for k, c in enumerate(a) if c != 0))


def F2_scale(l, m, p):
    """Natural size of F^2: sum of |cosine coefficients| (>= max |F^2|)."""
    return float(sum(abs(x) for x in F2_cos_coeffs(l, m, p)))


def universal_coeff(l, m):
    return Fr((2 - (1 if m == 0 else 0)) * factorial(l - m), factorial(l + m))


def selfcheck(lmax=7):
    """Raise AssertionError unless Kaula's sum == +-Allan's half-angle formula (as polynomial identities) for all
    l <= lmax, and the l = 2 functions equal their textbook forms."""
    pts = []
    for i in range(1, 4 * lmax + 6):                     # rational points of the unit circle for I/2
        t = Fr(i, 2 * lmax + 9)
        c, s = (1 - t * t) / (1 + t * t), 2 * t / (1 + t * t)
        pts.append((c, s))
    for l in range(2, lmax + 1):
        for m in range(l + 1):
            for p in range(l + 1):
                poly = F_sincos(l, m, p)
                sign = None
                for c, s in pts:
                    fk = eval_sincos(poly, 2 * s * c, c * c - s * s)
                    fa = F_allan(l, m, p, c, s)
                    assert fk * fk == fa * fa, f'Kaula vs Allan differ for {(l, m, p)}'
                    if fa != 0:
                        sg = 1 if fk == fa else -1
                        assert sign in (None, sg), f'Kaula vs Allan: sign not constant for {(l, m, p)}'
                        sign = sg
                # cosine series reproduces F^2 (checks the Fourier conversion): use cos(kI) via Chebyshev recurrence
                a = F2_cos_coeffs(l, m, p)
                for c, s in pts[:5]:
                    sinI, cosI = 2 * s * c, c * c - s * s
                    ck = [Fr(1), cosI]
                    for k in range(2, 2 * l + 1):
                        ck.append(2 * cosI * ck[-1] - ck[-2])
                    assert sum(x * y for x, y in zip(a, ck)) == eval_sincos(poly, sinI, cosI) ** 2
    # textbook l = 2 (Kaula 1966, table 1)
    tb = {(2, 0, 0): {(2, 0): Fr(-3, 8)}, (2, 0, 1): {(2, 0): Fr(3, 4), (0, 0): Fr(-1, 2)}, (2, 0, 2): {(2, 0): Fr(-3, 8)},
          (2, 1, 0): {(1, 0): Fr(3, 4), (1, 1): Fr(3, 4)}, (2, 1, 1): {(1, 1): Fr(-3, 2)},
          (2, 1, 2): {(1, 0): Fr(-3, 4), (1, 1): Fr(3, 4)},
          (2, 2, 0): {(0, 0): Fr(3, 4), (0, 1): Fr(3, 2), (0, 2): Fr(3, 4)}, (2, 2, 1): {(2, 0): Fr(3, 2)},
          (2, 2, 2): {(0, 0): Fr(3, 4), (0, 1): Fr(-3, 2), (0, 2): Fr(3, 4)}}
    for key, want in tb.items():
        got = F_sincos(*key)
        for c, s in pts[:7]:
            sinI, cosI = 2 * s * c, c * c - s * s
            assert eval_sincos(got, sinI, cosI) == eval_sincos(want, sinI, cosI), f'textbook F{key}'
    return True


def ensure_cache(verbose=False):
    """Nothing is cached for C09 (the reference costs ~4 s per run); setup only runs the self-check."""
    import time
    t0 = time.time()
    selfcheck()
    if verbose:
        print(f'[kaula] self-check ok (Kaula sum == +-Allan half-angle formula for all l <= 7, textbook l=2; '
              f'{time.time() - t0:.1f}s)', flush=True)


if __name__ == '__main__':
    import time
    t0 = time.time()
    selfcheck()
    print('kaula selfcheck ok', round(time.time() - t0, 2), 's')
