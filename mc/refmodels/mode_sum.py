"""Reference model for C10 / C11: the *ungrouped* Kaula mode sum of tidal heating and of the three potential derivatives.

Physics (Kaula 1964; Efroimsky & Makarov 2014, ApJ 795:6, eq. 65; Boue & Efroimsky 2019, CMDA 131:30, eqs. 114-118).  A body of
radius R perturbed by a companion of mass M* on an orbit (a, e) with obliquity I, mean motion n and spin rate s dissipates

    dE/dt = (G M*^2 / a) sum_{l>=2} (R/a)^(2l+1) sum_{m=0..l} (2 - delta_0m) (l-m)!/(l+m)!
                         sum_{p=0..l} F_lmp(I)^2 sum_q G_lpq(e)^2   w_lmpq  K_l(w_lmpq)

    w_lmpq = (l - 2p + q) n - m s            (tidal mode)
    K_l(w) = k_l(w) sin eps_l(w) = -Im k_l(|w|) sgn(w)      (odd in w, K_l(0) = 0)

and the derivatives of the (orbit-averaged, per unit mass of the perturber) tidal potential are the same sum with the
factor w_lmpq replaced by

    dU/dM : (l - 2p + q)      dU/dw : (l - 2p)      dU/dOmega : m          and G M*^2 replaced by G M*,

which makes  M* (n dU/dM - s dU/dOmega) = dE/dt  an identity term by term.  Nothing here is grouped by frequency:
every (l, m, p, q) that the truncated tables provide is one entry of flat numpy vectors.

The F^2 and G^2 values are read from TidalPy's own tables (they are the subject of C08 / C09); the universal
coefficient is computed from factorials; -Im k_l(|w|) comes from the homogeneous-body closed form
k_l = 3/(2(l-1)) / (1 + m_l/(J mu)),  m_l = (2l^2+4l+3) mu / (l rho g R)  (C12) with the complex compliance J(|w|)
evaluated by the *uncompiled* (``.py_func``, plain numpy) legacy compliance function, or from the CPL / CTL definitions
(-Im k = k2/Q, resp. k2 |w| dt, the same number for every degree l -- that is how TidalPy defines these models).
"""
import math

import numpy as np

G_SCIPY = 6.6743e-11      # scipy.constants.G (CODATA 2018), the value TidalPy uses


def universal_coeff(l, m):
    return (1.0 if m == 0 else 2.0) * math.factorial(l - m) / math.factorial(l + m)


class ModeTable:
    """Flat vectors over all (l, m, p, q) present in the eccentricity / inclination tables (scalar-evaluated)."""

    def __init__(self, ecc_by_l, inc_by_l, lmax):
        L, M, P, Q, F2, G2, C = [], [], [], [], [], [], []
        for l in range(2, lmax + 1):
            inc = inc_by_l[l]
            ecc = ecc_by_l[l]
            ecc_py = {int(p): [(int(q), float(v)) for q, v in ecc[p].items()] for p in ecc}
            for (m, p), f2 in inc.items():
                m = int(m); p = int(p); f2 = float(f2)
                cf = universal_coeff(l, m)
                for q, g2 in ecc_py.get(p, ()):
                    L.append(l); M.append(m); P.append(p); Q.append(q); F2.append(f2); G2.append(g2); C.append(cf)
        self.l = np.array(L, dtype=np.int64)
        self.m = np.array(M, dtype=np.int64)
        self.p = np.array(P, dtype=np.int64)
        self.q = np.array(Q, dtype=np.int64)
        self.f2 = np.array(F2)
        self.g2 = np.array(G2)
        self.coef = np.array(C)
        self.ncoef = self.l - 2 * self.p + self.q           # multiplies n in the mode; d/dM weight
        self.wcoef = self.l - 2 * self.p                    # d/d(pericentre) weight
        self.lmax = lmax

    def __len__(self):
        return len(self.l)

    def min_g2(self):
        return float(self.g2.min()) if len(self.g2) else 0.0

    def min_f2(self):
        return float(self.f2.min()) if len(self.f2) else 0.0


def m_l(l, mu, rho, g, R):
    return (2.0 * l * l + 4.0 * l + 3.0) * mu / (l * rho * g * R)


class LoveModel:
    """-Im k_l(|w|) of the homogeneous body."""

    def __init__(self, rheo, mu, eta, rho, g, R, args=(), tidal_scale=1.0, fixed_k2=0.3, fixed_q=100.0, fixed_dt=None):
        self.rheo, self.mu, self.eta, self.rho, self.g, self.R = rheo, mu, eta, rho, g, R
        self.args, self.tidal_scale = tuple(args), tidal_scale
        self.fixed_k2, self.fixed_q, self.fixed_dt = fixed_k2, fixed_q, fixed_dt
        self._fn = None

    def _compliance(self, w):
        if self._fn is None:
            from TidalPy.rheology.complex_compliance import known_models
            f = known_models[self.rheo]
            self._fn = getattr(f, 'py_func', f)
        with np.errstate(all='ignore'):
            return np.asarray(self._fn(w, 1.0 / self.mu, self.eta, *self.args), dtype=complex)

    def neg_imk(self, l_vec, absw):
        """vector of -Im k_l(|w|) for matching vectors of degree and (strictly positive) frequency."""
        if self.rheo == 'cpl':
            return np.full(absw.shape, self.fixed_k2 / self.fixed_q * self.tidal_scale)
        if self.rheo == 'ctl':
            return self.fixed_k2 * absw * self.fixed_dt * self.tidal_scale
        J = self._compliance(absw) + 0j * absw
        out = np.empty(absw.shape)
        for l in np.unique(l_vec):
            sel = l_vec == l
            ml = m_l(float(l), self.mu, self.rho, self.g, self.R)
            k = 3.0 / (2.0 * (l - 1.0)) / (1.0 + ml / (J[sel] * self.mu))
            out[sel] = -k.imag * self.tidal_scale
        return out

    def lossless(self):
        return self.rheo in ('elastic', 'off')


def mode_sum(tab, love, n, s, a, R, host_mass, G=G_SCIPY):
    """Ungrouped sums.  Returns dict with H, dUdM, dUdw, dUdO, the sums of |terms| (natural scales), the vector of
    mode frequencies and per-mode quantities needed by the callers."""
    w = tab.ncoef * n - tab.m * s                              # tidal modes
    nz = w != 0.0
    absw = np.abs(w)
    sgn = np.sign(w)
    amp = (G * host_mass * host_mass / a) * (R / a) ** (2 * tab.l + 1) * tab.coef * tab.f2 * tab.g2
    K = np.zeros(len(w))
    if nz.any():
        K[nz] = love.neg_imk(tab.l[nz], absw[nz]) * sgn[nz]
    hterm = amp * w * K
    aM = amp / host_mass
    tM = aM * tab.ncoef * K
    tw = aM * tab.wcoef * K
    tO = aM * tab.m * K
    return dict(H=float(hterm.sum()), dUdM=float(tM.sum()), dUdw=float(tw.sum()), dUdO=float(tO.sum()),
                sH=float(np.abs(hterm).sum()), sM=float(np.abs(tM).sum()), sw=float(np.abs(tw).sum()),
                sO=float(np.abs(tO).sum()), w=w, K=K, amp=amp,
                has_zero_mode=bool((~nz & ((tab.m != 0) | (tab.ncoef != 0))).any()),
                min_negimk=float((K * sgn)[nz].min()) if nz.any() else 0.0)


def canonical_sig(ncoef, m):
    """One label per set of modes that necessarily share |w| for *every* (n, s):  a n - m s and -(a n - m s).
    With m >= 0 the only coincidences are (a, 0) ~ (-a, 0)."""
    if m == 0:
        return (abs(int(ncoef)), 0)
    return (int(ncoef), -int(m))


def normalise_library_sig(sig):
    """TidalPy labels the (n-coefficient 0, m) family (0, +m); everything else (a, -m) / (|a|, 0)."""
    a, b = int(sig[0]), int(sig[1])
    if a == 0:
        return (0, -abs(b))
    return (a, b)


def grouped_terms(tab, n, s, a, R):
    """Reference for calculate_terms' output in the library's normalisation (tidal susceptibility (3/2) G M*^2 R^5 / a^6 and
    -Im k divided out):  {(canonical sig, l): [heating, dUdM, dUdw, dUdO, scale of the derivative terms, |w|, scale of heating]}."""
    w = tab.ncoef * n - tab.m * s
    u = (R / a) ** (2 * tab.l - 4) * tab.coef * tab.f2 * tab.g2 * (2.0 / 3.0)
    sg = np.sign(w)
    out = {}
    for i in range(len(w)):
        a_i, m_i, l_i = int(tab.ncoef[i]), int(tab.m[i]), int(tab.l[i])
        if m_i == 0 and a_i == 0:
            continue                                        # permanent (static) tide: no frequency at all
        key = (canonical_sig(a_i, m_i), l_i)
        r = out.get(key)
        if r is None:
            r = out[key] = [0.0, 0.0, 0.0, 0.0, 0.0, abs(w[i]), 0.0]
        ui = u[i]
        r[0] += ui * abs(w[i])
        r[1] += ui * a_i * sg[i]
        r[2] += ui * int(tab.wcoef[i]) * sg[i]
        r[3] += ui * m_i * sg[i]
        r[4] += abs(ui) * max(abs(a_i), abs(m_i), abs(int(tab.wcoef[i])), 1)
        r[6] += abs(ui) * abs(w[i])
    return out
