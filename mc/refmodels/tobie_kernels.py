"""Boring reference for the radial sensitivity kernels H_mu, H_K of Tobie, Mocquet & Sotin (2005, Icarus 177, eq. 33)
(also Kervazo et al. 2021, eqs. C.1/C.2), plain numpy, no TidalPy import.

Two independent routes are provided and cross-checked against each other by the harness:

* `eq33(y, r, mu, K, l, dy1dr)` -- eq. 33 as printed (three "radial" terms + the two tangential terms), the
  derivative dy1/dr being *supplied by the caller*;

* `strain_form(y, r, mu, K, l)` -- derived from the strain invariants of a spheroidal displacement field
  u = y1 Y e_r + y3 r grad_1 Y.  With  e_rr = y1',  e_tt + e_pp = T/r,  T = 2 y1 - l(l+1) y3,
      dilatation                 theta = y1' + T/r                       =>  H_K  = |r y1' + T|^2
      deviatoric radial part     (2/3)(y1' - T/(2r))                      =>  (4/3)|r y1' - T/2|^2
      radial-tangential shear    e_rt ~ y4/(2 mu)                         =>  l(l+1) r^2 |y4|^2/|mu|^2
      tangential-tangential      (angular average of the traceless part)  =>  l(l^2-1)(l+2) |y3|^2
  with y1' taken *analytically* from the constitutive relation  y2 = (K + 4mu/3) y1' + (K - 2mu/3) T/r
  (Takeuchi & Saito 1972 definition of y2), so no finite difference enters.

  Expanding the squares gives eq. 33 with r^2|y1'|^2 = r^2 |y2 - (K - 2mu/3)T/r|^2 / |K + 4mu/3|^2.
"""
import numpy as np


def T_term(y, l):
    return 2.0 * y[0] - l * (l + 1.0) * y[2]


def dy1dr_analytic(y, r, mu, K, l):
    """dy1/dr from the definition of the radial stress y2 (mu, K = the moduli the solution was computed with)."""
    return (y[1] - (K - 2.0 * mu / 3.0) * T_term(y, l) / r) / (K + 4.0 * mu / 3.0)


def eq33(y, r, mu, K, l, dy1dr):
    """Tobie et al. (2005) eq. 33 literally; (mu, K) may be complex; returns (H_mu, H_K) real arrays."""
    T = T_term(y, l)
    first = r * r * np.abs(y[1] - (K - 2.0 * mu / 3.0) / r * T) ** 2 / np.abs(K + 4.0 * mu / 3.0) ** 2
    cross = r * np.real(np.conj(dy1dr) * T)
    T2 = np.abs(T) ** 2
    H_mu = (4.0 / 3.0) * first - (4.0 / 3.0) * cross + T2 / 3.0 \
        + l * (l + 1.0) * r * r * np.abs(y[3]) ** 2 / np.abs(mu) ** 2 \
        + l * (l * l - 1.0) * (l + 2.0) * np.abs(y[2]) ** 2
    H_K = first + 2.0 * cross + T2
    return H_mu, H_K


def strain_form(y, r, mu, K, l):
    """Kernels as sums of squares of strain invariants, analytic dy1/dr (solution-consistent mu, K)."""
    T = T_term(y, l)
    ry1p = r * dy1dr_analytic(y, r, mu, K, l)
    H_K = np.abs(ry1p + T) ** 2
    H_mu = (4.0 / 3.0) * np.abs(ry1p - 0.5 * T) ** 2 \
        + l * (l + 1.0) * r * r * np.abs(y[3]) ** 2 / np.abs(mu) ** 2 \
        + l * (l * l - 1.0) * (l + 2.0) * np.abs(y[2]) ** 2
    return H_mu, H_K


def trapz(f, x):
    """Trapezoid rule (own copy: np.trapz is renamed across numpy versions)."""
    f = np.asarray(f)
    x = np.asarray(x)
    return float(np.sum(0.5 * (f[1:] + f[:-1]) * (x[1:] - x[:-1])))
