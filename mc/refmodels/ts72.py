"""Reference model: the viscoelastic-gravitational ODE system of a spherically symmetric, self-gravitating body
for spheroidal deformation of harmonic degree l, written independently of TidalPy from

  TS72   Takeuchi & Saito (1972), "Seismic surface waves", Methods Comp. Phys. 11, eq. (82) solid, eq. (87) liquid
  S74    Saito (1974), J. Phys. Earth 22, eqs. (17)-(18): static liquid, variables (y5, y7)
  KMN15  Kamata, Matsuyama & Nimmo (2015), JGR Planets 120, eqs. (4)-(9), (11)-(14) and the incompressible limit

Convention (TS72, also KMN15 and TidalPy):  time dependence exp(i w t);
  y1 radial displacement U            y2 radial normal stress  (lam+2mu) U' + lam/r (2U - l(l+1)V)
  y3 tangential displacement V        y4 tangential (shear) stress  mu (V' - V/r + U/r)
  y5 potential perturbation P         y6 = P' - 4 pi G rho U + (l+1)/r P     (TS72's "y6", continuous across interfaces)
The matrices below are the coefficient matrices A(r) of  dy/dr = A(r) y  in this order; liquid layers use the
reduced vectors (y1, y2, y5, y6) (dynamic; y4 = 0, y3 algebraic) and (y5, y7) (static, S74).

Everything is plain numpy complex arithmetic; `selftest()` cross-checks the matrix form against the literal nested form
of TS72 (82), the incompressible matrices against the K -> infinity limit, the liquid matrices against the mu -> 0
limit of the solid one, and the matrices against elementary exact solutions (rigid-body-like r^(l-1) solution).
Only conventions (variable order, sign of y6, scaling of y2/y4) were settled by looking at
TidalPy/RadialSolver/derivatives/odes.pyx; the coefficients were not copied from there.
"""
import math

import numpy as np

G = 6.67430e-11


def lame(K, mu):
    return K - 2.0 * mu / 3.0


# ----------------------------------------------------------------------------------------------------------------
# solid, 6x6
# ----------------------------------------------------------------------------------------------------------------
def solid_matrix(r, rho, mu, K, omega, l, g, Gc=G, static=False, incompressible=False):
    """6x6 matrix of TS72 eq. (82) (rearranged so that no derivative appears on the right-hand side).
    static=True drops the inertial terms (w^2 rho); incompressible=True is the lam -> infinity limit (KMN15 sec. 2)."""
    mu = complex(mu)
    n1 = l * (l + 1.0)
    w2 = 0.0 if static else omega * omega
    fpgr = 4.0 * math.pi * Gc * rho
    A = np.zeros((6, 6), dtype=np.complex128)
    if incompressible:
        lam_b = 1.0           # lam/(lam+2mu)
        inv_b = 0.0           # 1/(lam+2mu)
        gam = 3.0 * mu        # mu(3lam+2mu)/(lam+2mu)
        c43 = 2.0 * n1 - 1.0  # [2 l(l+1)(lam+mu) - (lam+2mu)]/(lam+2mu)
    else:
        lam = lame(K, mu)
        b = lam + 2.0 * mu
        lam_b = lam / b
        inv_b = 1.0 / b
        gam = mu * (3.0 * lam + 2.0 * mu) / b
        c43 = (2.0 * n1 * (lam + mu) - b) / b
    # dy1/dr = [y2 - lam/r (2 y1 - n1 y3)]/(lam+2mu)
    A[0, 0] = -2.0 * lam_b / r
    A[0, 1] = inv_b
    A[0, 2] = n1 * lam_b / r
    # dy2/dr
    A[1, 0] = -w2 * rho - 4.0 * rho * g / r + 4.0 * gam / r ** 2
    A[1, 1] = -4.0 * mu * inv_b / r
    A[1, 2] = n1 * (rho * g / r - 2.0 * gam / r ** 2)
    A[1, 3] = n1 / r
    A[1, 4] = rho * (l + 1.0) / r
    A[1, 5] = -rho
    # dy3/dr = y4/mu + (y3 - y1)/r
    A[2, 0] = -1.0 / r
    A[2, 2] = 1.0 / r
    A[2, 3] = 1.0 / mu
    # dy4/dr
    A[3, 0] = rho * g / r - 2.0 * gam / r ** 2
    A[3, 1] = -lam_b / r
    A[3, 2] = -w2 * rho + 2.0 * mu * c43 / r ** 2
    A[3, 3] = -3.0 / r
    A[3, 4] = -rho / r
    # dy5/dr = y6 + 4 pi G rho y1 - (l+1)/r y5
    A[4, 0] = fpgr
    A[4, 4] = -(l + 1.0) / r
    A[4, 5] = 1.0
    # dy6/dr = (l-1)/r (y6 + 4 pi G rho y1) + 4 pi G rho/r (2 y1 - n1 y3)
    A[5, 0] = fpgr * (l + 1.0) / r
    A[5, 2] = -fpgr * n1 / r
    A[5, 5] = (l - 1.0) / r
    return A


def solid_rhs_eq82(r, y, rho, mu, K, omega, l, g, Gc=G, static=False):
    """Literal transcription of TS72 eq. (82) (compressible), with dy1/dr re-used inside dy2/dr and dy4/dr."""
    mu = complex(mu)
    y1, y2, y3, y4, y5, y6 = y
    lam = lame(K, mu)
    n1 = l * (l + 1.0)
    w2 = 0.0 if static else omega * omega
    X = 2.0 * y1 - n1 * y3
    d1 = (y2 - lam / r * X) / (lam + 2.0 * mu)
    d2 = (-w2 * rho * y1 + 2.0 / r * (lam * d1 - y2) + (2.0 * (lam + mu) / r - rho * g) * X / r + n1 / r * y4
          - rho * (y6 - (l + 1.0) / r * y5 + 2.0 * g / r * y1))
    d3 = y4 / mu + (y3 - y1) / r
    d4 = (-w2 * rho * y3 - lam / r * d1 - (lam + 2.0 * mu) / r ** 2 * X + 2.0 * mu / r ** 2 * (y1 - y3) - 3.0 / r * y4
          - rho / r * (y5 - g * y1))
    d5 = y6 + 4.0 * math.pi * Gc * rho * y1 - (l + 1.0) / r * y5
    d6 = (l - 1.0) / r * (y6 + 4.0 * math.pi * Gc * rho * y1) + 4.0 * math.pi * Gc * rho / r * X
    return np.array([d1, d2, d3, d4, d5, d6], dtype=np.complex128)


# ----------------------------------------------------------------------------------------------------------------
# liquid, dynamic: 4x4 on (y1, y2, y5, y6)   (TS72 eq. 87; KMN15 eqs. 11-14)
# ----------------------------------------------------------------------------------------------------------------
def liquid_y3_coeffs(r, rho, omega, g):
    """y3 = a1 y1 + a2 y2 + a5 y5  from the tangential momentum equation with mu = 0, y4 = 0:
    0 = -w^2 rho y3 ... => y3 = (rho g y1 - y2 - rho y5)/(w^2 rho r)."""
    d = omega * omega * rho * r
    return rho * g / d, -1.0 / d, -rho / d


def liquid_dynamic_matrix(r, rho, K, omega, l, g, Gc=G, incompressible=False):
    n1 = l * (l + 1.0)
    fpgr = 4.0 * math.pi * Gc * rho
    w2 = omega * omega
    a1, a2, a5 = liquid_y3_coeffs(r, rho, omega, g)
    inv_lam = 0.0 if incompressible else 1.0 / K
    # rows in terms of (y1, y2, y3, y5, y6), then eliminate y3
    #  dy1 = -2/r y1 + y2/lam + n1/r y3
    #  dy2 = -(w^2 rho + 4 rho g/r) y1 + n1 rho g/r y3 + rho (l+1)/r y5 - rho y6
    #  dy5 = 4 pi G rho y1 - (l+1)/r y5 + y6
    #  dy6 = 4 pi G rho (l+1)/r y1 - 4 pi G rho n1/r y3 + (l-1)/r y6
    B = np.zeros((4, 5), dtype=np.complex128)   # columns y1, y2, y3, y5, y6
    B[0] = [-2.0 / r, inv_lam, n1 / r, 0.0, 0.0]
    B[1] = [-(w2 * rho + 4.0 * rho * g / r), 0.0, n1 * rho * g / r, rho * (l + 1.0) / r, -rho]
    B[2] = [fpgr, 0.0, 0.0, -(l + 1.0) / r, 1.0]
    B[3] = [fpgr * (l + 1.0) / r, 0.0, -fpgr * n1 / r, 0.0, (l - 1.0) / r]
    A = np.zeros((4, 4), dtype=np.complex128)
    A[:, 0] = B[:, 0] + B[:, 2] * a1
    A[:, 1] = B[:, 1] + B[:, 2] * a2
    A[:, 2] = B[:, 3] + B[:, 2] * a5
    A[:, 3] = B[:, 4]
    return A


# ----------------------------------------------------------------------------------------------------------------
# liquid, static: 2x2 on (y5, y7)   (S74 eqs. 17-18)
# ----------------------------------------------------------------------------------------------------------------
def liquid_static_matrix(r, rho, l, g, Gc=G):
    q = 4.0 * math.pi * Gc * rho / g
    return np.array([[q - (l + 1.0) / r, 1.0],
                     [2.0 * (l - 1.0) / r * q, (l - 1.0) / r - q]], dtype=np.complex128)


# ----------------------------------------------------------------------------------------------------------------
# helpers used by C04
# ----------------------------------------------------------------------------------------------------------------
def z_continued_fraction(x2, l, nterms=60):
    """z_l(x) = x j_{l+1}(x)/j_l(x) from the three-term recurrence j_{n-1} + j_{n+1} = (2n+1)/x j_n:
        z_l = x^2 / ((2l+3) - z_{l+1}),   evaluated bottom-up (converges for every x^2 not at a zero of j_l;
    used only for moderate |x^2|)."""
    x2 = complex(x2)
    z = 0.0j
    for n in range(l + nterms, l - 1, -1):
        z = x2 / ((2 * n + 3) - z)
    return z


def z_mpmath(x2, l, dps=40):
    import mpmath as mp
    with mp.workdps(dps):
        x = mp.sqrt(mp.mpc(x2))
        jl = mp.sqrt(mp.pi / (2 * x)) * mp.besselj(l + 0.5, x)
        jl1 = mp.sqrt(mp.pi / (2 * x)) * mp.besselj(l + 1.5, x)
        return complex(x * jl1 / jl)


def uniform_gravity(r, rho, Gc=G):
    return 4.0 / 3.0 * math.pi * Gc * rho * r


def selftest(verbose=False):
    """Internal consistency of the reference model. Returns dict(sub-check -> worst relative discrepancy);
    `selftest_ok()` applies the thresholds."""
    rng = np.random.RandomState(7)
    W = dict(matrix_vs_eq82=0.0, incompressible_limit=0.0, third_solution=0.0, liquid_limit=0.0, saito=0.0, z_cf=0.0)

    def up(k, v):
        W[k] = max(W[k], float(v))
    for l in (2, 3, 5, 8):
        for (r, rho, mu, K, w) in ((3.0e5, 3500.0, 5e10 + 1e9j, 1.2e11, 1e-4), (5.0e6, 9000.0, 2e8 + 5e7j, 4e11, 3e-6),
                                   (40.0, 1000.0, 3e9 + 0j, 2e9, 1e-2)):
            g = uniform_gravity(r, rho)
            unit = np.array([1, abs(mu) / r, 1, abs(mu) / r, g, g / r])     # natural unit of each y_i for unit displacement
            # (i) matrix form == literal eq. (82)
            for static in (False, True):
                A = solid_matrix(r, rho, mu, K, w, l, g, static=static)
                for _ in range(3):
                    y = (rng.randn(6) + 1j * rng.randn(6)) * unit
                    a = A @ y
                    b = solid_rhs_eq82(r, y, rho, mu, K, w, l, g, static=static)
                    up('matrix_vs_eq82', np.max(np.abs(a - b) / (unit / r)) / (l * l * max(1.0, rho * g * r / abs(mu), abs(K / mu))))
            # (ii) incompressible matrix == K -> infinity limit (difference is O(mu/K) = 1e-11 here)
            Ai = solid_matrix(r, rho, mu, None, w, l, g, incompressible=True)
            Ak = solid_matrix(r, rho, mu, 1e22, w, l, g)
            m = np.abs(Ai) > 0
            up('incompressible_limit', np.max(np.abs(Ai - Ak)[m] / np.abs(Ai)[m]))
            up('incompressible_limit', np.max(np.abs(Ak)[~m] * np.outer(1 / unit, unit)[~m] * r))
            # (iii) elementary exact regular solution of a homogeneous sphere (TS72 eq. 102, third solution)
            gam = 4.0 * math.pi * G * rho / 3.0
            c5 = l * gam - w * w
            c6 = (2 * l + 1) * c5 - 3 * l * gam
            y = np.array([l * r ** (l - 1), 2 * mu * l * (l - 1) * r ** (l - 2), r ** (l - 1),
                          2 * mu * (l - 1) * r ** (l - 2), c5 * r ** l, c6 * r ** (l - 1)], dtype=np.complex128)
            dy = np.array([l * (l - 1) * r ** (l - 2), 2 * mu * l * (l - 1) * (l - 2) * r ** (l - 3), (l - 1) * r ** (l - 2),
                           2 * mu * (l - 1) * (l - 2) * r ** (l - 3), l * c5 * r ** (l - 1), (l - 1) * c6 * r ** (l - 2)],
                          dtype=np.complex128)
            for inc in (False, True):
                A = solid_matrix(r, rho, mu, K, w, l, g, incompressible=inc)
                up('third_solution', np.linalg.norm((dy - A @ y) / unit * r) / np.linalg.norm(y / unit))
            # (iv) liquid dynamic 4x4 == mu -> 0 limit of the solid 6x6 restricted to y4 = 0 with algebraic y3
            a1, a2, a5 = liquid_y3_coeffs(r, rho, w, g)
            mu_s = 1e-13 * K
            A6 = solid_matrix(r, rho, mu_s, K + 2 * mu_s / 3, w, l, g)
            for inc in (False, True):
                A4 = liquid_dynamic_matrix(r, rho, K, w, l, g, incompressible=inc)
                if inc:
                    A6 = solid_matrix(r, rho, mu_s, None, w, l, g, incompressible=True)
                u4 = np.array([1, rho * g, g, g / r])
                y4v = (rng.randn(4) + 1j * rng.randn(4)) * u4
                y3v = a1 * y4v[0] + a2 * y4v[1] + a5 * y4v[2]
                y6v = np.array([y4v[0], y4v[1], y3v, 0.0, y4v[2], y4v[3]])
                d6 = (A6 @ y6v)[[0, 1, 4, 5]]
                d4 = A4 @ y4v
                up('liquid_limit', np.max(np.abs(d6 - d4) / (u4 / r)) / (l * l * max(1.0, abs(y3v))) / max(1.0, K / (rho * g * r)))
            # (v) static liquid: Saito's regular solution y5 = r^l, y7 = 2(l-1) r^(l-1)
            A2 = liquid_static_matrix(r, rho, l, g)
            y = np.array([r ** l, 2 * (l - 1) * r ** (l - 1)])
            dy2 = np.array([l * r ** (l - 1), 2 * (l - 1) ** 2 * r ** (l - 2)])
            u2 = np.array([1.0, 1.0 / r])
            up('saito', np.linalg.norm((dy2 - A2 @ y) / u2 * r) / np.linalg.norm(y / u2))
    # (vi) continued fraction vs mpmath Bessel functions
    for l in (2, 5, 8):
        for x2 in (0.05 + 0.01j, 0.3, 2.0 - 0.5j, 1e-4, -0.7 + 0.2j):
            a, b = z_continued_fraction(x2, l), z_mpmath(x2, l)
            up('z_cf', abs(a - b) / abs(b))
    if verbose:
        print('ts72 selftest', W)
    return W


SELFTEST_TOL = dict(matrix_vs_eq82=1e-12, incompressible_limit=1e-9, third_solution=1e-11, liquid_limit=1e-9, saito=1e-12, z_cf=1e-13)


def selftest_ok():
    W = selftest()
    bad = {k: v for k, v in W.items() if not (v <= SELFTEST_TOL[k])}
    return (not bad), W


if __name__ == '__main__':
    print(selftest_ok())
