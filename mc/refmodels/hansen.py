"""Reference model for C08: squared Hansen coefficients  G_lpq(e)^2 = [X^{-(l+1),(l-2p)}_{l-2p+q}(e)]^2  as exact
truncated power series in e (Fractions), straight from the definition

    X^{n,m}_k(e) = (1/2pi) int_0^{2pi} (r/a)^n exp(i m f) exp(-i k M) dM

evaluated with Laurent polynomials in z = exp(iE) whose coefficients are truncated series in e:

    r/a = 1 - e (z + 1/z)/2,      dM = (r/a) dE,      M = E - e sin E,
    (r/a) exp(i f) = cos E - e + i sqrt(1-e^2) sin E = (1+s)/2 z + (1-s)/2 1/z - e,   s = sqrt(1-e^2),
    exp(-i k M) = z^-k exp(k e (z - 1/z)/2),

so X^{n,m}_k is the z^k coefficient of (r/a)^(n+1-|m|) [(r/a)e^{+-if}]^|m| exp(k e (z-1/z)/2).  Nothing here knows anything
about TidalPy's tables.  The result is cached on disk (`ensure_cache`), and the cache is only written after the generator
has validated itself against (a) numerical quadrature in the mean anomaly with a Newton Kepler solver, (b) the classical
closed forms X^{-(l+1),m}_0 = (1-e^2)^-(l-1/2) sum_j C(l-1,2j+m) C(2j+m,j) (e/2)^(2j+m), (c) the symmetry
G_{l,p,q} = G_{l,l-p,-q}, (d) textbook expansions of G_200, G_201, G_20-1.
"""
import hashlib
import json
import math
import os
import sys
import time
from fractions import Fraction as Fr

from ..exact import Series, sqrt_one_minus_x2

L_RANGE = range(2, 8)
CLOSED_ORDER = 30          # order to which closed-form (k = l-2p+q = 0) entries are cached


def nmax(l):
    """Largest published truncation level for degree l."""
    return 22 if l == 2 else 20


def qmax(l):
    """|q| range kept in the cache (N/2 + 3 for the largest N)."""
    return nmax(l) // 2 + 3


# ------------------------------------------------------------------------------------------------
# Laurent polynomials in z with Series coefficients: dict {power: Series}
# ------------------------------------------------------------------------------------------------
def _lmul(A, B, N):
    R = {}
    for i, a in A.items():
        for j, b in B.items():
            p = a * b
            if not p.iszero():
                k = i + j
                R[k] = R[k] + p if k in R else p
    return R


def _lpow(A, n, N):
    R = {0: Series([1], N)}
    for _ in range(n):
        R = _lmul(R, A, N)
    return R


def _base(n, m, N):
    """Laurent polynomial of (r/a)^(n+1-|m|) * [(r/a) exp(+-i f)]^|m|, truncated at e^N."""
    e = Series.var(N)
    one = Series([1], N)
    half = Fr(1, 2)
    ra = {0: one, 1: -half * e, -1: -half * e}
    s = sqrt_one_minus_x2(N)
    F = {1: half * (one + s), -1: half * (one - s), 0: -e}
    if m < 0:
        F = {-p: c for p, c in F.items()}
    mm = abs(m)
    P = _lpow(F, mm, N)
    expo = n + 1 - mm
    if expo >= 0:
        P = _lmul(P, _lpow(ra, expo, N), N)
    else:
        # (1 - e c)^-q = sum_j C(q+j-1, j) (e c)^j,   c = (z + 1/z)/2
        q = -expo
        ec = {1: half * e, -1: half * e}
        term = {0: one}
        acc = {0: one}
        for j in range(1, N + 1):
            term = _lmul(term, ec, N)
            coef = Fr(math.comb(q + j - 1, j))
            for p, c in term.items():
                acc[p] = acc[p] + coef * c if p in acc else coef * c
        P = _lmul(P, acc, N)
    return P


def _expk(k, N):
    """exp(k e (z - 1/z)/2) truncated at e^N."""
    e = Series.var(N)
    one = Series([1], N)
    acc = {0: one}
    if k == 0:
        return acc
    ks = {1: Fr(k, 2) * e, -1: -Fr(k, 2) * e}
    term = {0: one}
    for j in range(1, N + 1):
        term = _lmul(term, ks, N)
        f = Fr(1, math.factorial(j))
        for p, c in term.items():
            acc[p] = acc[p] + f * c if p in acc else f * c
    return acc


def hansen_series(n, m, k, N, _P=None):
    """X^{n,m}_k(e) through order e^N, exact (Series of Fractions)."""
    P = _base(n, m, N) if _P is None else _P
    A = _expk(k, N)
    tot = Series([0], N)
    for j, pj in P.items():
        a = A.get(k - j)
        if a is not None:
            tot = tot + pj * a
    return tot


def g2_series(l, p, q, N):
    """G_lpq(e)^2 through order e^N, exact."""
    X = hansen_series(-(l + 1), l - 2 * p, l - 2 * p + q, N)
    return X * X


# ------------------------------------------------------------------------------------------------
# independent cross-checks used by the self-validation
# ------------------------------------------------------------------------------------------------
def closed_form_k0_sq(l, p, N):
    """[X^{-(l+1), l-2p}_0]^2 = [sum_j C(l-1,2j+m) C(2j+m,j) (e/2)^(2j+m)]^2 / (1-e^2)^(2l-1),  m = |l-2p|."""
    m = abs(l - 2 * p)
    c = [Fr(0)] * (N + 1)
    j = 0
    while 2 * j + m <= min(l - 1, N):
        c[2 * j + m] = Fr(math.comb(l - 1, 2 * j + m) * math.comb(2 * j + m, j), 2 ** (2 * j + m))
        j += 1
    poly = Series(c, N)
    e = Series.var(N)
    return poly * poly / (1 - e * e) ** (2 * l - 1)


def closed_form_k0_value(l, p, e):
    """Exact value (Fraction in, Fraction out) of [X^{-(l+1), l-2p}_0(e)]^2."""
    m = abs(l - 2 * p)
    tot = Fr(0)
    j = 0
    while 2 * j + m <= l - 1:
        tot += Fr(math.comb(l - 1, 2 * j + m) * math.comb(2 * j + m, j), 2 ** (2 * j + m)) * e ** (2 * j + m)
        j += 1
    return tot * tot / (1 - e * e) ** (2 * l - 1)


def hansen_quadrature(n, m, k, e, M=2048):
    """X^{n,m}_k(e) by the trapezoid rule in the mean anomaly (spectrally accurate), Kepler's equation by Newton."""
    tot = 0.0
    s1 = math.sqrt(1.0 - e * e)
    for j in range(M):
        Ma = 2.0 * math.pi * j / M
        E = Ma
        for _ in range(60):
            d = (E - e * math.sin(E) - Ma) / (1.0 - e * math.cos(E))
            E -= d
            if abs(d) < 1e-16:
                break
        r = 1.0 - e * math.cos(E)
        f = math.atan2(s1 * math.sin(E), math.cos(E) - e)
        tot += r ** n * math.cos(m * f - k * Ma)
    return tot / M


QUAD_E = (0.02, 0.05, 0.08)


def _validate_quadrature(l, p, entries, N):
    """entries: {q: coefficient list of G^2}.  Returns list of failure strings."""
    bad = []
    qs = sorted({-3, -1, 0, 1, 2, 2 * p - l} & set(entries))
    for q in qs:
        c = entries[q]
        for e in QUAD_E:
            x = hansen_quadrature(-(l + 1), l - 2 * p, l - 2 * p + q, e)
            want = x * x
            got = float(sum(a * Fr(e) ** i for i, a in enumerate(c[:N + 1])))
            # tolerance: quadrature round-off + a bound on the truncated tail (coefficients grow by < 4x per e^2 here)
            tail = 4.0 * max(abs(float(a)) for a in c[max(0, N - 1):N + 1]) * e ** (N + 2)
            if abs(got - want) > 1e-9 * abs(want) + 1e-14 + tail:
                bad.append(f'quadrature l={l} p={p} q={q} e={e}: series {got!r} vs quadrature {want!r}')
    return bad


# ------------------------------------------------------------------------------------------------
# cache
# ------------------------------------------------------------------------------------------------
def _src_hash():
    h = hashlib.sha256()
    here = os.path.dirname(os.path.abspath(__file__))
    for f in (os.path.abspath(__file__), os.path.join(os.path.dirname(here), 'exact.py')):
        with open(f, 'rb') as fh:
            h.update(fh.read())
    return h.hexdigest()[:12]


def cache_path():
    home = os.environ.get('VERIF_HOME', os.path.dirname(os.path.dirname(os.path.dirname(os.path.abspath(__file__)))))
    return os.path.join(home, '.cache', 'refs', f'hansen-{_src_hash()}.json')


def _enc(c):
    return [f'{a.numerator}/{a.denominator}' if a.denominator != 1 else str(a.numerator) for a in c]


def _dec(c):
    return [Fr(s) for s in c]


def _gen_job(job):
    """One (l, p): all q in -qmax..qmax to order nmax(l), the k=0 entry to CLOSED_ORDER.  Runs in a worker process."""
    l, p = job['l'], job['p']
    N = nmax(l)
    n, m = -(l + 1), l - 2 * p
    P = _base(n, m, N)
    out = {}
    for q in range(-qmax(l), qmax(l) + 1):
        X = hansen_series(n, m, m + q, N, _P=P)
        out[q] = (X * X).c
    q0 = -m                                  # k = l - 2p + q = 0
    X0 = hansen_series(n, m, 0, CLOSED_ORDER)
    c0 = (X0 * X0).c
    fails = []
    if c0[:N + 1] != out[q0]:
        fails.append(f'l={l} p={p}: order-{CLOSED_ORDER} run disagrees with order-{N} run for the k=0 entry')
    if c0 != closed_form_k0_sq(l, p, CLOSED_ORDER).c:
        fails.append(f'l={l} p={p}: k=0 entry differs from the closed form')
    fails += _validate_quadrature(l, p, out, N)
    out[q0] = c0
    return dict(l=l, p=p, entries={str(q): _enc(c) for q, c in out.items()}, fails=fails)


def _textbook_checks():
    fails = []
    want = {(-3, 2, 2): [1, 0, Fr(-5, 2), 0, Fr(13, 16), 0, Fr(-35, 288)],
            (-3, 2, 3): [0, Fr(7, 2), 0, Fr(-123, 16), 0, Fr(489, 128), 0],
            (-3, 2, 1): [0, Fr(-1, 2), 0, Fr(1, 16), 0, Fr(-5, 384), 0],
            (-3, 0, 1): [0, Fr(3, 2), 0, Fr(27, 16), 0, Fr(261, 128), 0]}
    for (n, m, k), c in want.items():
        got = hansen_series(n, m, k, 6).c
        if got != [Fr(x) for x in c]:
            fails.append(f'textbook X^{{{n},{m}}}_{k}: got {got}')
    return fails


def _own_pool_map(fn_path, jobs):
    import importlib
    import multiprocessing as mp
    n = min(16, os.cpu_count() or 1, len(jobs))
    with mp.get_context('spawn').Pool(n) as pool:
        return pool.map(_gen_job, jobs, chunksize=1)


def ensure_cache(verbose=False, mapper=None, force=False):
    """Generate (if missing) and self-validate the reference cache.  `mapper(fn_path, jobs)` may be ctx.map-like;
    by default a private spawned pool is used.  Returns the cache path."""
    path = cache_path()
    if os.path.exists(path) and not force:
        return path
    t0 = time.time()
    jobs = [dict(l=l, p=p) for l in L_RANGE for p in range(l + 1)]
    jobs.sort(key=lambda j: -j['l'])
    res = (mapper or _own_pool_map)('mc.refmodels.hansen:_gen_job', jobs)
    fails = _textbook_checks()
    table = {}
    for r in res:
        if r.get('status') == 'harness_error':
            raise RuntimeError(f"Hansen reference generation failed: {r.get('err')}\n{r.get('tb')}")
        fails += r['fails']
        for q, c in r['entries'].items():
            table[f"{r['l']},{r['p']},{q}"] = c
    # symmetry G_{l,p,q} = G_{l,l-p,-q}
    for l in L_RANGE:
        for p in range(l + 1):
            for q in range(-qmax(l), qmax(l) + 1):
                if table[f'{l},{p},{q}'] != table[f'{l},{l - p},{-q}']:
                    fails.append(f'symmetry l={l} p={p} q={q}')
    if fails:
        raise RuntimeError('Hansen reference failed its self-validation (nothing cached): ' + '; '.join(fails[:8]))
    os.makedirs(os.path.dirname(path), exist_ok=True)
    tmp = f'{path}.{os.getpid()}.tmp'
    with open(tmp, 'w') as fh:
        json.dump(dict(version=_src_hash(), nmax={str(l): nmax(l) for l in L_RANGE}, closed_order=CLOSED_ORDER,
                       quad_e=list(QUAD_E), table=table), fh)
    os.replace(tmp, path)
    # drop caches of older generator versions
    for f in os.listdir(os.path.dirname(path)):
        if f.startswith('hansen-') and f.endswith('.json') and os.path.join(os.path.dirname(path), f) != path:
            try:
                os.remove(os.path.join(os.path.dirname(path), f))
            except OSError:
                pass
    if verbose:
        print(f'[hansen] reference cache written: {path} ({len(table)} entries, {time.time() - t0:.1f}s, '
              f'self-validation: quadrature at e={QUAD_E}, closed forms to e^{CLOSED_ORDER}, symmetry, textbook series)',
              flush=True)
    return path


_TABLE = None


def load():
    """{(l,p,q): [Fraction, ...]} from the cache (which must exist: call ensure_cache first)."""
    global _TABLE
    if _TABLE is None:
        with open(cache_path()) as fh:
            raw = json.load(fh)['table']
        _TABLE = {tuple(int(x) for x in k.split(',')): v for k, v in raw.items()}
    return _TABLE


_DEC = {}


def g2(l, p, q, N):
    """Exact Taylor coefficients [c_0..c_N] of G_lpq(e)^2; from the cache when possible, else computed directly."""
    key = (l, p, q)
    c = _DEC.get(key)
    if c is None:
        raw = load().get(key) if l in L_RANGE else None
        c = _dec(raw) if raw is not None else None
        if c is not None:
            _DEC[key] = c
    if c is None or len(c) < N + 1:
        c = g2_series(l, p, q, N).c
        _DEC[key] = c
    return c[:N + 1]


if __name__ == '__main__':
    ensure_cache(verbose=True, force='--force' in sys.argv)
