"""Watchdog for the spawned worker pool used by ctx.map / run_lattice.

multiprocessing.Pool silently replaces a worker that dies (e.g. a segfault inside numba-generated code: observed once,
`segfault at 0 ip 0` in three workers while 16 processes were JIT-compiling and loading the same cached `parallel=True`
functions concurrently) and the task the dead worker held is lost, so `imap` never returns and the check would hang.
The watchdog turns that into a harness error: message on stderr, exit status 2 (no verdict), never a VIOLATION.
"""
import os
import sys
import threading


def start(ctx, period=1.0):
    """Start watching ctx's pool; returns a threading.Event -- set it to stop watching."""
    stop = threading.Event()
    if ctx.nworkers <= 1:
        return stop
    pool = ctx.pool()
    if not hasattr(pool, '_pool'):
        # the framework pool is now a concurrent.futures.ProcessPoolExecutor: a dead worker raises BrokenProcessPool in
        # ctx.map, which core.py turns into a HarnessError (exit 2) -- nothing to watch
        return stop
    pids0 = {p.pid for p in list(pool._pool)}

    def loop():
        while not stop.wait(period):
            if ctx._pool is not pool:
                return
            try:
                cur = {p.pid for p in list(pool._pool)}
            except Exception:
                return
            new = cur - pids0
            if new and ctx._pool is pool and not stop.is_set():
                sys.stderr.write(f'[{ctx.prop}] HARNESS ERROR: a worker process of the pool died and was replaced '
                                 f'(new pid(s) {sorted(new)}); the case it held is lost -- aborting without a verdict\n')
                sys.stderr.flush()
                try:
                    pool.terminate()
                finally:
                    os._exit(2)

    threading.Thread(target=loop, name='poolwatch', daemon=True).start()
    return stop


def numba_ready():
    """Launch numba's threading layer in this process before any compiled TidalPy table function is called.

    Reproducible numba (0.67) defect met while building C09: process A calls a `parallel=True` table function on an
    array (compiled, cached); process B calls a `cacheable=True` *caller* of it (the mode_calc_helper lookups: callee
    loaded from the cache, caller compiled and cached); a fresh process C that calls the cached caller as its first
    numba call jumps through a NULL `numba_parallel_for` pointer (`segfault at 0 ip 0`), because loading the cached
    caller does not run the callee's reload hook that launches the threading layer.  Launching it explicitly makes the
    compiled paths usable from any worker in any order; it does not change any computed value.
    """
    try:
        from numba.np.ufunc.parallel import _launch_threads
        _launch_threads()
    except Exception:       # numba disabled / API moved: nothing to prepare
        pass
