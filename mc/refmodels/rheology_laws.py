"""Reference complex compliances J(omega) of the linear viscoelastic laws used by TidalPy (boring model, mpmath).

Everything is evaluated with mpmath at 50 significant digits from the *exact* values of the double
arguments (mp.mpf(float) is exact), so the reference carries no rounding of its own at the 1e-16 level.

Laws (omega > 0; J_U = 1/mu unrelaxed compliance, eta steady-state viscosity, tau_M = eta J_U):

  elastic          J = J_U                                                   (Hooke)
  newton           J = -i / (omega eta)                                      (dashpot: mu* = i omega eta)
  maxwell          J = J_U - i/(omega eta)                                   Henning, O'Connell & Sasselov (2009) Table 1
  voigt (Kelvin)   J = 1 / (mu_V + i omega eta_V)  = J_V / (1 + i omega eta_V J_V)       ibid.
  burgers          J = J_maxwell + J_voigt                                                ibid.
  andrade          J = J_U [ 1 + (i omega tau_A)^(-alpha) Gamma(1+alpha) ] - i/(omega eta),
                   tau_A = zeta tau_M                                        Efroimsky (2012) eq. 78-82;
                                                                             Renaud & Henning (2018) eq. 3 (zeta)
  sundberg-cooper  J = J_andrade + J_voigt                                   Sundberg & Cooper (2010); R&H (2018)

(i)^(-alpha) is the principal value exp(-i alpha pi / 2).  The Voigt element is parameterised the way the
compiled classes do (mu_V = a mu, eta_V = b eta); the legacy functions use J_V = c J_U, i.e. a = 1/c.

The "frequency dependent zeta" variants of the legacy module have no published closed form; the only
statement of their law is the legacy docstring + source:  zeta(omega) = zeta * exp(clip(-k (|omega|/omega_c - 1), 0, 100)).
`zeta_freq` writes that down; C07 additionally checks the form-independent consequences (identical to the
plain law for omega >= omega_c, an Andrade law with zeta_eff >= zeta below).
"""
import mpmath as mp

DPS = 50
MODELS = ('elastic', 'newton', 'maxwell', 'voigt', 'burgers', 'andrade', 'sundberg')
MAXWELL_FAMILY = ('maxwell', 'burgers', 'andrade', 'sundberg')

# documented extreme-value constants (TidalPy/utilities/constants_x.pyx)
MIN_FREQUENCY = 1.0e-17
MAX_FREQUENCY = 1.0e8
MIN_MODULUS = 1.0e-3


def _f(x):
    return mp.mpf(x)


def j_voigt_element(w, j_v, eta_v):
    """Kelvin-Voigt element with compliance j_v (=1/mu_V) and viscosity eta_v."""
    return j_v / (1 + mp.mpc(0, 1) * w * eta_v * j_v)


def j_andrade_term(w, j_u, eta, alpha, zeta):
    """Transient (Andrade) part  J_U (i w zeta eta J_U)^(-alpha) Gamma(1+alpha)."""
    x = w * zeta * eta * j_u                      # real, > 0
    return j_u * x ** (-alpha) * mp.expjpi(-alpha / 2) * mp.gamma(1 + alpha)


def compliance(model, w, mu, eta, params=()):
    """Complex compliance of `model` for omega = w > 0, rigidity mu, viscosity eta (mpmath mpc).

    params: voigt/burgers (a, b) with mu_V = a mu, eta_V = b eta; andrade (alpha, zeta);
            sundberg (a, b, alpha, zeta).
    """
    with mp.workdps(DPS):
        w, mu, eta = _f(w), _f(mu), _f(eta)
        j_u = 1 / mu
        visc = mp.mpc(0, -1) / (w * eta)
        if model == 'elastic':
            return mp.mpc(j_u, 0)
        if model == 'newton':
            return visc
        if model == 'maxwell':
            return j_u + visc
        if model == 'voigt':
            a, b = map(_f, params)
            return j_voigt_element(w, 1 / (a * mu), b * eta)
        if model == 'burgers':
            a, b = map(_f, params)
            return j_u + visc + j_voigt_element(w, 1 / (a * mu), b * eta)
        if model == 'andrade':
            alpha, zeta = map(_f, params)
            return j_u + visc + j_andrade_term(w, j_u, eta, alpha, zeta)
        if model == 'sundberg':
            a, b, alpha, zeta = map(_f, params)
            return j_u + visc + j_andrade_term(w, j_u, eta, alpha, zeta) + j_voigt_element(w, 1 / (a * mu), b * eta)
        raise KeyError(model)


def modulus(model, w, mu, eta, params=()):
    """mu* = 1/J (mpc)."""
    with mp.workdps(DPS):
        return 1 / compliance(model, w, mu, eta, params)


def zeta_freq(w, zeta, critical_freq, falloff):
    """zeta(omega) of the legacy *_freq variants (docstring + source of compliance_models.andrade_freq)."""
    with mp.workdps(DPS):
        e = -_f(falloff) * (abs(_f(w)) / _f(critical_freq) - 1)
        e = min(max(e, mp.mpf(0)), mp.mpf(100))
        return _f(zeta) * mp.exp(e)


def compliance_freq(model, w, mu, eta, params):
    """andrade_freq: params (alpha, zeta, wc, k); sundberg_freq: params (a, b, alpha, zeta, wc, k)."""
    with mp.workdps(DPS):
        if model == 'andrade':
            alpha, zeta, wc, k = params
            return compliance('andrade', w, mu, eta, (alpha, zeta_freq(w, zeta, wc, k)))
        a, b, alpha, zeta, wc, k = params
        return compliance('sundberg', w, mu, eta, (a, b, alpha, zeta_freq(w, zeta, wc, k)))


def documented_limit(model, branch, w_abs, mu, eta, params=()):
    """Value the compiled classes document (models.pyx "pre-calculated limits") inside a guarded branch.

    branch: 'low'  |w| < MIN_FREQUENCY           -> static limit of 1/J
            'high' |w| > MAX_FREQUENCY or inf    -> unrelaxed limit of 1/J
            'soft' mu < MIN_MODULUS (frequency in range) -> mu -> 0 limit of 1/J
    Returns a python complex (may contain inf).  Elastic has no guards.
    These are the omega->0, omega->inf and mu->0 limits of the laws above:
      maxwell family: 0, mu, 0;  newton: 0, +i inf, i w eta;  voigt: mu_V, +i inf, i w eta_V.
    """
    inf = float('inf')
    if model == 'elastic':
        return complex(mu, 0.0)
    if model in MAXWELL_FAMILY:
        return {'low': 0j, 'high': complex(mu, 0.0), 'soft': 0j}[branch]
    if model == 'newton':
        return {'low': 0j, 'high': complex(0.0, inf), 'soft': complex(0.0, w_abs * eta)}[branch]
    if model == 'voigt':
        a, b = params
        return {'low': complex(a * mu, 0.0), 'high': complex(0.0, inf), 'soft': complex(0.0, (b * eta) * w_abs)}[branch]
    raise KeyError(model)


def branch_of(w, mu):
    """Which guarded branch of the compiled classes (models.pyx) the input falls in, or None."""
    wa = abs(w)
    if wa < MIN_FREQUENCY:
        return 'low'
    if wa > MAX_FREQUENCY or wa == float('inf'):
        return 'high'
    if mu < MIN_MODULUS:
        return 'soft'
    return None
