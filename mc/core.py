"""Check context: violations -> known findings / replay files, evidence, worker pool, lattice engine (E1)."""
import hashlib
import importlib
import itertools
import json
import math
import multiprocessing as mp
import os
import random
import subprocess
import sys
import time
import traceback

from . import env

LEVELS = ('exploration', 'fault_enumeration', 'model_checking')


def jsonable(x):
    """Best-effort conversion of numpy / complex / tuple structures into JSON-able values."""
    try:
        import numpy as np
    except Exception:  # pragma: no cover
        np = None
    if x is None or isinstance(x, (bool, int, str)):
        return x
    if isinstance(x, float):
        if math.isnan(x) or math.isinf(x):
            return repr(x)
        return x
    if isinstance(x, complex):
        return {'re': jsonable(x.real), 'im': jsonable(x.imag)}
    if np is not None:
        if isinstance(x, np.generic):
            return jsonable(x.item())
        if isinstance(x, np.ndarray):
            return [jsonable(v) for v in x.tolist()]
    if isinstance(x, dict):
        return {str(k): jsonable(v) for k, v in x.items()}
    if isinstance(x, (list, tuple, set, frozenset)):
        return [jsonable(v) for v in x]
    return repr(x)


def stable_hash(obj, n=16):
    return hashlib.sha256(json.dumps(jsonable(obj), sort_keys=True).encode()).hexdigest()[:n]


class HarnessError(Exception):
    """Infrastructure problem: the check gives no verdict (exit status 2, no VIOLATION line)."""


class Findings:
    def __init__(self, path=None):
        path = path or os.path.join(env.HOME, 'known_findings.json')
        self.records = json.load(open(path))['findings'] if os.path.exists(path) else []
        extra = os.environ.get('VERIF_EXTRA_FINDINGS')   # builders' scratch file, same format; never used by registered commands
        if extra and os.path.exists(extra):
            self.records = self.records + json.load(open(extra))['findings']

    def match(self, prop, site):
        """Return the 'known' record whose site equals `site` (exact) or None. 'fixed' records never match."""
        for r in self.records:
            if r.get('property') == prop and r.get('status') == 'known' and r.get('site') == site:
                return r
        return None


class Ctx:
    def __init__(self, prop, tier='quick', seed=0, level='exploration'):
        self.prop, self.tier, self.seed, self.level = prop, tier, int(seed), level
        self.t0 = time.time()
        self.violations = []          # dict(site, case, detail)
        self.coverage = {}
        self.assumptions = []
        self.notes = []
        self.rng = random.Random(self.seed)
        self._pool = None
        self.nworkers = int(os.environ.get('VERIF_WORKERS', '16'))
        self.build_info = {}

    # ---- violations
    def violation(self, site, case, detail=None):
        self.violations.append(dict(site=site, case=jsonable(case), detail=jsonable(detail)))

    def note(self, msg):
        self.notes.append(msg)
        print(f'[{self.prop}] {msg}', flush=True)

    @property
    def thorough(self):
        return self.tier == 'thorough'

    # ---- workers
    def pool(self):
        if self._pool is None:
            from concurrent.futures import ProcessPoolExecutor
            self._pool = ProcessPoolExecutor(self.nworkers, mp_context=mp.get_context('spawn'), initializer=env.worker_init)
        return self._pool

    def close(self):
        if self._pool is not None:
            procs = list((getattr(self._pool, '_processes', None) or {}).values())
            try:
                self._pool.shutdown(wait=False, cancel_futures=True)
            except Exception:
                pass
            for p in procs:
                try:
                    p.terminate()
                except Exception:
                    pass
            self._pool = None

    def map(self, fn_path, items, chunk=None, ordered=True):
        """Run `module:function` on every item over the spawned pool. Returns results in order.
        A worker that dies (segfault, exit) breaks the pool and becomes a HarnessError (exit 2), never a hang."""
        items = list(items)
        if not items:
            return []
        if self.nworkers <= 1 or len(items) <= 2:
            return [_call((fn_path, [it]))[0] for it in items]
        if chunk is None:
            chunk = max(1, min(64, len(items) // (self.nworkers * 4) or 1))
        batches = [(fn_path, items[i:i + chunk]) for i in range(0, len(items), chunk)]
        from concurrent.futures.process import BrokenProcessPool
        out = []
        try:
            for r in self.pool().map(_call, batches):
                out.extend(r)
        except BrokenProcessPool as e:
            self.close()
            raise HarnessError(f'a pool worker died while running {fn_path} ({e}); no verdict')
        return out

    # ---- finish
    def finish(self, replay_verify=True):
        self.close()
        findings = Findings()
        known, fresh = {}, []
        for v in self.violations:
            rec = findings.match(self.prop, v['site'])
            if rec is not None:
                known.setdefault(v['site'], []).append(v)
            else:
                fresh.append(v)
        for site, vs in sorted(known.items()):
            rec = findings.match(self.prop, site)
            print(f"KNOWN-FINDING: property={self.prop} {site} ({len(vs)} case(s) on this run) -- {rec.get('description', '')[:160]}")
        # replay files for fresh violations: one per distinct site (simplest case first)
        lines, unreproduced = [], 0
        rdir = os.path.join(_out_root(), 'replays', self.prop)
        seen_sites = {}
        for v in fresh:
            seen_sites.setdefault(v['site'], []).append(v)
        reported = []
        paths = []
        for site, vs in sorted(seen_sites.items()):
            v = min(vs, key=lambda x: len(json.dumps(x['case'])))
            os.makedirs(rdir, exist_ok=True)
            path = os.path.join(rdir, f"{site.replace('/', '_')[:100]}-{stable_hash(v['case'], 10)}.json")
            with open(path, 'w') as fh:
                json.dump(dict(property=self.prop, site=site, case=v['case'], detail=v['detail'],
                               n_cases_with_this_site=len(vs), tier=self.tier, seed=self.seed), fh, indent=1)
            paths.append((site, path, len(vs)))
        # every violation must reproduce from its replay file in a fresh process; the first VERIFY_MAX sites are
        # re-run (in parallel); if none of those reproduces, nothing is reported (harness nondeterminism).
        VERIFY_MAX = 6
        verdict = {}
        if replay_verify and os.environ.get('VERIF_NO_REPLAY_VERIFY') != '1' and paths:
            from concurrent.futures import ThreadPoolExecutor
            with ThreadPoolExecutor(VERIFY_MAX) as ex:
                oks = list(ex.map(lambda sp: _reproduces(self.prop, sp[1]), paths[:VERIFY_MAX]))
            for (site, path, n), ok in zip(paths[:VERIFY_MAX], oks):
                verdict[path] = ok
            if not any(oks):
                for site, path, n in paths:
                    verdict[path] = False
        for site, path, n in paths:
            if verdict.get(path, True):
                lines.append(f'VIOLATION property={self.prop} replay={path}')
                reported.append(dict(site=site, replay=path, n=n, replay_verified=path in verdict))
            else:
                unreproduced += 1
                print(f'[{self.prop}] UNREPRODUCED (not reported as violation): {site} {path}')
        if len(lines) > 40:
            print(f'[{self.prop}] {len(lines)} violating sites; printing the first 40 (all are in the evidence file)')
            lines = lines[:40]
        for ln in lines:
            print(ln)
        self.write_evidence(n_fresh=len(reported), known={k: len(v) for k, v in known.items()},
                            reported=reported, unreproduced=unreproduced)
        print(f'[{self.prop}] tier={self.tier} seed={self.seed} violations={len(reported)} known_sites={len(known)} '
              f'wall={time.time() - self.t0:.1f}s', flush=True)
        return 1 if reported else 0

    def write_evidence(self, n_fresh, known, reported, unreproduced):
        cov = dict(self.coverage)
        cov.setdefault('samples', [])
        cov['samples'] = jsonable(cov['samples'])[:8]
        cov['known_finding_sites_observed'] = known
        cov['violations_reported'] = reported
        if unreproduced:
            cov['unreproduced'] = unreproduced
        if self.notes:
            cov['notes'] = self.notes[:50]
        cov['build'] = self.build_info
        ev = dict(property_id=self.prop, tier=self.tier, seed=self.seed, level=self.level, coverage=cov,
                  assumptions=self.assumptions, wall_s=round(time.time() - self.t0, 2), violations=n_fresh)
        d = os.path.join(_out_root(), 'evidence')
        os.makedirs(d, exist_ok=True)
        p = os.path.join(d, f'{self.prop}.json')
        with open(p + '.tmp', 'w') as fh:
            json.dump(ev, fh, indent=1)
        os.replace(p + '.tmp', p)


def _out_root():
    """Evidence and replay files of runs against /repo go to /verif; runs against any other tree (scratch worktrees with
    seeded changes, VERIF_REPO=...) write to a scratch directory so that committed evidence is never overwritten."""
    if os.path.realpath(env.REPO) == os.path.realpath('/repo') or os.environ.get('VERIF_OUT') == 'home':
        return env.HOME
    return os.environ.get('VERIF_OUT') or os.path.join(os.environ.get('VERIF_SCRATCH', '/dev/shm'), 'out')


def _reproduces(prop, path):
    """Re-run one replay file in a fresh process. The driver has already rebuilt stale extensions, so the replay skips the
    build step; a subprocess that ends with anything but the two verdict statuses (0 = not reproduced, 1 = reproduced) is an
    infrastructure hiccup and is retried once."""
    for attempt in range(2):
        try:
            p = subprocess.run([os.path.join(env.HOME, 'check'), prop, '--replay', path, '--no-build'], capture_output=True,
                               text=True, timeout=1800, env={**os.environ, 'VERIF_WORKERS': '1'})
        except Exception:
            continue
        if p.returncode == 1 and 'VIOLATION' in p.stdout:
            return True
        if p.returncode == 0:
            return False
    return False


def _call(arg):
    fn_path, batch = arg
    mod, fn = fn_path.split(':')
    f = getattr(importlib.import_module(mod), fn)
    out = []
    for it in batch:
        try:
            out.append(f(it))
        except BaseException as e:  # harness errors must not silently pass
            out.append(dict(status='harness_error', viol=[], err=f'{type(e).__name__}: {e}',
                            tb=traceback.format_exc()[-1500:]))
    return out


# ---------------------------------------------------------------------------------------------
# E1: exhaustive product-lattice enumeration
# ---------------------------------------------------------------------------------------------
def product_cases(factors, admissible=None):
    """factors: list of (name, values). Full product, simplest-first = values in given order with the
    *last* factor varying fastest. Yields dicts."""
    names = [n for n, _ in factors]
    for combo in itertools.product(*[v for _, v in factors]):
        c = dict(zip(names, combo))
        if admissible is None or admissible(c):
            yield c


def run_lattice(ctx, fn_path, cases, rule, chunk=None, min_admitted_frac=None, exhaustive=None, extra=None):
    """Run fn on every case. fn(case) -> dict(status='pass'|'inadmissible:<why>', viol=[(site, detail)], obs=<hashable>)
    Fills ctx.coverage in the exploration-style keys and registers violations."""
    cases = list(cases)
    order = list(range(len(cases)))
    if ctx.seed:
        # the seed only permutes the visiting order inside the pool (results are re-ordered afterwards)
        random.Random(ctx.seed).shuffle(order)
    res_shuffled = ctx.map(fn_path, [cases[i] for i in order], chunk=chunk)
    res = [None] * len(cases)
    for i, r in zip(order, res_shuffled):
        res[i] = r
    status = {}
    distinct = set()
    herr = []
    for c, r in zip(cases, res):
        st = r.get('status', 'pass')
        status[st] = status.get(st, 0) + 1
        if st == 'harness_error':
            herr.append((c, r.get('err'), r.get('tb')))
            continue
        for site, detail in r.get('viol', []):
            ctx.violation(site, c, detail)
        if st == 'pass' or r.get('viol'):
            o = r.get('obs')
            if o is not None:
                distinct.add(stable_hash(o))
    if herr:
        for c, e, tb in herr[:3]:
            print(f'[{ctx.prop}] HARNESS ERROR on case {json.dumps(jsonable(c))[:300]}: {e}\n{tb}', file=sys.stderr, flush=True)
        raise HarnessError(f'{len(herr)} harness error(s); aborting without a verdict')
    admitted = sum(n for s, n in status.items() if not s.startswith('inadmissible'))
    cov = ctx.coverage
    cov['evaluations'] = cov.get('evaluations', 0) + len(cases)
    cov['distinct_nontrivial'] = cov.get('distinct_nontrivial', 0) + len(distinct)
    cov['rule'] = (cov.get('rule', '') + ' | ' if cov.get('rule') else '') + rule
    cov.setdefault('status_counts', {})
    for s, n in status.items():
        cov['status_counts'][s] = cov['status_counts'].get(s, 0) + n
    cov.setdefault('samples', [])
    step = max(1, len(cases) // 3)
    cov['samples'].extend(jsonable(c) for c in cases[::step][:3])
    if exhaustive is not None:
        cov['exhaustive'] = bool(exhaustive) and cov.get('exhaustive', True)
    if extra:
        cov.update(extra)
    if min_admitted_frac is not None and cases and admitted < min_admitted_frac * len(cases):
        raise HarnessError(f'vacuity guard: only {admitted}/{len(cases)} cases admitted '
                           f'(< {min_admitted_frac:.0%}); infrastructure problem, no verdict')
    return res


def relerr(a, b, floor=0.0):
    """|a-b| / max(|a|,|b|,floor)"""
    d = abs(a - b)
    s = max(abs(a), abs(b), floor)
    return 0.0 if d == 0 else (d / s if s > 0 else float('inf'))
