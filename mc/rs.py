"""Shared helpers for the radial-solver properties (C01-C06, C12 cross-module leg).

Planet generators follow the *tight grid* convention of DESIGN C03: the solver assigns slices with
radius <= upper_radius to a layer and starts the next layer's integration at that layer's first slice, so
upper layers begin at r_interface * (1 + TIGHT) -- otherwise every multi-layer result carries a first-order
grid error (recorded as a C03 finding) that would blur all other oracles.
"""
import math

import numpy as np

G = 6.67430e-11
TIGHT = 1e-9


def tp():
    from mc import env
    return env.tidalpy()


def radial_solver():
    tp()
    from TidalPy.RadialSolver import radial_solver as f
    return f


def uniform_planet(R, rho, mu, K, N=60, r0_frac=0.01):
    """Homogeneous sphere on a linspace grid from r0_frac*R to R. Returns (arrays, bulk_density, (R,))."""
    r = np.linspace(r0_frac * R, R, N)
    arrs = (r, rho * np.ones(N), 4. / 3. * math.pi * G * rho * r, float(K) * np.ones(N), complex(mu) * np.ones(N, dtype=np.complex128))
    return arrs, float(rho), (float(R),)


def layered_planet(layers, N=40, r0_frac=0.01, tight=True):
    """layers: list of (r_top, rho, complex mu, K), innermost first; N slices per layer.
    tight=True : upper layers start at r_interface*(1+TIGHT) (N slices from there to the layer top)
    tight=False: 'natural' grid, linspace(r_interface, r_top, N+1)[1:] (first slice one step above the interface)
    Gravity from the enclosed mass of homogeneous shells (exact for piecewise-constant density).
    Returns (arrays, bulk_density, upper_radius_by_layer)."""
    R = layers[-1][0]
    rs, rho, mu, K = [], [], [], []
    rp = r0_frac * R
    for i, (rt, rh, m, k) in enumerate(layers):
        if i == 0:
            rr = np.linspace(rp, rt, N)
        elif tight:
            rr = np.linspace(rp * (1. + TIGHT), rt, N)
        else:
            rr = np.linspace(rp, rt, N + 1)[1:]
        rs.append(rr)
        rho.append(rh * np.ones_like(rr))
        mu.append(complex(m) * np.ones_like(rr, dtype=np.complex128))
        K.append(float(k) * np.ones_like(rr))
        rp = rt
    r = np.concatenate(rs)
    rho = np.concatenate(rho)
    mu = np.concatenate(mu)
    K = np.concatenate(K)
    # exact enclosed mass for piecewise-constant density
    g = np.empty_like(r)
    m_below, r_below = 0.0, 0.0
    idx = 0
    for i, (rt, rh, _, _) in enumerate(layers):
        n = len(rs[i])
        rr = rs[i]
        m_enc = m_below + 4. / 3. * math.pi * rh * (rr ** 3 - r_below ** 3)
        g[idx:idx + n] = G * m_enc / rr ** 2
        m_below += 4. / 3. * math.pi * rh * (rt ** 3 - r_below ** 3)
        r_below = rt
        idx += n
    bulk = m_below / (4. / 3. * math.pi * R ** 3)
    return (r, rho, g, K, mu), float(bulk), tuple(float(l[0]) for l in layers)


def solve(arrs, frequency, bulk_density, layer_types, is_static, is_incomp, upper_radii, copy=True, **kw):
    """Call the real radial_solver. Returns a dict: status in {'ok','fail','exc'} + love (n_ytypes x 3 complex),
    result (copy), message / exception type. Inputs are copied by default (the solver scales them in place)."""
    f = radial_solver()
    kw.setdefault('max_num_steps', 200000)
    a = tuple(np.array(x, copy=True) for x in arrs) if copy else arrs
    try:
        out = f(*a, float(frequency), float(bulk_density), tuple(layer_types), tuple(is_static), tuple(is_incomp),
                tuple(upper_radii), **kw)
    except Exception as e:  # noqa
        return dict(status='exc', exc=type(e).__name__, message=str(e)[:300])
    if not out.success:
        return dict(status='fail', message=str(out.message)[:300])
    return dict(status='ok', love=np.array(out.love, copy=True), result=np.array(out.result, copy=True),
                message=str(out.message)[:100], arrays=a)


def closed_form_love(l, mu, rho, R, g=None):
    """Kelvin/Love closed form for a homogeneous incompressible sphere: (k_l, h_l, l_l) complex."""
    if g is None:
        g = 4. / 3. * math.pi * G * rho * R
    m = (2 * l * l + 4 * l + 3) * complex(mu) / (l * rho * g * R)
    k = 3. / (2. * (l - 1)) / (1. + m)
    return np.array([k, (2 * l + 1) * k / 3., k / l])
