"""Deterministic process set-up shared by the check driver and every worker process.

* stubs out diffeqpy (its import tries to download Julia and can block for many minutes offline),
* makes VERIF_REPO the tree TidalPy is imported from,
* points numba's on-disk cache at a directory keyed by the sha256 of *all* TidalPy .py sources
  (numba only invalidates a cached function when the file that defines it changes, not when a
  callee in another file changes -- a per-tree cache directory removes that hole),
* silences TidalPy logging and turns on its test mode (no log files on disk).
"""
import hashlib
import os
import sys

HOME = os.environ.get('VERIF_HOME', os.path.dirname(os.path.dirname(os.path.abspath(__file__))))
REPO = os.environ.get('VERIF_REPO', '/repo')
CACHE = os.path.join(HOME, '.cache')


def tree_hash(repo=REPO):
    """sha256 over (relative path, content) of every .py file under TidalPy/ (sorted)."""
    h = hashlib.sha256()
    root = os.path.join(repo, 'TidalPy')
    for dp, dn, fn in sorted(os.walk(root)):
        dn[:] = sorted(d for d in dn if d != '__pycache__')
        for f in sorted(fn):
            if f.endswith('.py'):
                p = os.path.join(dp, f)
                h.update(os.path.relpath(p, root).encode())
                with open(p, 'rb') as fh:
                    h.update(hashlib.sha256(fh.read()).digest())
    return h.hexdigest()[:20]


def _file_hashes(repo=REPO):
    out = {}
    root = os.path.join(repo, 'TidalPy')
    for dp, dn, fn in os.walk(root):
        dn[:] = [d for d in dn if d != '__pycache__']
        for f in fn:
            if f.endswith('.py'):
                p = os.path.join(dp, f)
                with open(p, 'rb') as fh:
                    out[os.path.relpath(p, repo)] = hashlib.sha256(fh.read()).hexdigest()
    return out


def _import_graph(repo, files):
    """module file -> set of TidalPy module files it imports (module level or inside functions); over-approximate."""
    import ast
    fileset = set(files)

    def resolve(parts):
        hits = set()
        base = os.path.join(*parts) if parts else ''
        for cand in (base + '.py', os.path.join(base, '__init__.py')):
            if cand in fileset:
                hits.add(cand)
        return hits
    graph = {}
    for rel in files:
        deps = set()
        try:
            with open(os.path.join(repo, rel), 'rb') as fh:
                tree = ast.parse(fh.read())
        except SyntaxError:
            graph[rel] = None          # unknown: depends on everything
            continue
        pkg = rel.split(os.sep)[:-1]
        for node in ast.walk(tree):
            if isinstance(node, ast.Import):
                for a in node.names:
                    parts = a.name.split('.')
                    if parts[0] == 'TidalPy':
                        for i in range(1, len(parts) + 1):
                            deps |= resolve(parts[:i])
            elif isinstance(node, ast.ImportFrom):
                if node.level:
                    base = pkg[:len(pkg) - (node.level - 1)] if node.level > 1 else list(pkg)
                    parts = base + (node.module.split('.') if node.module else [])
                elif node.module and node.module.split('.')[0] == 'TidalPy':
                    parts = node.module.split('.')
                else:
                    continue
                for i in range(1, len(parts) + 1):
                    deps |= resolve(parts[:i])
                for a in node.names:
                    deps |= resolve(parts + [a.name])
        deps.discard(rel)
        graph[rel] = deps
    return graph


def _seed_cache(new_dir, base, repo=REPO):
    """Start a new per-tree numba cache from the most recent cache of the same repository path, *without* the entries of every
    module that changed or that (transitively) imports a changed module.  numba itself only notices a change of the file that
    defines a cached function; dropping the import closure removes the stale-callee hole while keeping the expensive,
    unaffected entries (the big eccentricity / inclination tables).  Any problem -> no seeding (cold cache, always sound)."""
    import json
    import shutil
    import time
    new_hashes = _file_hashes(repo)
    man_new = dict(repo=os.path.realpath(repo), files=new_hashes, seeded_from=None)
    try:
        cands = []
        for x in os.listdir(base):
            d = os.path.join(base, x)
            mp = os.path.join(d, 'manifest.json')
            if d != new_dir and os.path.isfile(mp):
                m = json.load(open(mp))
                if m.get('repo') == os.path.realpath(repo) and m.get('complete'):
                    cands.append((os.path.getmtime(d), d, m))
        if cands:
            _, src, m = max(cands)
            old = m['files']
            changed = {f for f in set(old) | set(new_hashes) if old.get(f) != new_hashes.get(f)}
            graph = _import_graph(repo, list(new_hashes))
            affected = set(changed)
            grew = True
            while grew:
                grew = False
                for f, deps in graph.items():
                    if f not in affected and (deps is None or deps & affected):
                        affected.add(f)
                        grew = True
            # numba's user-wide cache layout: <cache>/<dirname>_<sha1(abs dir)>/<module>.<func>-<line>.pyXY.{nbi,N.nbc}
            drop = set()
            for f in affected:
                ad = os.path.dirname(os.path.join(os.path.realpath(repo), f))
                ad2 = os.path.dirname(os.path.join(repo, f))
                mod = os.path.basename(f)[:-3]
                for a in {ad, ad2, os.path.abspath(ad2)}:
                    drop.add((os.path.basename(a) + '_' + hashlib.sha1(a.encode()).hexdigest(), mod))
            n_copied = n_dropped = 0
            for sub in os.listdir(src):
                sp = os.path.join(src, sub)
                if not os.path.isdir(sp):
                    continue
                for fn in os.listdir(sp):
                    mod = fn.split('.', 1)[0]
                    if (sub, mod) in drop:
                        n_dropped += 1
                        continue
                    os.makedirs(os.path.join(new_dir, sub), exist_ok=True)
                    shutil.copy2(os.path.join(sp, fn), os.path.join(new_dir, sub, fn))
                    n_copied += 1
            man_new['seeded_from'] = dict(dir=os.path.basename(src), changed=sorted(changed)[:50], affected_modules=len(affected),
                                          files_copied=n_copied, files_dropped=n_dropped)
    except Exception as e:     # never let an optimisation break a check
        man_new['seed_error'] = f'{type(e).__name__}: {e}'
        for sub in os.listdir(new_dir):
            sp = os.path.join(new_dir, sub)
            if os.path.isdir(sp):
                shutil.rmtree(sp, ignore_errors=True)
    tmp = os.path.join(new_dir, f'manifest.{os.getpid()}.tmp')
    json.dump(man_new, open(tmp, 'w'))
    os.replace(tmp, os.path.join(new_dir, 'manifest.json'))


def mark_cache_complete():
    """Called by the driver at the end of a run: this tree's cache may now serve as a seed for other trees."""
    import json
    d = os.environ.get('VERIF_NUMBA_DIR')
    if not d:
        return
    mp = os.path.join(d, 'manifest.json')
    try:
        m = json.load(open(mp))
        if not m.get('complete'):
            m['complete'] = True
            tmp = os.path.join(d, f'manifest.{os.getpid()}.tmp')
            json.dump(m, open(tmp, 'w'))
            os.replace(tmp, mp)
    except Exception:
        pass


def numba_cache_dir():
    d = os.environ.get('VERIF_NUMBA_DIR')
    if d:
        return d
    base = os.path.join(CACHE, 'numba')
    th = tree_hash()
    d = os.path.join(base, th)
    fresh = not os.path.isdir(d)
    os.makedirs(d, exist_ok=True)
    if fresh or not os.path.isfile(os.path.join(d, 'manifest.json')):
        if os.environ.get('VERIF_NUMBA_SEED', '1') == '1' and not os.listdir(d):
            _seed_cache(d, base)
        elif not os.path.isfile(os.path.join(d, 'manifest.json')):
            import json
            json.dump(dict(repo=os.path.realpath(REPO), files=_file_hashes(), seeded_from=None),
                      open(os.path.join(d, 'manifest.json'), 'w'))
    # bound disk use: keep the 12 most recently used tree caches; never remove one used within the last 3 hours
    # (another check may be running against that tree right now)
    try:
        os.utime(d, None)
        import shutil
        import time
        others = sorted((os.path.join(base, x) for x in os.listdir(base)), key=os.path.getmtime, reverse=True)
        for o in others[12:]:
            if time.time() - os.path.getmtime(o) > 3 * 3600:
                shutil.rmtree(o, ignore_errors=True)
    except OSError:
        pass
    os.environ['VERIF_NUMBA_DIR'] = d
    return d


def setup_env():
    """Environment that must be in place *before* numba / TidalPy are imported."""
    os.environ.setdefault('PYTHONHASHSEED', '0')
    os.environ.setdefault('OMP_NUM_THREADS', '1')
    os.environ.setdefault('NUMBA_NUM_THREADS', '1')
    os.environ['NUMBA_CACHE_DIR'] = numba_cache_dir()
    sys.modules['diffeqpy'] = None
    if REPO not in sys.path[:1]:
        sys.path.insert(0, REPO)
    vend = os.path.join(HOME, '_vendor')
    if vend not in sys.path:
        sys.path.append(vend)


_tp = None


def tidalpy():
    """Import TidalPy (once) from VERIF_REPO with logging disabled."""
    global _tp
    if _tp is not None:
        return _tp
    setup_env()
    import logging
    import warnings
    warnings.filterwarnings('ignore')
    logging.disable(logging.CRITICAL)
    import TidalPy
    assert os.path.realpath(TidalPy.__file__).startswith(os.path.realpath(REPO)), \
        f'TidalPy imported from {TidalPy.__file__}, expected {REPO}'
    TidalPy.test_mode = True
    logging.disable(logging.CRITICAL)
    # numba 0.6x: a process whose first compiled call is a *cached* function that calls a cached parallel=True callee on an
    # array segfaults because the threading layer was never launched (seen with the mode_calc_helper look-ups). Launch it.
    try:
        from numba.np.ufunc.parallel import _launch_threads
        _launch_threads()
    except Exception:
        pass
    _tp = TidalPy
    return TidalPy


def worker_init():
    setup_env()
    import warnings
    warnings.filterwarnings('ignore')
