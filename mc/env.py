"""Deterministic process set-up shared by the check driver and every worker process.

* stubs out diffeqpy (its import tries to download Julia and can block for many minutes offline),
* makes VERIF_REPO the tree TidalPy is imported from,
* points numba's on-disk cache at a directory keyed by the sha256 of *all* TidalPy .py sources
  (numba only invalidates a cached function when the file that defines it changes, not when a
  callee in another file changes -- a per-tree cache directory removes that hole),
* silences TidalPy logging and turns on its test mode (no log files on disk).
"""
import hashlib
import os
import sys

HOME = os.environ.get('VERIF_HOME', os.path.dirname(os.path.dirname(os.path.abspath(__file__))))
REPO = os.environ.get('VERIF_REPO', '/repo')
CACHE = os.path.join(HOME, '.cache')


def tree_hash(repo=REPO):
    """sha256 over (relative path, content) of every .py file under TidalPy/ (sorted)."""
    h = hashlib.sha256()
    root = os.path.join(repo, 'TidalPy')
    for dp, dn, fn in sorted(os.walk(root)):
        dn[:] = sorted(d for d in dn if d != '__pycache__')
        for f in sorted(fn):
            if f.endswith('.py'):
                p = os.path.join(dp, f)
                h.update(os.path.relpath(p, root).encode())
                with open(p, 'rb') as fh:
                    h.update(hashlib.sha256(fh.read()).digest())
    return h.hexdigest()[:20]


def numba_cache_dir():
    d = os.environ.get('VERIF_NUMBA_DIR')
    if d:
        return d
    base = os.path.join(CACHE, 'numba')
    th = tree_hash()
    d = os.path.join(base, th)
    os.makedirs(d, exist_ok=True)
    # bound disk use: keep the 12 most recently used tree caches; never remove one used within the last 3 hours
    # (another check may be running against that tree right now)
    try:
        os.utime(d, None)
        import shutil
        import time
        others = sorted((os.path.join(base, x) for x in os.listdir(base)), key=os.path.getmtime, reverse=True)
        for o in others[12:]:
            if time.time() - os.path.getmtime(o) > 3 * 3600:
                shutil.rmtree(o, ignore_errors=True)
    except OSError:
        pass
    os.environ['VERIF_NUMBA_DIR'] = d
    return d


def setup_env():
    """Environment that must be in place *before* numba / TidalPy are imported."""
    os.environ.setdefault('PYTHONHASHSEED', '0')
    os.environ.setdefault('OMP_NUM_THREADS', '1')
    os.environ.setdefault('NUMBA_NUM_THREADS', '1')
    os.environ['NUMBA_CACHE_DIR'] = numba_cache_dir()
    sys.modules['diffeqpy'] = None
    if REPO not in sys.path[:1]:
        sys.path.insert(0, REPO)
    vend = os.path.join(HOME, '_vendor')
    if vend not in sys.path:
        sys.path.append(vend)


_tp = None


def tidalpy():
    """Import TidalPy (once) from VERIF_REPO with logging disabled."""
    global _tp
    if _tp is not None:
        return _tp
    setup_env()
    import logging
    import warnings
    warnings.filterwarnings('ignore')
    logging.disable(logging.CRITICAL)
    import TidalPy
    assert os.path.realpath(TidalPy.__file__).startswith(os.path.realpath(REPO)), \
        f'TidalPy imported from {TidalPy.__file__}, expected {REPO}'
    TidalPy.test_mode = True
    logging.disable(logging.CRITICAL)
    # numba 0.6x: a process whose first compiled call is a *cached* function that calls a cached parallel=True callee on an
    # array segfaults because the threading layer was never launched (seen with the mode_calc_helper look-ups). Launch it.
    try:
        from numba.np.ufunc.parallel import _launch_threads
        _launch_threads()
    except Exception:
        pass
    _tp = TidalPy
    return TidalPy


def worker_init():
    setup_env()
    import warnings
    warnings.filterwarnings('ignore')
