"""E4 exact executor: algebra objects on which *real* table code can be executed (through `.py_func`).

* `Series`  -- truncated power series in one variable (the eccentricity e) with `Fraction` (exact) or float
               coefficients, supporting + - * / ** int.  Python floats met in the code under test (table literals such
               as ``0.000434027777777778 * e6``) are converted to the *exact* dyadic rational they denote, so the value
               returned by ``f.py_func(Series.var(N))`` is the exact Taylor polynomial of the expression that the source
               line spells, closed forms like ``-1 / (e2 - 1.0)**3`` included.  No rounding happens in the harness.
* node / DFT helpers for trigonometric polynomials: a trig polynomial of degree < M/2 is determined by its values on M
  equispaced nodes; `dft` returns its Fourier coefficients, `degree_of` the largest harmonic above a noise floor.

numpy-free (plain Python numbers only).
"""
import cmath
import math
from fractions import Fraction

__all__ = ['Series', 'nodes', 'dft', 'degree_of', 'trigpoly_eval', 'horner']


def _is_num(x):
    return isinstance(x, (int, float, Fraction)) and not isinstance(x, bool)


class Series:
    """Truncated power series  sum_{k=0..N} c[k] x^k  (terms above x^N are dropped by every operation).

    exact=True  : ints and floats are converted to Fractions (floats exactly); arithmetic is exact.
    exact=False : coefficients are left as given (floats stay floats).
    """
    __slots__ = ('c', 'N', 'exact')
    __array_ufunc__ = None          # make numpy scalars defer to our reflected operators

    def __init__(self, coeffs, N, exact=True):
        self.N = int(N)
        self.exact = exact
        c = [self._num(a, exact) for a in list(coeffs)[:self.N + 1]]
        if len(c) < self.N + 1:
            c.extend([Fraction(0) if exact else 0.0] * (self.N + 1 - len(c)))
        self.c = c

    # -- constructors
    @classmethod
    def var(cls, N, exact=True):
        return cls([0, 1], N, exact)

    @classmethod
    def const(cls, x, N, exact=True):
        return cls([x], N, exact)

    @staticmethod
    def _num(a, exact):
        if isinstance(a, Fraction):
            return a
        if isinstance(a, bool) or not isinstance(a, (int, float)):
            # numpy scalar types that are not float subclasses
            try:
                a = float(a)
            except Exception:
                raise TypeError(f'Series coefficient of unsupported type {type(a).__name__}')
        if exact:
            if isinstance(a, float) and not math.isfinite(a):
                raise ValueError('non-finite coefficient')
            return Fraction(a)
        return a

    def _co(self, o):
        if isinstance(o, Series):
            if o.N != self.N:
                n = min(o.N, self.N)
                return Series(o.c[:n + 1], self.N, self.exact)
            return o
        if _is_num(o) or hasattr(o, '__float__'):
            return Series([o], self.N, self.exact)
        return None

    def _new(self, c):
        s = Series.__new__(Series)
        s.N, s.exact, s.c = self.N, self.exact, c
        return s

    # -- ring operations
    def __add__(self, o):
        o = self._co(o)
        if o is None:
            return NotImplemented
        return self._new([a + b for a, b in zip(self.c, o.c)])

    __radd__ = __add__

    def __neg__(self):
        return self._new([-a for a in self.c])

    def __pos__(self):
        return self

    def __sub__(self, o):
        o = self._co(o)
        if o is None:
            return NotImplemented
        return self._new([a - b for a, b in zip(self.c, o.c)])

    def __rsub__(self, o):
        o = self._co(o)
        if o is None:
            return NotImplemented
        return o - self

    def __mul__(self, o):
        if _is_num(o):
            k = self._num(o, self.exact)
            return self._new([a * k for a in self.c])
        o = self._co(o)
        if o is None:
            return NotImplemented
        n1 = self.N + 1
        r = [Fraction(0) if self.exact else 0.0] * n1
        oc = o.c
        for i, a in enumerate(self.c):
            if a == 0:
                continue
            for j in range(n1 - i):
                b = oc[j]
                if b != 0:
                    r[i + j] += a * b
        return self._new(r)

    __rmul__ = __mul__

    def inv(self):
        a0 = self.c[0]
        if a0 == 0:
            raise ZeroDivisionError('Series with zero constant term has no power-series inverse')
        r = [Fraction(0) if self.exact else 0.0] * (self.N + 1)
        r[0] = 1 / a0
        for n in range(1, self.N + 1):
            s = 0
            for k in range(1, n + 1):
                ck = self.c[k]
                if ck != 0:
                    s += ck * r[n - k]
            r[n] = -s / a0
        return self._new(r)

    def __truediv__(self, o):
        if _is_num(o):
            k = self._num(o, self.exact)
            return self._new([a / k for a in self.c])
        o = self._co(o)
        if o is None:
            return NotImplemented
        return self * o.inv()

    def __rtruediv__(self, o):
        o = self._co(o)
        if o is None:
            return NotImplemented
        return o * self.inv()

    def __pow__(self, n):
        if isinstance(n, float) and n == int(n):
            n = int(n)
        if not isinstance(n, int) or isinstance(n, bool):
            raise TypeError('Series ** non-integer')
        if n < 0:
            return (self ** (-n)).inv()
        r = Series([1], self.N, self.exact)
        b = self
        while n:
            if n & 1:
                r = r * b
            n >>= 1
            if n:
                b = b * b
        return r

    # -- inspection
    def __eq__(self, o):
        o = self._co(o)
        return o is not None and self.c == o.c

    def __hash__(self):
        return hash(tuple(self.c))

    def iszero(self):
        return all(a == 0 for a in self.c)

    def degree(self):
        for k in range(self.N, -1, -1):
            if self.c[k] != 0:
                return k
        return -1

    def truncate(self, N):
        return Series(self.c[:N + 1], N, self.exact)

    def __call__(self, x):
        return horner(self.c, x)

    def floats(self):
        return [float(a) for a in self.c]

    def __repr__(self):
        t = [f'{float(a):.17g}*x^{k}' for k, a in enumerate(self.c) if a != 0]
        return 'Series(' + (' + '.join(t) if t else '0') + f' ; N={self.N})'


def as_series(x, N, exact=True):
    """Coerce a table entry (Series or plain number) to a Series of order N."""
    if isinstance(x, Series):
        return x if x.N == N else Series(x.c, N, x.exact)
    return Series([x], N, exact)


def horner(coeffs, x):
    r = 0
    for a in reversed(coeffs):
        r = r * x + a
    return r


def sqrt_one_minus_x2(N):
    """sqrt(1 - x^2) as an exact Series of order N (binomial series)."""
    c = [Fraction(0)] * (N + 1)
    b = Fraction(1)
    for k in range(0, N // 2 + 1):
        c[2 * k] = b * (-1) ** k
        b = b * (Fraction(1, 2) - k) / (k + 1)
    return Series(c, N)


# ------------------------------------------------------------------------------------------------
# trigonometric polynomials on equispaced nodes
# ------------------------------------------------------------------------------------------------
def nodes(M, period=2 * math.pi):
    """M equispaced nodes x_j = j * period / M, j = 0..M-1."""
    return [j * period / M for j in range(M)]


def dft(values):
    """c_k = (1/M) sum_j v_j exp(-2 pi i j k / M), k = 0..M-1 (radix-2 FFT when M is a power of two)."""
    M = len(values)
    v = [complex(x) for x in values]
    if M & (M - 1) == 0 and M > 1:
        out = _fft(v)
    else:
        out = [sum(v[j] * cmath.exp(-2j * math.pi * j * k / M) for j in range(M)) for k in range(M)]
    return [x / M for x in out]


def _fft(v):
    n = len(v)
    if n == 1:
        return v
    ev = _fft(v[0::2])
    od = _fft(v[1::2])
    out = [0j] * n
    h = n // 2
    for k in range(h):
        t = cmath.exp(-2j * math.pi * k / n) * od[k]
        out[k] = ev[k] + t
        out[k + h] = ev[k] - t
    return out


def harmonic_amplitudes(values):
    """|c_k| folded to k = 0..M/2 for real data (amplitude of harmonic k, max of the +k / -k bins)."""
    try:                                    # fast path (same definition); the pure-Python FFT is the fallback
        import numpy as _np
        c = _np.fft.fft(_np.asarray(values, dtype=complex)) / len(values)
    except ImportError:                     # pragma: no cover
        c = dft(values)
    M = len(c)
    return [max(abs(c[k]), abs(c[(M - k) % M])) for k in range(M // 2 + 1)]


def degree_of(values, floor):
    """Largest harmonic k whose amplitude exceeds `floor` (-1 if none)."""
    amp = harmonic_amplitudes(values)
    for k in range(len(amp) - 1, -1, -1):
        if amp[k] > floor:
            return k
    return -1


def trigpoly_eval(coef, x):
    """Evaluate sum_k coef[k] * exp(i k x) for a dict {k: complex/Fraction coefficient}; returns complex."""
    return sum(complex(a) * cmath.exp(1j * k * x) for k, a in coef.items())
