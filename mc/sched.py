"""E3: controlled scheduler / crash injector and deviation-bounded DFS (stateless exploration of the real code).

Threads of the system under test (the main thread that calls the library, and one thread per pool *chunk*) hand a
baton to each other: exactly one runs at any time, and every one calls `Execution.point(label)` before each
externally visible effect.  At a point the next step is decided by a *choice list*: the list is replayed, and past
its end choice 0 (= keep running the current thread if it is still enabled, else the lowest id) is taken.

Alternatives at a point, in canonical order:
   [current thread if enabled] + other enabled threads ascending + ['CRASH']
Cost (deviations): alternative 0 (keep running the current thread; at a hand-over the lowest enabled id) is free, every
other choice costs one deviation (pre-emption, out-of-order hand-over, CRASH).  A divergence while replaying a prefix (choice index out of
range) is a hard harness error.
"""
import threading


class Crash(BaseException):
    """Simulated kill of the whole process group: nothing after this point is executed, open buffers are lost."""


class HarnessBug(BaseException):
    """Replay divergence or scheduler invariant broken: never swallowed by the code under test."""


ReplayDivergence = HarnessBug


class Execution:
    MAIN = -1

    def __init__(self, choices=(), capacity=4, allow_crash=True):
        self.choices = list(choices)
        self.capacity = capacity
        self.allow_crash = allow_crash
        self.trace = []             # per point: dict(alts=[...], chosen=int, cost=int, label=str, tid=int)
        self.crashed = False
        self.crash_label = None
        self._lock = threading.Lock()
        self._sem = {self.MAIN: threading.Semaphore(0)}
        self._queue = []            # chunk ids not yet started (in order)
        self._active = []           # started, unfinished chunk ids
        self._threads = {}
        self._current = self.MAIN
        self._pool_running = False
        self._errors = {}
        self._tls = threading.local()

    # ------------------------------------------------------------------ identity
    def _tid(self):
        return getattr(self._tls, 'tid', self.MAIN)

    # ------------------------------------------------------------------ choice machinery
    def _enabled(self):
        room = self.capacity - len(self._active)
        return sorted(self._active + self._queue[:max(room, 0)])

    def _choose(self, label, cur_enabled):
        """Called by the thread holding the baton. Returns the id to run next or 'CRASH'."""
        cur = self._current
        if self._pool_running:
            en = self._enabled()
            alts = ([cur] if (cur_enabled and cur in en) else []) + [t for t in en if not (cur_enabled and t == cur)]
        else:
            alts = [self.MAIN]
        if self.allow_crash:
            alts = alts + ['CRASH']
        i = len(self.trace)
        if i < len(self.choices):
            c = self.choices[i]
            if not (0 <= c < len(alts)):
                raise ReplayDivergence(f'choice {c} out of range at point {i} ({label}); alternatives {alts}')
        else:
            c = 0
        chosen = alts[c]
        # deviation accounting: the canonical alternative (index 0: keep running the current thread, or the lowest enabled
        # id when the current one is finished) is free; every other choice -- a pre-emption, letting a higher chunk go
        # first at a hand-over, or a crash -- costs one deviation.
        cost = 0 if c == 0 else 1
        self.trace.append(dict(alts=[str(a) for a in alts], chosen=c, cost=cost, label=label, tid=cur,
                               costs=[0] + [1] * (len(alts) - 1)))
        return chosen

    def point(self, label):
        """Scheduling / crash point, called before an externally visible effect by the running thread."""
        if self.crashed:
            raise Crash(label)
        me = self._tid()
        if me != self._current:
            raise HarnessBug(f'thread {me} ran without the baton (current {self._current})')
        nxt = self._choose(label, cur_enabled=True)
        self._transfer(me, nxt, label)

    def _transfer(self, me, nxt, label):
        if nxt == 'CRASH':
            self._do_crash(label)
            raise Crash(label)
        if nxt == me:
            return
        self._start_or_wake(nxt)
        self._sem[me].acquire()
        if self.crashed:
            raise Crash(label)

    def _start_or_wake(self, tid):
        self._current = tid
        if tid in self._queue:
            self._queue.remove(tid)
            self._active.append(tid)
            self._threads[tid].start()
        else:
            self._sem[tid].release()

    def _do_crash(self, label):
        self.crashed = True
        self.crash_label = label
        for tid, s in self._sem.items():
            s.release()             # wake everybody; they raise Crash at their wait

    # ------------------------------------------------------------------ virtual pool
    def pool_map(self, func, cases, chunksize):
        """Semantics of multiprocessing.Pool.map(func, cases, chunksize): consecutive chunks, each processed in order
        by one worker; at most `capacity` chunks in progress; results in input order; first worker exception re-raised."""
        cases = list(cases)
        chunks = [cases[i:i + chunksize] for i in range(0, len(cases), chunksize)]
        results = [None] * len(chunks)

        def body(cid):
            self._tls.tid = cid
            try:
                out = []
                for c in chunks[cid]:
                    out.append(func(c))
                results[cid] = out
            except Crash:
                return
            except HarnessBug as e:
                self._errors['harness'] = e
                self._do_crash('harness-error')
                return
            except BaseException as e:       # noqa - re-raised in main like a real pool does
                self._errors[cid] = e
            # chunk finished: pick who runs next (free switch)
            if self.crashed:
                return
            self._active.remove(cid)
            try:
                if self._enabled():
                    nxt = self._choose(f'chunk{cid}:done', cur_enabled=False)
                    if nxt == 'CRASH':
                        self._do_crash(f'chunk{cid}:done')
                        return
                    self._start_or_wake(nxt)
                else:
                    self._pool_running = False
                    self._current = self.MAIN
                    self._sem[self.MAIN].release()
            except BaseException as e:       # harness error inside a worker thread: surface it in main
                self._errors['harness'] = e
                self._do_crash('harness-error')

        for cid in range(len(chunks)):
            self._sem[cid] = threading.Semaphore(0)
            self._threads[cid] = threading.Thread(target=body, args=(cid,), daemon=True)
        self._queue = list(range(len(chunks)))
        self._active = []
        if not chunks:
            return []
        self._pool_running = True
        nxt = self._choose('pool:start', cur_enabled=False)
        if nxt == 'CRASH':
            self._do_crash('pool:start')
            raise Crash('pool:start')
        self._start_or_wake(nxt)
        self._sem[self.MAIN].acquire()
        self.join()
        if 'harness' in self._errors:
            raise self._errors['harness']
        if self.crashed:
            raise Crash(self.crash_label)
        if self._errors:
            raise self._errors[min(k for k in self._errors if k != 'harness')]
        return [r for chunk in results for r in chunk]

    def join(self):
        for t in list(self._threads.values()):
            if t.is_alive():
                t.join(timeout=20)
                if t.is_alive():
                    raise RuntimeError('virtual worker thread did not terminate')
        self._threads = {}

    # ------------------------------------------------------------------ bookkeeping for the explorer
    def deviations(self):
        return sum(p['cost'] for p in self.trace)

    def taken(self):
        return [p['chosen'] for p in self.trace]


def dfs(run, check, bound, prefix=(), budget=None):
    """Deviation-bounded DFS.  run(choices) -> Execution (already finished);  check(execution) is called on every one.
    Explores every execution whose deviation count is <= bound and whose first len(prefix) choices equal prefix.
    Returns number of executions. `budget` (max executions) is a safety cap; hitting it is reported by returning -n."""
    count = 0
    stack = [list(prefix)]
    while stack:
        pre = stack.pop()
        x = run(pre)
        count += 1
        check(x, pre)
        if budget is not None and count >= budget:
            return -count
        taken = x.taken()
        dev = 0
        devs_before = []
        for p in x.trace:
            devs_before.append(dev)
            dev += p['cost']
        for i in range(len(x.trace) - 1, len(pre) - 1, -1):
            p = x.trace[i]
            for alt in range(1, len(p['alts'])):
                if devs_before[i] + p['costs'][alt] > bound:
                    continue
                stack.append(taken[:i] + [alt])
    return count
