"""C01 -- Love numbers of a homogeneous, effectively incompressible sphere returned by the layered radial solver equal
the Kelvin/Love closed form  k_l = 3/(2(l-1))/(1+m_l), h_l = (2l+1) k_l/3, l_l = k_l/l,
m_l = (2l^2+4l+3) mu/(l rho g R).

E1 lattice in the dimensionless groups  mu~ = |mu|/(rho g R)  and  w~2 = omega^2 R/g  (DESIGN C01):
  mu~ x loss tangent x l x integrator x start family/assumption x r0/R x (R, rho) x nondimensionalize x w~2.
Every case = two real solver runs (rtol, atol) and (rtol/100, atol/100): the convergence gate of the property
statement.  Oracle: the closed form (mc.rs.closed_form_love, plain complex arithmetic), error measured on the O(1)
scale of each of k, h, l.
"""
import math
import time

LEVEL = 'exploration'
ASSUMPTIONS = [
    'continuous parameters (mu~, loss tangent, w~2, r0/R, R, rho) are decided on the stated grid only',
    '"effectively incompressible" = K set per case to 1e7*max(|mu|, rho g R, (rho g R)^2/|mu|); compressible families are '
    'inadmissible by conditioning when that exceeds 1e9*|mu| (mu~ < 0.1); such bodies are covered by the incompressible Kamata family',
    'Takeuchi starts with (r0/R)^l < 1e-15 (below the absolute tolerance) are inadmissible by conditioning',
    'asserted only for cases that pass the convergence gate (success at (rtol,atol) and (rtol/100,atol/100), the two agree)',
    'uniform sphere sampled on a 60-slice linspace grid from r0 to R (uniform bodies are grid independent to 1e-15, DESIGN C03)',
]

G = 6.67430e-11

# ---- lattice -------------------------------------------------------------------------------------------------
FAMILIES = {  # name: (use_kamata, is_static, is_incompressible)
    'takeuchi-static': (False, True, False),
    'takeuchi-dynamic': (False, False, False),
    'kamata-static': (True, True, False),
    'kamata-dynamic-compressible': (True, False, False),
    'kamata-dynamic-incompressible': (True, False, True),
}
FAMILY_ORDER = ['kamata-static', 'kamata-dynamic-compressible', 'kamata-dynamic-incompressible', 'takeuchi-static',
                'takeuchi-dynamic']
METHODS = ['DOP853', 'RK45', 'RK23']
MU_T = [0.05, 0.3, 3.0, 30.0, 1e3, 1e5]
TAND = [0.0, 0.02, 0.5]
LS = [2, 3, 4, 5, 7, 10]
R0F = [5e-2, 1e-2, 1e-3]
BODIES = [(6e6, 5500.0), (1e5, 3500.0), (1e6, 1000.0), (1e8, 8000.0)]
W2_DYN = [1e-7, 1e-6]
W2_STAT = [1e-7, 1e-10]      # static families ignore omega; the second value checks exactly that

# quick tier: 3 mu~ x 2 tan d x l in {2,3,5} x 3 integrators x 5 families x 1 r0 (0.05: the largest, where a defective
# starting vector is visible) x 1 body = 270 cases
Q_MU_T = [0.3, 3.0, 1e3]      # (0.05 is conditioning-inadmissible for the four compressible families)
Q_TAND = [0.0, 0.5]
Q_LS = [2, 3, 5]

RTOL, ATOL = 1e-8, 1e-12      # base integration tolerances; the gate re-runs with both divided by 100
GATE = 1e-6                   # the two runs must agree to this (absolute, O(1) scale) for a case to be admitted
MAX_STEPS = 200000            # deterministic work cap per integration; exhaustion = solver failure = inadmissible
WALL_BUDGET_S = 30.0          # per solve; overrun = inadmissible:timeout (never a violation)
N_SLICES = 60
START_UNDERFLOW = 1e-15       # = ATOL/1000

# ---- tolerance budget (calibrated on the pristine tree, thorough lattice; see the builder report) -----------------
#   tol = GATE_FACTOR*gate + C_DYN*w~2 [dynamic] + C_K*(rho g R)^2/(|mu| K) [compressible] + floor
#   measured (seed 0, 77760 cases): genuine inertial correction (err - 10 gate)/w~2 <= 0.24 (compressible Kamata, mu~=0.3, l=2),
#   <= 1.6 (incompressible Kamata, mu~=0.05); static Kamata err <= 9.4e-9 (DOP853), 6.3e-10 (RK45).
C_DYN = 5.0
C_K = 1.0
TOL_FLOOR = 1e-7
GATE_FACTOR = 20.0            # the finer RK23 run is off by up to 2.1x the gate difference (pristine) -> 20 keeps a 10x margin
# Kamata dynamic-incompressible is ill-conditioned in the quasi-static regime (DESIGN C01 "Gate"): runs that agree with
# their rtol/100 twin to 1e-10..4e-7 are still off by up to 8e-7 (DOP853) / 4.3e-5 (RK45) through amplified rounding / atol
# interplay that no two-level gate can see.  Its floor is therefore per integrator (>= 10x the pristine worst).
KDI_FLOOR = {'DOP853': 2e-5, 'RK45': 5e-4, 'RK23': 5e-4}
# known-finding laws (root cause: y6 slot swap in starting/takeuchi.pyx, see C04): the defective Takeuchi starting vectors
# excite the irregular solutions, which decay like (r0/R)^(2l+1):
#   static part  err <= A_S * (r0/R)^(2l+1)                          (measured 0.9..1.3 at l=2, r0/R=0.05)
#   dynamic part err <= A_D * w~2 * (1 + 1/mu~) * (r0/R)^(2l+1)      (measured 1.6e6 and 1.3e7 at l=2; 2.6e7 at l=3)
# and, as in DESIGN, never more than Y6_LAW * w~2/mu~ (+ static part).
A_S = 15.0
A_D = 4.0e8
Y6_LAW = 1e4

SEED_FACTORS = [1.0, 1.07, 0.93, 1.31, 0.77, 1.19]


def cases(tier, seed):
    f = SEED_FACTORS[seed % len(SEED_FACTORS)]
    out = []
    if tier == 'thorough':
        mus, tds, ls, r0s, bodies, nds = MU_T, TAND, LS, R0F, BODIES, [True, False]
        w_dyn, w_stat = W2_DYN, W2_STAT
    else:
        mus, tds, ls, r0s, nds = Q_MU_T, Q_TAND, Q_LS, R0F[:1], [True]
        bodies = [BODIES[seed % len(BODIES)]]
        w_dyn, w_stat = W2_DYN[1:], W2_STAT[:1]
    # simplest first: family / integrator outermost so that the first counterexample is the smallest
    for fam in FAMILY_ORDER:
        dyn = not FAMILIES[fam][1]
        for meth in METHODS:
            for l in ls:
                for mt in mus:
                    for td in tds:
                        for r0f in r0s:
                            for (R, rho) in bodies:
                                for nd in nds:
                                    for w2 in (w_dyn if dyn else w_stat):
                                        out.append(dict(fam=fam, meth=meth, l=l, mt=mt * f, td=td, r0f=r0f, R=R,
                                                        rho=rho, nd=nd, w2=w2 * f))
    return out


def physical(c):
    """Case -> physical inputs (all derived from the dimensionless groups)."""
    R, rho = float(c['R']), float(c['rho'])
    g = 4.0 / 3.0 * math.pi * G * rho * R
    pgr = rho * g * R
    amu = c['mt'] * pgr
    td = c['td']
    mu = amu * complex(1.0, td) / math.hypot(1.0, td)
    K = 1e7 * max(amu, pgr, pgr * pgr / amu)
    omega = math.sqrt(c['w2'] * g / R)
    return dict(R=R, rho=rho, g=g, pgr=pgr, amu=amu, mu=mu, K=K, omega=omega)


def budget(c, p, gate_diff):
    kam, st, inc = FAMILIES[c['fam']]
    t = GATE_FACTOR * gate_diff + TOL_FLOOR
    if not st:
        t += C_DYN * c['w2']
    if not inc:
        t += C_K * p['pgr'] ** 2 / (p['amu'] * p['K'])
    else:
        t += KDI_FLOOR[c['meth']]
    return t


def classify(c, err):
    """Site of a closed-form violation of size `err` (the narrow signatures of the known Takeuchi finding, else fresh)."""
    fam = c['fam']
    decay = c['r0f'] ** (2 * c['l'] + 1)
    if fam == 'takeuchi-static' and err <= A_S * decay:
        return 'C01/takeuchi-static/y6-slot-r0-law'
    if fam == 'takeuchi-dynamic':
        wm = c['w2'] / c['mt']
        if err <= decay * (A_S + A_D * c['w2'] * (1.0 + 1.0 / c['mt'])) and err <= Y6_LAW * wm + A_S * decay:
            return 'C01/takeuchi-dynamic/y6-slot-law'
    return f'C01/{fam}/closed-form'


def solve_pair(c, p, rtol=RTOL, atol=ATOL, n=N_SLICES):
    """The two gate runs. Returns (status, love_a, love_b, info)."""
    import numpy as np
    from mc import rs
    kam, st, inc = FAMILIES[c['fam']]
    res = []
    for div in (1.0, 100.0):
        arrs, bulk, tops = rs.uniform_planet(p['R'], p['rho'], p['mu'], p['K'], N=n, r0_frac=c['r0f'])
        t0 = time.time()
        s = rs.solve(arrs, p['omega'], bulk, ('solid',), (st,), (inc,), tops, degree_l=c['l'], solve_for=('tidal',),
                     use_kamata=kam, integration_method=c['meth'], integration_rtol=rtol / div,
                     integration_atol=atol / div, nondimensionalize=bool(c['nd']), max_num_steps=MAX_STEPS,
                     warnings=False)
        dt = time.time() - t0
        if dt > WALL_BUDGET_S:
            return 'inadmissible:timeout', None, None, dict(wall=dt)
        if s['status'] == 'exc':
            return 'exc', None, None, s
        if s['status'] != 'ok':
            return 'inadmissible:solver-fail', None, None, s
        lv = np.array(s['love'][0], dtype=np.complex128)
        if not np.all(np.isfinite(lv.view(np.float64))):
            return 'nonfinite', lv, None, s
        res.append(lv)
    return 'ok', res[0], res[1], {}


def run_case(c):
    from mc import env
    env.tidalpy()
    import numpy as np
    from mc import rs
    fam = c['fam']
    kam, st, inc = FAMILIES[fam]
    p = physical(c)
    if (not inc) and p['K'] > 1e9 * p['amu']:
        return dict(status='inadmissible:conditioning', viol=[], obs=None)
    if (not kam) and c['r0f'] ** c['l'] < START_UNDERFLOW:
        # Takeuchi's vectors scale like (r0/R)^l (Kamata's are normalised): below the absolute tolerance the first steps are
        # uncontrolled and the two gate runs agree on a wrong value (pristine: l=10, r0/R=1e-3: 1.6e-6)
        return dict(status='inadmissible:start-underflow', viol=[], obs=None)
    status, a, b, info = solve_pair(c, p, rtol=c.get('rtol', RTOL), atol=c.get('atol', ATOL))
    if status == 'exc':
        return dict(status='pass', viol=[(f'C01/{fam}/exception/{info["exc"]}', dict(msg=info.get('message')))], obs=None)
    if status == 'nonfinite':
        return dict(status='pass', viol=[(f'C01/{fam}/nonfinite-love-with-success', dict(love=a))], obs=None)
    if status != 'ok':
        return dict(status=status, viol=[], obs=None, info=str(info.get('message', ''))[:80])
    gate = float(np.max(np.abs(a - b)))
    if not (gate <= GATE):
        return dict(status='inadmissible:gate', viol=[], obs=None, gate=gate)
    ref = rs.closed_form_love(c['l'], p['mu'], p['rho'], p['R'], p['g'])
    errs = np.abs(b - ref)       # the tighter of the two runs is judged
    err = float(np.max(errs))
    tol = budget(c, p, gate)
    viol = []
    if not (err <= tol):
        which = 'khl'[int(np.argmax(errs))]
        detail = dict(err=err, tol=tol, gate=gate, worst=which, got=b, want=ref, w2=c['w2'], mt=c['mt'],
                      err_over_r0_decay=err / c['r0f'] ** (2 * c['l'] + 1))
        viol.append((classify(c, err), detail))
    obs = tuple(round(float(x), 9) for x in (b[0].real, b[0].imag, b[1].real, b[2].real))
    return dict(status='pass', viol=viol, obs=obs, err=err, tol=tol, gate=gate)


def replay(case):
    return run_case(case)['viol']


# vacuity guards per (family, integrator) block: fraction of the non-conditioning-excluded cases that pass the gate
# (pristine admission, thorough seed 0: Kamata-static/-dynamic-compressible 78/96/92 % for DOP853/RK45/RK23, Takeuchi
#  67/75/66 %, Kamata-dynamic-incompressible 50 % / 7 % / 0.1 % -- the last two blocks are (nearly) vacuous and say so)
MIN_ADMIT_DEFAULT = 0.40
MIN_ADMIT = {('kamata-dynamic-incompressible', 'DOP853'): 0.25, ('kamata-dynamic-incompressible', 'RK45'): 0.0,
             ('kamata-dynamic-incompressible', 'RK23'): 0.0}


def run(ctx):
    from mc.core import run_lattice
    cs = cases(ctx.tier, ctx.seed)
    res = run_lattice(
        ctx, 'mc.props.C01:run_case', cs,
        rule='full product mu~ x loss tangent x l x integrator{DOP853,RK45,RK23} x family{Takeuchi-static, Takeuchi-dynamic, '
             'Kamata-static, Kamata-dynamic-compressible, Kamata-dynamic-incompressible} x r0/R x (R,rho) x nondimensionalize x w~2 '
             '(groups mu~=|mu|/(rho g R), w~2=omega^2 R/g); every case = 2 solver runs (gate); '
             'distinct = distinct returned (Re k, Im k, Re h, Re l) rounded to 1e-9 among admitted cases',
        exhaustive=False)
    blocks = {}
    for c, r in zip(cs, res):
        st = r.get('status', 'pass')
        if st in ('inadmissible:conditioning', 'inadmissible:start-underflow'):
            continue
        b = blocks.setdefault((c['fam'], c['meth']), [0, 0])
        b[1] += 1
        if not st.startswith('inadmissible'):
            b[0] += 1
    worst, worst_pass = {}, {}
    for c, r in zip(cs, res):
        if 'err' in r:
            k = c['fam']
            worst[k] = max(worst.get(k, 0.0), r['err'] / r['tol'])
            if not r.get('viol') and r['err'] / r['tol'] > worst_pass.get(k, (0.0,))[0]:
                worst_pass[k] = (r['err'] / r['tol'], dict(case=c, err=r['err'], tol=r['tol'], gate=r['gate']))
    ctx.coverage['worst_passing_case_by_family'] = {k: dict(v[1], err_over_tol=float('%.3g' % v[0])) for k, v in sorted(worst_pass.items())}
    ctx.coverage['admitted_by_block'] = {f'{k[0]}/{k[1]}': f'{v[0]}/{v[1]}' for k, v in sorted(blocks.items())}
    ctx.coverage['worst_err_over_tol_by_family'] = {k: float('%.3g' % v) for k, v in sorted(worst.items())}
    ctx.coverage['tolerance'] = dict(rtol=RTOL, atol=ATOL, gate=GATE, c_dyn=C_DYN, c_K=C_K, floor=TOL_FLOOR,
                                     gate_factor=GATE_FACTOR, kdi_floor=KDI_FLOOR, a_s=A_S, a_d=A_D, y6_law=Y6_LAW)
    short = []
    for (fam, meth), (adm, tot) in sorted(blocks.items()):
        need = MIN_ADMIT.get((fam, meth), MIN_ADMIT_DEFAULT)
        if tot and adm < need * tot:
            short.append(f'({fam}, {meth}) admits only {adm}/{tot} (< {need:.0%})')
    vacuity_guard(ctx, short)


def vacuity_guard(ctx, short):
    """A block that admits too few cases turns a *silent* run into 'no verdict' (exit 2). When fresh violations were
    found the run is reported as such (exit 1) and the thin blocks are only noted -- a defect that also makes the
    integration harder must not be hidden behind the guard."""
    from mc.core import Findings, HarnessError
    if not short:
        return
    f = Findings()
    fresh = [v for v in ctx.violations if f.match(ctx.prop, v['site']) is None]
    if fresh:
        ctx.note('vacuity guard tripped but fresh violations exist, reporting them: ' + '; '.join(short)[:400])
        return
    raise HarnessError('vacuity guard: ' + '; '.join(short)[:600] + '; no verdict')
