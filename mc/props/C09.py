"""C09 -- inclination functions and universal coefficients equal Kaula's definitions.

E4 exact executor on trigonometric polynomials, complete enumeration (exhaustive: true):

* l = 2..7, every (m, p) in 0..l x 0..l (199 entries), the on-tables `calc_inclin_l{l}` reached through every route the
  package offers (package attribute, `orderl{l}.calc_inclination`, `inclination_functions_on[l]`,
  `inclination_functions[True][l]`, `get_inclination_func(l, True)`), executed through `.py_func` *and* through the
  compiled dispatcher on M = 1024 equispaced nodes of I/2 over a full period (I_j = 4 pi (j + d/8)/M; the seed rotates the
  offset d), and compared with Kaula's F_lmp(I)^2 (mc.refmodels.kaula: summation formula in exact rationals -> exact
  cosine coefficients -> 40-digit evaluation on the same nodes).  The table expressions are polynomials in
  sin/cos of I/2, I, 2I, 3I (this is verified on the source AST, which also yields a degree bound < M/2), F^2 has degree
  <= 4l in I/2, so agreement on the nodes is agreement for every I.  The DFT of the table values must vanish above 4l.
* off-tables `calc_inclin_l{l}_off`: every entry present equals F_lmp(0)^2 (exact rational) and the on-table at I = 0,
  for any argument; every omitted (m, p) has F_lmp(0) = 0 exactly and the on-table vanishes there.
* `inclination_functions_lookup[on/off][max_l]` (compiled) returns exactly {l: per-l table} for l = 2..max_l.
* `get_universal_coeffs(l)`: keys 0..l, values (2 - delta_0m)(l-m)!/(l+m)! (Fractions).
"""
import math

LEVEL = 'exploration'
ASSUMPTIONS = [
    'table values are float64 evaluations; an entry is accepted when it is within 2e-11 x (sum of |cosine coefficients| of '
    'F_lmp^2) of the exact value on every node (worst pristine deviation over all node offsets: 1.4e-12 of that scale, '
    'l=7 (3,4), from cancellation inside the shipped bracketed expressions; compiled vs interpreted: 1.7e-12)',
    'equality for all I follows from equality on 1024 equispaced nodes of I/2 because each table expression is a '
    'trigonometric polynomial in I/2 of degree < 512; this is established per run from the source AST of the table '
    'function (sin/cos of i/2, i, 2i, 3i combined with + - * and non-negative integer powers); if the AST cannot be '
    'analysed the run reports exhaustive=false',
    'the compiled (numba) path is exercised on the same node array and must agree with the Python source lines',
]

M_NODES = 1024
TOL = 2e-11               # relative to sum |a_k| of the exact cosine series of F^2
TOL_PYVSJIT = 2e-11       # compiled vs interpreted evaluation of the same expression (same scale)
SHIFTS = [0, 1, 3, 5, 7]  # node offset d/8, rotated by the seed
OBLIQ_MENU = [(0.0, 0.409, 1.7, 3.0), (0.0, 0.2, 1.1, 2.6), (0.0, 0.7, 1.5707963267948966, 2.2), (0.0, 0.05, 0.9, 3.141592653589793),
              (0.0, 0.3, 1.3, 2.9)]
L_RANGE = range(2, 8)


# ------------------------------------------------------------------------------------------------
# source-level degree analysis (validates the "trigonometric polynomial of degree < M/2" premise)
# ------------------------------------------------------------------------------------------------
def ast_degree_bounds(pyfunc):
    """{(m, p): degree bound in I/2} for a calc_inclination function, or raise ValueError when the source does not have
    the analysable form.  Angles are tracked as multiples of I/2."""
    import ast
    import inspect
    import textwrap
    src = textwrap.dedent(inspect.getsource(pyfunc))
    fn = ast.parse(src).body[0]
    arg = fn.args.args[0].arg
    env = {arg: ('angle', 2)}            # the argument is I = 2 * (I/2)

    def num(node):
        if isinstance(node, ast.Constant) and isinstance(node.value, (int, float)):
            return float(node.value)
        if isinstance(node, ast.UnaryOp) and isinstance(node.op, ast.USub):
            v = num(node.operand)
            return None if v is None else -v
        return None

    def ev(node):
        """('angle', k) | ('poly', degree)"""
        if num(node) is not None:
            return ('poly', 0)
        if isinstance(node, ast.Name):
            if node.id in env:
                return env[node.id]
            raise ValueError(f'unknown name {node.id}')
        if isinstance(node, ast.UnaryOp) and isinstance(node.op, (ast.USub, ast.UAdd)):
            return ev(node.operand)
        if isinstance(node, ast.Call):
            f = node.func
            name = f.attr if isinstance(f, ast.Attribute) else getattr(f, 'id', None)
            if name in ('sin', 'cos') and len(node.args) == 1:
                a = ev(node.args[0])
                if a[0] != 'angle':
                    raise ValueError('sin/cos of a non-angle')
                return ('poly', a[1])
            if name == 'ones_like':
                return ('poly', 0)
            raise ValueError(f'call to {name}')
        if isinstance(node, ast.BinOp):
            if isinstance(node.op, ast.Pow):
                n = num(node.right)
                b = ev(node.left)
                if n is None or n < 0 or n != int(n) or b[0] != 'poly':
                    raise ValueError('power that is not poly ** non-negative integer')
                return ('poly', b[1] * int(n))
            ln, rn = num(node.left), num(node.right)
            if isinstance(node.op, ast.Div):
                if rn is None or rn == 0:
                    raise ValueError('division by a non-constant')
                a = ev(node.left)
                if a[0] == 'angle':
                    k = a[1] / rn
                    if k != int(k):
                        raise ValueError('angle is not a multiple of I/2')
                    return ('angle', int(k))
                return a
            if isinstance(node.op, ast.Mult):
                if ln is not None or rn is not None:
                    c, other = (ln, node.right) if ln is not None else (rn, node.left)
                    a = ev(other)
                    if a[0] == 'angle':
                        k = a[1] * c
                        if k != int(k):
                            raise ValueError('angle is not a multiple of I/2')
                        return ('angle', int(k))
                    return a
                a, b = ev(node.left), ev(node.right)
                if a[0] != 'poly' or b[0] != 'poly':
                    raise ValueError('product involving a bare angle')
                return ('poly', a[1] + b[1])
            if isinstance(node.op, (ast.Add, ast.Sub)):
                a, b = ev(node.left), ev(node.right)
                if a[0] != 'poly' or b[0] != 'poly':
                    raise ValueError('sum involving a bare angle')
                return ('poly', max(a[1], b[1]))
        raise ValueError(f'unsupported syntax {type(node).__name__}')

    out = None
    for st in fn.body:
        if isinstance(st, ast.Expr) and isinstance(st.value, ast.Constant):
            continue                                        # docstring
        if isinstance(st, ast.Assign) and len(st.targets) == 1 and isinstance(st.targets[0], ast.Name):
            tgt = st.targets[0].id
            if isinstance(st.value, ast.Dict):
                out = {}
                for k, v in zip(st.value.keys, st.value.values):
                    key = tuple(int(num(x)) for x in k.elts)
                    d = ev(v)
                    if d[0] != 'poly':
                        raise ValueError('entry is a bare angle')
                    out[key] = d[1]
                env[tgt] = ('dict', 0)
            else:
                env[tgt] = ev(st.value)
            continue
        if isinstance(st, ast.Return):
            continue
        raise ValueError(f'unsupported statement {type(st).__name__}')
    if out is None:
        raise ValueError('no result dict literal found')
    return out


# ------------------------------------------------------------------------------------------------
def _routes(l, on):
    import importlib
    from TidalPy.tides import inclination_funcs as inf
    out = []
    name = f'calc_inclin_l{l}' + ('' if on else '_off')
    f = getattr(inf, name, None)
    if f is not None:
        out.append((f'inclination_funcs.{name}', f))
    try:
        mod = importlib.import_module(f'TidalPy.tides.inclination_funcs.orderl{l}')
        f = getattr(mod, 'calc_inclination' if on else 'calc_inclination_off', None)
        if f is not None:
            out.append((f'orderl{l}.' + ('calc_inclination' if on else 'calc_inclination_off'), f))
    except ImportError:
        pass
    d = inf.inclination_functions_on if on else inf.inclination_functions_off
    if l in d:
        out.append((f"inclination_functions_{'on' if on else 'off'}[{l}]", d[l]))
    if l in inf.inclination_functions.get(on, {}):
        out.append((f'inclination_functions[{on}][{l}]', inf.inclination_functions[on][l]))
    try:
        out.append((f'get_inclination_func({l}, {on})', inf.get_inclination_func(l, on)))
    except Exception:
        pass
    return out


def _keys(tab):
    return {(int(k[0]), int(k[1])) for k in tab}


def _case_on(case):
    import numpy as np
    from mc.exact import harmonic_amplitudes
    from mc.refmodels import kaula
    l, shift = case['l'], case['shift']
    viol = []
    stats = dict(entries=0, node_values=0, worst=0.0, worst_jit=0.0, worst_dft=0.0, max_degree_bound=0, form_ok=True)
    routes = _routes(l, True)
    if not any(r[0].startswith('inclination_funcs.calc_inclin') for r in routes):
        viol.append(('C09/registry/missing-function', dict(l=l, which='on')))
    I = np.array(kaula.node_angles(M_NODES, shift), dtype=np.float64)
    I0 = np.zeros(1, dtype=np.float64)
    want_keys = {(m, p) for m in range(l + 1) for p in range(l + 1)}
    ref = {k: np.array(kaula.F2_on_nodes(l, k[0], k[1], M_NODES, shift)) for k in sorted(want_keys)}
    scale = {k: kaula.F2_scale(l, *k) for k in want_keys}
    seen = {}
    obs = []
    for route, f in routes:
        if id(f) in seen:
            continue
        seen[id(f)] = route
        pyf = getattr(f, 'py_func', f)
        # premise: trig polynomial of degree < M/2, from the source
        try:
            bounds = ast_degree_bounds(pyf)
            stats['max_degree_bound'] = max([stats['max_degree_bound']] + list(bounds.values()))
            if max(bounds.values()) >= M_NODES // 2:
                stats['form_ok'] = False
        except (ValueError, OSError, TypeError, IndexError) as e:
            stats['form_ok'] = False
            stats['form_error'] = f'{route}: {e}'
        try:
            tab = pyf(I)
            tab0 = pyf(I0)
        except Exception as e:
            viol.append((f'C09/on-table/exception/{type(e).__name__}', dict(l=l, route=route, msg=str(e)[:300])))
            continue
        keys = _keys(tab)
        for k in sorted(want_keys - keys):
            viol.append(('C09/on-table/missing-entry', dict(l=l, m=k[0], p=k[1], route=route)))
        for k in sorted(keys - want_keys):
            viol.append(('C09/on-table/spurious-entry', dict(l=l, m=k[0], p=k[1], route=route)))
        for k in sorted(keys & want_keys):
            v = np.asarray(tab[k], dtype=np.float64)
            stats['entries'] += 1
            stats['node_values'] += v.size
            if v.shape != I.shape or not np.all(np.isfinite(v)):
                viol.append(('C09/on-table/shape-or-nonfinite', dict(l=l, m=k[0], p=k[1], route=route, shape=list(v.shape))))
                continue
            err = float(np.max(np.abs(v - ref[k]))) / scale[k]
            stats['worst'] = max(stats['worst'], err)
            if err > TOL:
                j = int(np.argmax(np.abs(v - ref[k])))
                detail = dict(l=l, m=k[0], p=k[1], route=route, max_err_over_scale=err, scale=scale[k], at_I=float(I[j]),
                              got=float(v[j]), want=float(ref[k][j]))
                site = 'C09/on-table/value'
                if (l, k) == (6, (3, 3)):
                    # signature of the shipped slip: cos(I/2) where cos(I/2)**4 belongs
                    c3 = np.cos(I / 2.0) ** 3
                    if float(np.max(np.abs(v * c3 - ref[k]))) / scale[k] <= TOL:
                        site = 'C09/on-table/l6-m3-p3/cos_i_half-exponent-1-instead-of-4'
                viol.append((site, detail))
            # degree bound: no harmonic of I/2 above 4l
            amp = harmonic_amplitudes(v.tolist())
            hi = max(amp[4 * l + 1:]) / scale[k]
            stats['worst_dft'] = max(stats['worst_dft'], hi)
            if hi > TOL and err <= TOL:
                viol.append(('C09/on-table/degree-above-4l', dict(l=l, m=k[0], p=k[1], route=route, amplitude_over_scale=hi)))
        obs.append([round(float(np.sum(np.asarray(tab[k]))) / scale[k], 6) for k in sorted(keys & want_keys)])
        # compiled dispatcher on the same nodes
        if hasattr(f, 'py_func'):
            try:
                jt = f(I)
                jkeys = _keys(jt)
                if jkeys != keys:
                    viol.append(('C09/compiled/keys-differ-from-python', dict(l=l, route=route,
                                 only_compiled=sorted(jkeys - keys)[:5], only_python=sorted(keys - jkeys)[:5])))
                for k in sorted(jkeys & keys & want_keys):
                    a, b = np.asarray(jt[k]), np.asarray(tab[k])
                    e = float(np.max(np.abs(a - b))) / scale[k] if a.shape == b.shape else float('inf')
                    stats['worst_jit'] = max(stats['worst_jit'], e)
                    if not e <= TOL_PYVSJIT:
                        viol.append(('C09/compiled/disagrees-with-python', dict(l=l, m=k[0], p=k[1], route=route, err=e)))
                if case.get('scalar'):
                    for ob in case['obliquities']:
                        js = f(float(ob))
                        for k in sorted(_keys(js) & want_keys):
                            w = kaula.F2_at(l, k[0], k[1], float(ob))
                            if not abs(float(js[k]) - w) <= TOL * scale[k]:
                                site = 'C09/compiled/scalar-value'
                                if (l, k) == (6, (3, 3)) and \
                                        abs(float(js[k]) * math.cos(float(ob) / 2.0) ** 3 - w) <= TOL * scale[k]:
                                    site = 'C09/on-table/l6-m3-p3/cos_i_half-exponent-1-instead-of-4'   # same slip, scalar path
                                viol.append((site, dict(l=l, m=k[0], p=k[1], I=ob, got=float(js[k]), want=w, route=route,
                                                        how='compiled, scalar argument')))
                        if _keys(js) != keys:
                            viol.append(('C09/compiled/keys-differ-from-python', dict(l=l, route=route, how='scalar')))
            except Exception as e:
                viol.append((f'C09/compiled/exception/{type(e).__name__}', dict(l=l, route=route, msg=str(e)[:300])))
    return dict(status='pass', viol=viol, obs=('on', l, obs), stats=stats, distinct_functions=len(seen))


def _case_off(case):
    import numpy as np
    from mc.refmodels import kaula
    l = case['l']
    viol = []
    stats = dict(off_entries=0, off_omitted=0)
    want_keys = {(m, p) for m in range(l + 1) for p in range(l + 1)}
    exact0 = {k: kaula.F2_at_zero(l, *k) for k in want_keys}
    routes = _routes(l, False)
    if not any(r[0].startswith('inclination_funcs.calc_inclin') for r in routes):
        viol.append(('C09/registry/missing-function', dict(l=l, which='off')))
    on = None
    for route, f in _routes(l, True)[:1]:
        try:
            on = {(int(k[0]), int(k[1])): float(np.asarray(v)[0])
                  for k, v in getattr(f, 'py_func', f)(np.zeros(1)).items()}
        except Exception:
            on = None                       # reported by the 'on' case
    args = np.array(case['obliquities'], dtype=np.float64)     # the off-table must not depend on its argument
    seen = {}
    obs = []
    for route, f in routes:
        if id(f) in seen:
            continue
        seen[id(f)] = route
        for how, call in (('python', getattr(f, 'py_func', f)), ('compiled', f)):
            if how == 'compiled' and not hasattr(f, 'py_func'):
                continue
            try:
                tab = call(args)
            except Exception as e:
                viol.append((f'C09/off-table/exception/{type(e).__name__}', dict(l=l, route=route, how=how, msg=str(e)[:300])))
                continue
            keys = _keys(tab)
            for k in sorted(keys - want_keys):
                viol.append(('C09/off-table/spurious-entry', dict(l=l, m=k[0], p=k[1], route=route, how=how)))
            for k in sorted(want_keys):
                w = exact0[k]
                sc = kaula.F2_scale(l, *k)
                if k in keys:
                    v = np.asarray(tab[k], dtype=np.float64)
                    stats['off_entries'] += (how == 'python')
                    if v.shape != args.shape or not np.all(np.abs(v - float(w)) <= 1e-14 * max(float(w), 1e-300)):
                        viol.append(('C09/off-table/value', dict(l=l, m=k[0], p=k[1], route=route, how=how, got=v.tolist()[:4],
                                                                 want=float(w))))
                    if on is not None and k in on and not abs(on[k] - float(np.ravel(v)[0])) <= TOL * sc:
                        viol.append(('C09/off-table/differs-from-on-table-at-zero', dict(l=l, m=k[0], p=k[1], route=route,
                                     on_at_zero=on[k], off=float(np.ravel(v)[0]))))
                else:
                    stats['off_omitted'] += (how == 'python')
                    if w != 0:
                        viol.append(('C09/off-table/missing-entry', dict(l=l, m=k[0], p=k[1], route=route, how=how,
                                                                         F2_at_zero=float(w))))
                    if on is not None and k in on and not abs(on[k]) <= TOL * sc:
                        viol.append(('C09/off-table/omitted-entry-nonzero-in-on-table', dict(l=l, m=k[0], p=k[1],
                                     route=route, on_at_zero=on[k])))
            if how == 'python':
                obs.append(sorted((k, float(np.ravel(np.asarray(tab[k]))[0])) for k in keys))
    return dict(status='pass', viol=viol, obs=('off', l, obs), stats=stats, distinct_functions=len(seen))


def _case_lookup(case):
    import numpy as np
    from mc.refmodels import kaula
    from TidalPy.tides import inclination_funcs as inf
    from TidalPy.tides.modes import mode_calc_helper as mh
    on, L = case['on'], case['max_l']
    viol = []
    nval = 0
    obs = []
    d = mh.inclination_functions_lookup.get(on, {})
    if L not in d:
        return dict(status='pass', viol=[('C09/lookup/missing-function', dict(on=on, max_l=L))], obs=None)
    I = np.array(list(case['obliquities']) + kaula.node_angles(M_NODES, case['shift'])[1:32], dtype=np.float64)
    try:
        res = d[L](I)
        keys = sorted(int(k) for k in res)
        if keys != list(range(2, L + 1)):
            viol.append(('C09/lookup/degree-keys', dict(on=on, max_l=L, keys=keys)))
        for l in keys:
            if l not in L_RANGE:
                continue
            fl = getattr(inf, f'calc_inclin_l{l}' + ('' if on else '_off'))
            # quick: the per-l table evaluated from its Python source lines (no second compilation on the critical
            # path; compiled == source is established by the 'on'/'off' cases); thorough: also the compiled per-l
            # dispatcher, which must be reproduced bit for bit
            pers = [('python', getattr(fl, 'py_func', fl)(I), TOL_PYVSJIT)]
            if case.get('exact') and hasattr(fl, 'py_func'):
                pers.append(('compiled', fl(I), 0.0))
            chk = 0.0
            for how, per, tol in pers:
                ka, kb = _keys(res[l]), _keys(per)
                if ka != kb:
                    viol.append(('C09/lookup/entry-keys', dict(on=on, max_l=L, l=l, vs=how, only_lookup=sorted(ka - kb)[:5],
                                                               only_table=sorted(kb - ka)[:5])))
                    continue
                for k in sorted(ka):
                    a, b = np.asarray(res[l][k], dtype=np.float64), np.asarray(per[k], dtype=np.float64)
                    nval += a.size
                    if how == 'python':
                        chk += float(np.sum(a))
                    sc = kaula.F2_scale(l, *k) if (0 <= k[0] <= l and 0 <= k[1] <= l) else 1.0
                    if a.shape != b.shape or not np.all(np.abs(a - b) <= tol * sc):
                        viol.append(('C09/lookup/value', dict(on=on, max_l=L, l=l, m=k[0], p=k[1], vs=how,
                                     max_diff=float(np.max(np.abs(a - b))) if a.shape == b.shape else None)))
                        break
            obs.append((l, round(chk, 6)))
    except Exception as e:
        viol.append((f'C09/lookup/exception/{type(e).__name__}', dict(on=on, max_l=L, msg=str(e)[:300])))
    return dict(status='pass', viol=viol, obs=('lookup', on, L, obs), stats=dict(lookup_values=nval))


def _case_universal(case):
    from mc.refmodels import kaula
    from TidalPy.tides.universal_coeffs import get_universal_coeffs
    viol = []
    obs = []
    n = 0
    for l in L_RANGE:
        for how, call in (('python', getattr(get_universal_coeffs, 'py_func', get_universal_coeffs)),
                          ('compiled', get_universal_coeffs)):
            try:
                tab = call(l)
            except Exception as e:
                viol.append((f'C09/universal-coeffs/exception/{type(e).__name__}', dict(l=l, how=how, msg=str(e)[:300])))
                continue
            keys = sorted(int(k) for k in tab)
            if keys != list(range(l + 1)):
                viol.append(('C09/universal-coeffs/keys', dict(l=l, how=how, keys=keys)))
            for m in keys:
                if m > l:
                    continue
                want = float(kaula.universal_coeff(l, m))
                got = float(tab[m])
                n += 1
                if not abs(got - want) <= 1e-15 * want:
                    viol.append(('C09/universal-coeffs/value', dict(l=l, m=m, how=how, got=got, want=want)))
                if how == 'python':
                    obs.append(got)
    return dict(status='pass', viol=viol, obs=('universal', obs), stats=dict(universal_values=n))


def run_case(case):
    import os
    import time
    t0 = time.time()
    from mc import env
    env.tidalpy()
    from mc.refmodels.poolwatch import numba_ready
    numba_ready()
    kind = case['kind']
    r = dict(on=_case_on, off=_case_off, lookup=_case_lookup, universal=_case_universal)[kind](case)
    r['t'] = round(time.time() - t0, 2)
    r['pid'] = os.getpid()
    return r


def replay(case):
    return run_case(case)['viol']


def run(ctx):
    import os
    from mc.core import HarnessError, run_lattice
    from mc.refmodels import kaula, poolwatch
    try:
        kaula.selfcheck()
    except AssertionError as e:
        raise HarnessError(f'Kaula reference failed its self-check: {e}')
    watch = poolwatch.start(ctx)
    shift = SHIFTS[ctx.seed % len(SHIFTS)]
    obl = list(OBLIQ_MENU[ctx.seed % len(OBLIQ_MENU)])
    # two phases: per-l tables first (compiled once, cached on disk by numba), then the lookups that call them
    cases1 = [dict(kind='on', l=l, shift=shift, obliquities=obl, scalar=ctx.thorough) for l in reversed(L_RANGE)]
    cases1 += [dict(kind='off', l=l, obliquities=obl) for l in reversed(L_RANGE)]
    cases1 += [dict(kind='universal')]
    cases2 = [dict(kind='lookup', on=on, max_l=L, shift=shift, obliquities=obl, exact=ctx.thorough)
              for L in reversed(L_RANGE) for on in (True, False)]
    res1 = run_lattice(ctx, 'mc.props.C09:run_case', cases1, chunk=1,
                       rule='l in 2..7 x every (m, p) in (0..l)^2, on-tables (interpreted source and compiled) on 1024 '
                            'equispaced nodes of I/2 vs exact Kaula F_lmp^2 + DFT degree bound 4l; off-tables (all entries, all '
                            'omitted entries) vs exact F_lmp(0)^2 and the on-table at 0; get_universal_coeffs(l) for all m; '
                            'distinct = distinct table value vectors',
                       exhaustive=True)
    res2 = run_lattice(ctx, 'mc.props.C09:run_case', cases2, chunk=1,
                       rule='lookup[on/off][max_l] (compiled) vs per-l tables, key by key', exhaustive=True)
    watch.set()
    cases, res = cases1 + cases2, res1 + res2
    if os.environ.get('VERIF_TIMING'):
        for c, r in sorted(zip(cases, res), key=lambda cr: -cr[1]['t'])[:12]:
            print('   timing', r['t'], r['pid'], {k: v for k, v in c.items() if k not in ('obliquities',)}, flush=True)
    tot = dict(entries=0, node_values=0, off_entries=0, off_omitted=0, lookup_values=0, universal_values=0)
    worst = worst_jit = worst_dft = 0.0
    degb = 0
    form_ok = True
    for r in res:
        st = r.get('stats') or {}
        for k in tot:
            tot[k] += st.get(k, 0)
        worst = max(worst, st.get('worst', 0.0))
        worst_jit = max(worst_jit, st.get('worst_jit', 0.0))
        worst_dft = max(worst_dft, st.get('worst_dft', 0.0))
        degb = max(degb, st.get('max_degree_bound', 0))
        if st.get('form_ok') is False:
            form_ok = False
            ctx.note(f"source form of an on-table could not be established as a trig polynomial of degree < {M_NODES // 2}: "
                     f"{st.get('form_error', 'degree bound too large')}; nodes no longer prove the identity for all I")
    if not form_ok:
        ctx.coverage['exhaustive'] = False
    ctx.coverage.update(on_table_entries=tot['entries'], node_values_compared=tot['node_values'], nodes=M_NODES,
                        node_shift_eighths=shift, off_entries=tot['off_entries'], off_omitted_entries=tot['off_omitted'],
                        lookup_values_compared=tot['lookup_values'], universal_coeffs_compared=tot['universal_values'],
                        worst_error_over_scale=worst, worst_compiled_vs_python=worst_jit,
                        worst_amplitude_above_4l=worst_dft, max_source_degree_bound_in_half_angle=degb,
                        tolerance=TOL, trig_polynomial_form_verified=form_ok)
    ctx.note(f"{tot['entries']} on-table entries x {M_NODES} nodes (worst err/scale {worst:.2e}, compiled-vs-python "
             f"{worst_jit:.2e}, spectrum above 4l {worst_dft:.2e}, source degree bound {degb}), off: {tot['off_entries']} "
             f"entries / {tot['off_omitted']} omitted, lookups {tot['lookup_values']} values, "
             f"{tot['universal_values']} universal coefficients")
