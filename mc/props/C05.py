"""C05 -- energy theorem: the local dissipation integrates to -Im k_l.

    -Im k_l = 4 pi G / ((2l+1) R) * sum_layers int (H_mu Im mu + H_K Im K) dr                      (i)
    sum_shells heating(r) 4 pi r^2 dr = (21/2) (-Im k_2) G M_host^2 R^5 n e^2 / a^6   (l = 2)       (ii)
    Im k_l <= 0 whenever every Im mu, Im K >= 0                                                     (iii)

with the real `radial_solver`, `sensitivity_to_shear` / `sensitivity_to_bulk` (TidalPy/radial_solver/sensitivity.py) and
`calc_radial_tidal_heating` (TidalPy/tides/multilayer/heating.py).  The kernels are evaluated PER SOLID LAYER (the kernel
differentiates y1 by finite differences; a call that spans an interface or a NaN-filled liquid layer returns garbage).

E1 lattice: planet menu x l x frequency x {static, dynamic solid layers} x grid {tight, natural}; every case runs the whole
refinement ladder N = 240, 480, 960 slices per planet (the residual of (i)/(ii) is a discretisation error: asserted
<= max(C/N^2, floor) on tight grids -- measured second order -- and non-increasing under doubling) plus one convergence-gate
run (rtol/100, atol/10).  On NATURAL multi-layer grids the solver does not integrate the gap between an interface and the
first slice of the layer above it (DESIGN C03 grid convention), which breaks the theorem at FIRST order in that gap whenever
there is dissipation below the interface (measured residual 0.05..0.14 x sum gap/r_interface); the tolerance carries that
term, so natural grids only witness "vanishes under refinement", tight grids carry the sharp assertion.

Independent references for the kernels themselves (so that an error in the kernels cannot be compensated elsewhere),
mc/refmodels/tobie_kernels.py, plain numpy:
  (a) Tobie et al. (2005) eq. 33 literally, with dy1/dr from numpy.gradient (the scheme the kernel's comment names):
      every slice incl. layer edges, agreement to rounding (measured 1e-13 on the natural scale, asserted 1e-9);
  (b) H_mu, H_K re-derived from the strain invariants with the ANALYTIC dy1/dr of the constitutive relation
      dy1/dr = [y2 - (K - 2mu/3)(2 y1 - l(l+1) y3)/r] / (K + 4mu/3)  (no finite difference):  per-layer integrals of the
      difference (<= C/N), slice-by-slice (loose: the solver's dense output carries noise that 1/dr amplifies), and the
      reference kernels are themselves required to close (i) with the solver's k (harness self-check -> exit 2 otherwise).

The solver only accepts a REAL bulk modulus, so Im K = 0 in every end-to-end run.  The H_K term of the theorem is checked
(a) through analyticity of k in K on an elastic planet:  dk/dlnK = -4 pi G/((2l+1)R) int H_K K dr  (central difference of two
real solver runs; likewise for mu with H_mu), and (b) at formula level with a complex K = K(1+0.05i) handed to the kernels.
"""
import math

LEVEL = 'exploration'
ASSUMPTIONS = [
    'continuous parameters (densities, moduli, viscosities, frequency, layer radii) are decided on the stated grid only',
    'radial_solver takes a real bulk modulus: Im K = 0 in all end-to-end runs; the H_K term is checked through dk/dK on an '
    'elastic planet (analyticity of k in K) and at formula level with a complex K passed to the kernels',
    'kernels are evaluated per solid layer (one call per layer slice range), the way the finite difference inside them requires',
    'asserted only for cases whose solves succeed and pass the convergence gate (rtol/100, atol/10 changes k by <= 1e-7)',
    'liquid layers: static (Saito) liquid only; dynamic liquid layers are excluded (documented instability, DESIGN C03)',
    'orbit of the heating leg: e = 0.0041, M_host = 1.9e27 kg, synchronous (n = forcing frequency), a from Kepler III',
]

G = 6.67430e-11
R_PLANET = 1.8e6

NS = [240, 480, 960]
LS = [2, 3]
FREQS = [2.0 * math.pi / (86400.0 * 1.77), 1.0e-6, 3.0e-4, 1.0e-5, 1.5e-4]
GRIDS = ['tight', 'natural']
PLANETS = ['uniform', 'two', 'sLs', 'graded', 'gradcont', 'andrade', 'elastic']
SEED_FACTORS = [1.0, 1.07, 0.93, 1.31, 0.77, 1.19]

RTOL, ATOL = 1e-9, 1e-14
MAX_STEPS = 200000

# ---- tolerances (calibrated on the pristine tree: thorough lattice, seeds 0..4; see CALIBRATION in the report) ---------
GATE = 1e-7              # |k(rtol) - k(rtol/100)| admission gate (absolute, k = O(0.01..1))
C_ENERGY = 200.0         # tight grids / single layer: relative residual of (i),(ii) <= max(C_ENERGY / N^2, ENERGY_FLOOR) (second order)
ENERGY_FLOOR = 1e-4
C_NATURAL = 1.5          # natural multi-layer grids: + C_NATURAL * sum_interfaces (first step above the interface)/(interface radius)
C_NATURAL_DERIV = 10.0   # same for the derivative legs of the elastic planet
IMK_FLOOR = 1e-6         # natural scale of the residual: max(|Im k|, IMK_FLOOR * |k|)
DOUBLING_SLACK = 1.25    # r(2N) <= max(slack * r(N), tol(2N)/2)  (a residual inside half the tolerance may change sign freely)
C_LAYER_INT = 8.0        # per-layer integral of (library kernel - analytic-derivative reference) / integral of the natural scale
                         #   <= C_LAYER_INT / N (measured: between first and second order; solver dense-output noise enters)
TOL_FD = 1e-9            # library kernel vs eq. 33 with numpy's gradient, every slice, natural scale (rounding only)
TOL_SLICE = 0.2          # library kernel vs analytic-derivative reference, non-edge slices, natural scale
C_EDGE = 120.0           # first / last slice of a layer (one-sided difference): <= C_EDGE * (dr/R) + TOL_SLICE
TOL_DERIV = 2e-4         # elastic planet: residual of dk/dlnK, dk/dlnmu relative to |dk/dlnK| + |dk/dlnmu| (tight grids)
EPS_DERIV = 2e-3
IMK_POS = 1e-9           # (iii): Im k <= IMK_POS * |k|
TOL_HEAT_PROFILE = 1e-9  # shell sum of the profile vs the kernel integral it was built from (rounding only)

ECC, M_HOST = 0.0041, 1.9e27


# ---- planets ---------------------------------------------------------------------------------------------------------
def planet_spec(name, f):
    """-> (layers [(r_top, rho, mu, eta, K, rheology)], layer types).  f = seed factor (rotates the viscosities; the bulk moduli of the elastic planet)."""
    R = R_PLANET
    if name == 'uniform':
        return [(R, 3300., 5e10, 1e16 * f, 1.2e11, 'maxwell')], ('solid',)
    if name == 'two':
        return [(0.5 * R, 5000., 6e10, 1e21 * f, 2e11, 'maxwell'), (R, 3300., 5e10, 1e16 * f, 1.2e11, 'maxwell')], ('solid', 'solid')
    if name == 'sLs':
        return [(0.3 * R, 8000., 1e11, 1e22 * f, 3e11, 'maxwell'), (0.55 * R, 6000., 0.0, 0.0, 2e11, 'liquid'),
                (R, 3300., 5e10, 1e16 * f, 1.2e11, 'maxwell')], ('solid', 'liquid', 'solid')
    if name == 'graded':      # same density / rigidity, viscosity over 4 decades in 5 sub-layers
        return [((0.2 * (i + 1)) * R, 3300., 5e10, 10.0 ** (18 - i) * f, 1.2e11, 'maxwell') for i in range(5)], ('solid',) * 5
    if name == 'gradcont':    # one layer, log-viscosity linear in radius over 4 decades (set in build_planet)
        return [(R, 3300., 5e10, None, 1.2e11, 'maxwell')], ('solid',)
    if name == 'andrade':
        return [(0.5 * R, 5000., 6e10, 1e20 * f, 2e11, 'andrade'), (R, 3300., 5e10, 1e17 * f, 1.2e11, 'andrade')], ('solid', 'solid')
    if name == 'elastic':     # real moduli, strongly compressible (K ~ mu): used for the dk/dK, dk/dmu legs
        return [(0.5 * R, 5000., 6e10, None, 6e10 * f, 'elastic'), (R, 3300., 5e10, None, 4e10 * f, 'elastic')], ('solid', 'solid')
    raise KeyError(name)


def complex_mu(rheo, w, mu, eta):
    """Complex shear modulus from the compiled rheology classes of TidalPy.rheology.models."""
    if rheo == 'liquid':
        return 0j
    if rheo == 'elastic':
        return complex(mu)
    from TidalPy.rheology.models import Andrade, Maxwell
    cls = {'maxwell': Maxwell, 'andrade': Andrade}[rheo]
    return complex(cls()(float(w), float(mu), float(eta)))


def build_planet(name, N, grid, f, w, k_scale=1.0, mu_scale=1.0):
    import numpy as np
    from mc import rs
    spec, types = planet_spec(name, f)
    nl = len(spec)
    per = N // nl
    layers = []
    for (rt, rho, mu, eta, K, rheo) in spec:
        cm = complex_mu(rheo, w, mu, eta if eta is not None else 1.0) if name != 'gradcont' else complex(mu)
        layers.append((rt, rho, cm * mu_scale, K * k_scale))
    arrs, bulk, tops = rs.layered_planet(layers, N=per, tight=(grid == 'tight'))
    r, rho, g, K, mu = arrs
    if name == 'gradcont':
        # non-uniform (smoothly stretched) grid: exercises the unequal-step branch of the kernels' finite difference;
        # uniform density, so g = 4/3 pi G rho r exactly; the 'natural'/'tight' distinction is void for a single layer,
        # the two grid values select two different stretchings instead
        from TidalPy.rheology.models import Maxwell
        s = np.linspace(0.0, 1.0, len(r))
        amp = 0.25 if grid == 'tight' else -0.15
        r = r[0] + (r[-1] - r[0]) * (s + amp * np.sin(math.pi * s) / math.pi)
        r[-1] = R_PLANET
        g = 4.0 / 3.0 * math.pi * G * rho * r
        eta = 10.0 ** (18.0 - 4.0 * (r - r[0]) / (r[-1] - r[0])) * f
        mu = np.empty(len(r), dtype=np.complex128)
        Maxwell().vectorize_modulus_viscosity(float(w), np.ascontiguousarray(5e10 * np.ones(len(r))),
                                              np.ascontiguousarray(eta), mu)
        arrs = (r, rho, g, K, mu)
    bounds = [(i * per, (i + 1) * per) for i in range(nl)]
    assert bounds[-1][1] == len(r)
    # relative width of the un-integrated gaps above the interfaces (solver convention, DESIGN C03): ~1e-9 on tight grids
    gapsum = float(sum((r[b0] - r[b0 - 1]) / r[b0 - 1] for (_, b0) in bounds[:-1]))
    return dict(arrs=arrs, bulk=bulk, tops=tops, types=types, bounds=bounds, gapsum=gapsum)


# ---- lattice ---------------------------------------------------------------------------------------------------------
def cases(tier, seed):
    f = SEED_FACTORS[seed % len(SEED_FACTORS)]
    freqs = FREQS if tier == 'thorough' else [FREQS[seed % 3]]
    out = []
    for pl in PLANETS:
        for l in LS:
            for w in freqs:
                for dyn in (False, True):
                    for grid in GRIDS:
                        if pl == 'elastic' and w != freqs[0] and not dyn:
                            continue      # elastic + static: the frequency does not enter at all
                        out.append(dict(planet=pl, l=l, w=w, dyn=dyn, grid=grid, f=f, Ns=NS))
    return out


# ---- one solve + all measurements at one N ----------------------------------------------------------------------------
def _solve(c, P, rtol=RTOL, atol=ATOL):
    from mc import rs
    nl = len(P['types'])
    static = tuple((t == 'liquid') or (not c['dyn']) for t in P['types'])
    return rs.solve(P['arrs'], c['w'], P['bulk'], P['types'], static, (False,) * nl, P['tops'], degree_l=c['l'],
                    solve_for=('tidal',), use_kamata=True, integration_method='DOP853', integration_rtol=rtol,
                    integration_atol=atol, max_num_steps=MAX_STEPS, warnings=False)


def _kern_records(name, a0, h, sc, H, H_fd, H_an):
    """Deviations of a library kernel on the slices of one layer, on the natural scale sc, from
    H_fd: eq. 33 with numpy's own second-order gradient (the scheme the kernel's docstring names)  -> rounding only
    H_an: strain form with the analytic derivative -> the kernel's discretisation error (+ the noise of the solver's
          dense output, amplified by 1/dr); slice classes: edge (one-sided, first order), next-to-edge, interior."""
    import numpy as np
    dfd = np.abs(H - H_fd) / sc
    dan = np.abs(H - H_an) / sc
    dfd = np.where(np.isfinite(dfd), dfd, np.inf)
    dan = np.where(np.isfinite(dan), dan, np.inf)
    return dict(kernel=name, layer=a0, h=h, fd=float(np.max(dfd)), i_fd=int(a0 + np.argmax(dfd)),
                edge=float(max(dan[0], dan[-1])), near=float(max(dan[1], dan[-2])),
                interior=float(np.max(dan[2:-2])), i_int=int(a0 + 2 + np.argmax(dan[2:-2])))


def measure(c, N):
    """One solve at N slices and every measurement on it.  All kernel calls are per solid layer."""
    import numpy as np
    from mc.refmodels import tobie_kernels as tk
    from TidalPy.radial_solver.sensitivity import sensitivity_to_bulk, sensitivity_to_shear
    from TidalPy.tides.multilayer.heating import calc_radial_tidal_heating
    l = c['l']
    P = build_planet(c['planet'], N, c['grid'], c['f'], c['w'])
    s = _solve(c, P)
    if s['status'] == 'exc':
        return dict(status='exc', exc=s['exc'], message=s.get('message'))
    if s['status'] != 'ok':
        return dict(status='fail', message=s.get('message'))
    r, rho, g, K, mu = P['arrs']
    y = s['result']
    k = complex(s['love'][0][0])
    R = float(r[-1])
    C = 4.0 * math.pi * G / ((2 * l + 1) * R)
    Kc = K.astype(np.complex128)
    n = c['w']
    sma = (G * (M_HOST + P['bulk'] * 4.0 / 3.0 * math.pi * R ** 3) / n ** 2) ** (1.0 / 3.0)
    m = dict(status='ok', k=k, N=N)
    integ = integ_ref = heat = intK_K = intmu_mu = 0.0
    kern = []
    nonfinite = 0
    Hm_full = np.zeros(len(r))     # library kernel assembled layer by layer (0 in liquid layers, where Im mu = 0)
    for (a0, b0), t in zip(P['bounds'], P['types']):
        if t != 'solid':
            continue
        ys = np.ascontiguousarray(y[:6, a0:b0])
        rr = np.ascontiguousarray(r[a0:b0])
        mm = np.ascontiguousarray(mu[a0:b0])
        kk = np.ascontiguousarray(Kc[a0:b0])
        if not np.all(np.isfinite(ys.view(np.float64))):
            nonfinite += 1
            continue
        Hm = np.asarray(sensitivity_to_shear(ys, rr, mm, kk, l))
        Hk = np.asarray(sensitivity_to_bulk(ys, rr, mm, kk, l))
        d_an = tk.dy1dr_analytic(ys, rr, mm, kk, l)
        d_fd = np.gradient(ys[0], rr)                     # numpy: second order inside, one-sided first order at the two ends
        Hm_an, Hk_an = tk.strain_form(ys, rr, mm, kk, l)
        Hm_fd, Hk_fd = tk.eq33(ys, rr, mm, kk, l, d_fd)
        # harness self-check: literal eq. 33 with the analytic derivative == strain form
        Hm_e, Hk_e = tk.eq33(ys, rr, mm, kk, l, d_an)
        for A, B in ((Hm_e, Hm_an), (Hk_e, Hk_an)):
            if not np.max(np.abs(A - B)) <= 1e-9 * np.max(np.abs(Hm_an)):
                raise RuntimeError('reference kernels: eq. 33 and strain form disagree')
        integ += tk.trapz(Hm * mm.imag + Hk * kk.imag, rr)
        integ_ref += tk.trapz(Hm_an * mm.imag + Hk_an * kk.imag, rr)
        intK_K += tk.trapz(Hk * kk.real, rr)
        intmu_mu += tk.trapz(Hm * mm.real, rr)
        h = float(np.max(np.diff(rr))) / R
        # natural scale of the kernels' finite-difference error: the derivative enters through r Re(conj(y1') T), and H_K is a
        # small difference of such terms (r y1' + T = r * dilatation), so errors are measured against max(|T|^2 + |r y1'|^2)
        sc = float(np.max(np.abs(tk.T_term(ys, l)) ** 2 + np.abs(rr * d_an) ** 2))
        kern.append(_kern_records('shear', a0, h, sc, Hm, Hm_fd, Hm_an))
        kern.append(_kern_records('bulk', a0, h, sc, Hk, Hk_fd, Hk_an))
        sc_int = tk.trapz(np.abs(tk.T_term(ys, l)) ** 2 + np.abs(rr * d_an) ** 2, rr)
        kern[-2]['layer_int'] = abs(tk.trapz(Hm - Hm_an, rr)) / sc_int
        kern[-1]['layer_int'] = abs(tk.trapz(Hk - Hk_an, rr)) / sc_int
        # formula level: a complex (dissipative) K handed to the kernels (the derivative stays the one of the solution)
        kq = kk * (1.0 + 0.05j)
        Hm_q = np.asarray(sensitivity_to_shear(ys, rr, mm, kq, l))
        Hk_q = np.asarray(sensitivity_to_bulk(ys, rr, mm, kq, l))
        Hm_qf, Hk_qf = tk.eq33(ys, rr, mm, kq, l, d_fd)
        Hm_qa, Hk_qa = tk.eq33(ys, rr, mm, kq, l, d_an)
        kern.append(_kern_records('shear-complexK', a0, h, sc, Hm_q, Hm_qf, Hm_qa))
        kern.append(_kern_records('bulk-complexK', a0, h, sc, Hk_q, Hk_qf, Hk_qa))
        Hm_full[a0:b0] = Hm
    m.update(nonfinite_layers=nonfinite, lhs=-k.imag, rhs=C * integ, rhs_ref=C * integ_ref, kern=kern,
             dlnK=-C * intK_K, dlnmu=-C * intmu_mu, im_mu_min=float(np.min(mu.imag)), gapsum=P['gapsum'])
    if l == 2:
        # heating profile of the whole planet from the assembled kernel; shell sum = trapezoid of q(r) 4 pi r^2 per solid layer
        hr = np.asarray(calc_radial_tidal_heating(ECC, n, sma, M_HOST, np.ascontiguousarray(r), Hm_full,
                                                  np.ascontiguousarray(mu), l))
        for (a0, b0), t in zip(P['bounds'], P['types']):
            if t == 'solid':
                heat += tk.trapz(hr[a0:b0] * 4.0 * math.pi * r[a0:b0] ** 2, r[a0:b0])
        unit = 21.0 / 2.0 * G * M_HOST ** 2 * R ** 5 * n * ECC ** 2 / sma ** 6     # global rate = unit * (-Im k2)
        m.update(heat=heat, heat_unit=unit, heat_finite=bool(np.all(np.isfinite(hr))),
                 clamp_possible=bool(np.any(Hm_full * mu.imag < 0.0)))
    return m


def run_case(c):
    from mc import env
    env.tidalpy()
    pl, l = c['planet'], c['l']
    viol = []
    meas = []
    Ns = list(c['Ns'])
    # ---- convergence gate at the coarsest grid (the integration does not depend on the number of output slices)
    P0 = build_planet(pl, Ns[0], c['grid'], c['f'], c['w'])
    sg = _solve(c, P0, RTOL / 100.0, ATOL / 10.0)
    if sg['status'] == 'fail':        # step budget exhausted by the absolute tolerance near the centre: tighten rtol only
        sg = _solve(c, P0, RTOL / 100.0, ATOL)
    for N in Ns:
        m = measure(c, N)
        if m['status'] == 'exc':
            return dict(status='pass', viol=[(f'C05/radial_solver/exception/{m["exc"]}', dict(N=N, msg=m.get('message')))], obs=None)
        if m['status'] != 'ok':
            return dict(status='inadmissible:solver-fail', viol=[], obs=None, info=str(m.get('message'))[:100])
        meas.append(m)
    if sg['status'] != 'ok':
        return dict(status='inadmissible:gate-solve-fail', viol=[], obs=None)
    gate = abs(complex(sg['love'][0][0]) - meas[0]['k'])
    if not gate <= GATE:
        return dict(status='inadmissible:gate', viol=[], obs=None, gate=gate)
    om = dict(gate=gate, energy=[], energy_N2=[], nat_over_gap=[], heat=[], ref=[], heat_vs_kernel=[], fd=[], edge_over_h=[], near=[],
              interior=[], layer_int=[],
              imk_over_k=abs(meas[0]['k'].imag) / abs(meas[0]['k']))
    resid, tols = [], []
    for m in meas:
        N = m['N']
        k = m['k']
        if m['nonfinite_layers']:
            viol.append(('C05/radial_solver/nonfinite-solution-in-solid-layer', dict(N=N)))
            continue
        tol_e = max(C_ENERGY / (N * N), ENERGY_FLOOR) + C_NATURAL * m['gapsum']
        scale = max(abs(k.imag), IMK_FLOOR * abs(k))
        e_ref = abs(m['lhs'] - m['rhs_ref']) / scale
        om['ref'].append(e_ref)
        # (i)
        e1 = abs(m['lhs'] - m['rhs']) / scale
        resid.append(e1)
        tols.append(tol_e)
        om['energy'].append(e1)
        if m['gapsum'] < 1e-6:
            om['energy_N2'].append(e1 * N * N)
        else:
            om['nat_over_gap'].append(e1 / m['gapsum'])
        if not e1 <= tol_e:
            viol.append(('C05/energy-integral/residual', dict(N=N, minus_Im_k=m['lhs'], integral=m['rhs'], rel=e1, tol=tol_e,
                                                               integral_with_reference_kernels=m['rhs_ref'])))
        elif not e_ref <= 2.0 * tol_e:
            # the library kernels close the theorem but the independent reference kernels do not: the harness is wrong
            raise RuntimeError(f'reference kernels do not close the energy theorem: {e_ref:.3e} (N={N}, case={c})')
        # (ii)  shell sum of the heating profile vs (21/2)(-Im k2) G M^2 R^5 n e^2/a^6, on the same natural scale as (i)
        if l == 2:
            e2 = abs(m['heat'] / m['heat_unit'] - m['lhs']) / scale
            om['heat'].append(e2)
            # given the library's own kernel, the profile must integrate to the kernel integral it was built from (rounding
            # only, unless the function's clamp of negative values can act)
            e2b = abs(m['heat'] / m['heat_unit'] - m['rhs']) / scale
            if not m['heat_finite']:
                viol.append(('C05/radial-heating/nonfinite', dict(N=N)))
            elif not m['clamp_possible'] and not e2b <= TOL_HEAT_PROFILE:
                om['heat_vs_kernel'].append(e2b)
                viol.append(('C05/radial-heating/profile-vs-kernel-integral',
                             dict(N=N, shell_sum_over_unit=m['heat'] / m['heat_unit'], kernel_integral=m['rhs'], rel=e2b)))
            elif not e2 <= tol_e:
                viol.append(('C05/radial-heating/shell-sum-vs-global',
                             dict(N=N, shell_sum=m['heat'], global_rate=m['heat_unit'] * m['lhs'], rel=e2, tol=tol_e)))
            if not m['clamp_possible']:
                om['heat_vs_kernel'].append(e2b)
        # (iii)
        if m['im_mu_min'] >= 0.0 and not k.imag <= IMK_POS * abs(k):
            viol.append(('C05/love/Im-k-positive', dict(N=N, k=k)))
        # kernels vs the two references, slice by slice
        for key in ('fd', 'near', 'interior'):
            om[key].append(max(kr[key] for kr in m['kern']))
        om['edge_over_h'].append(max(kr['edge'] / kr['h'] for kr in m['kern']))
        om['layer_int'].append(max(kr.get('layer_int', 0.0) for kr in m['kern']) * N)
        for kr in m['kern']:
            if not kr['fd'] <= TOL_FD:
                viol.append((f'C05/kernel-vs-tobie/{kr["kernel"]}/eq33-with-numpy-gradient', dict(N=N, **kr)))
            if not kr.get('layer_int', 0.0) <= C_LAYER_INT / N:
                viol.append((f'C05/kernel-vs-tobie/{kr["kernel"]}/layer-integral', dict(N=N, **kr)))
            if not max(kr['near'], kr['interior']) <= TOL_SLICE:
                viol.append((f'C05/kernel-vs-tobie/{kr["kernel"]}/analytic-derivative', dict(N=N, **kr)))
            if not kr['edge'] <= C_EDGE * kr['h'] + TOL_SLICE:
                viol.append((f'C05/kernel-vs-tobie/{kr["kernel"]}/analytic-derivative-layer-edge', dict(N=N, **kr)))
    # (i) under doubling
    if len(resid) == len(Ns):
        for j in range(len(Ns) - 1):
            if not resid[j + 1] <= max(DOUBLING_SLACK * resid[j], 0.5 * tols[j + 1]):
                viol.append(('C05/energy-integral/not-converging-under-doubling',
                             dict(N=(Ns[j], Ns[j + 1]), resid=(resid[j], resid[j + 1]), tol=(tols[j], tols[j + 1]))))
    # elastic planet: derivative legs (k is analytic in K and mu, so -dk/dlnK = C int H_K K dr is the H_K Im K term)
    if pl == 'elastic':
        N = Ns[-1]
        base = [m for m in meas if m['N'] == N][0]
        fds = {}
        for what in ('K', 'mu'):
            ks = []
            for sgn in (+1.0, -1.0):
                sc = 1.0 + sgn * EPS_DERIV
                P = build_planet(pl, N, c['grid'], c['f'], c['w'], k_scale=sc if what == 'K' else 1.0,
                                 mu_scale=sc if what == 'mu' else 1.0)
                s = _solve(c, P, RTOL / 100.0, ATOL / 10.0)
                if s['status'] != 'ok':
                    return dict(status='inadmissible:solver-fail-perturbed', viol=[], obs=None)
                ks.append(complex(s['love'][0][0]))
            fds[what] = (ks[0] - ks[1]).real / (2.0 * EPS_DERIV)
        dscale = abs(fds['K']) + abs(fds['mu'])
        tol_d = TOL_DERIV + C_NATURAL_DERIV * base['gapsum']
        for what in ('K', 'mu'):
            want = base['dlnK'] if what == 'K' else base['dlnmu']
            e = abs(fds[what] - want) / dscale
            om['d' + what + ('' if base['gapsum'] < 1e-6 else '_nat_over_gap')] = e if base['gapsum'] < 1e-6 else e / base['gapsum']
            om['d' + what + '_val'] = (fds[what], want)
            if not e <= tol_d:
                viol.append((f'C05/kernel-is-dk-dln{what}/elastic',
                             dict(N=N, finite_difference=fds[what], kernel_integral=want, rel_to_sum=e, tol=tol_d)))
    obs = tuple(round(float(x), 12) for x in (meas[0]['k'].real, meas[0]['k'].imag))
    return dict(status='pass', viol=viol, obs=obs, meas=om)


def replay(case):
    return run_case(case)['viol']


def run(ctx):
    from mc.core import run_lattice
    cs = cases(ctx.tier, ctx.seed)
    res = run_lattice(
        ctx, 'mc.props.C05:run_case', cs, chunk=1, min_admitted_frac=0.9,
        rule='full product planet{uniform Maxwell, 2-layer, solid/static-liquid/solid, 5-step graded viscosity, continuous viscosity '
             'gradient, Andrade 2-layer, elastic compressible 2-layer} x l{2,3} x frequency x {static,dynamic solids} x grid{tight,natural} '
             '(quick: one frequency rotated by the seed, thorough: 5 frequencies 1e-6..3e-4 rad/s); every case = refinement ladder N=240,480,960 + gate run '
             '(+4 perturbed runs on the elastic planet); distinct = distinct (Re k, Im k) at N=240 rounded to 1e-12 among admitted cases',
        exhaustive=False)
    worst = {}
    for c, r in zip(cs, res):
        mm = r.get('meas')
        if not mm:
            continue
        for key, v in mm.items():
            if key.endswith('_val'):
                continue
            v = (max(v) if v else 0.0) if isinstance(v, list) else v
            worst[key] = max(worst.get(key, 0.0), float(v))
        for j, N in enumerate(c['Ns']):
            if len(mm['energy']) == len(c['Ns']):
                worst[f'energy@{N}'] = max(worst.get(f'energy@{N}', 0.0), mm['energy'][j])
    ctx.coverage['worst_measured'] = {k: float('%.3g' % v) for k, v in sorted(worst.items())}
    ctx.coverage['tolerance'] = dict(energy_rule='max(C_ENERGY/N^2, ENERGY_FLOOR) + C_NATURAL * sum(gap/r_interface)', c_energy=C_ENERGY,
                                     energy_floor=ENERGY_FLOOR, c_natural=C_NATURAL, gate=GATE, c_layer_integral=C_LAYER_INT,
                                     kernel_vs_numpy_gradient=TOL_FD, kernel_vs_analytic=TOL_SLICE, c_edge=C_EDGE,
                                     deriv=TOL_DERIV, doubling_slack=DOUBLING_SLACK, c_natural_deriv=C_NATURAL_DERIV, heat_profile=TOL_HEAT_PROFILE)
    ctx.coverage['solver_runs'] = sum((4 + (4 if c['planet'] == 'elastic' else 0)) for c in cs)
