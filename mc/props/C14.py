"""C14 -- tidal potentials: returned derivatives are the derivatives of the returned potential, degree-2 Laplace
identity, per-mode variants sum to the non-modal twin, general variants reduce to simpler ones in their limits, and
(absolute oracle) every implementation equals the degree-2 tide-raising potential of a point mass on a Kepler orbit
up to its stated truncation order.

E1 lattice over the 8 shipped implementations (real numba-compiled code), three sub-lattices:

 self   impl x n x spin/n x e x obliquity x use_static, on a node grid of 17 colatitudes strictly inside (0, pi) x 17
        equispaced longitudes x (5 phases of every mode frequency j*o+k*n, j<=2, |k|<=5).  Oracles per mode:
        * U is a trigonometric polynomial of degree <= 2 in longitude (DFT bins 3..14 vanish) and lies in
          span{1, cos 2t, sin 2t} in colatitude (least-squares residual vanishes) -- this is the degree check and it
          makes agreement on the nodes agreement everywhere;
        * returned U_t, U_p, U_tt, U_pp, U_tp equal the exact spectral derivatives of the returned U;
        * U_tt + cot t U_t + U_pp / sin^2 t = -6 U from the returned arrays at every node;
        * mode bookkeeping: modes_by_name[name] = j*o + k*n parsed from the name, frequency = |mode|;
        * modal variants: sum over modes of all six arrays equals the non-modal twin called with the same arguments;
        * obliquity variants at obliquity 0 equal the no-obliquity variants (mode by mode).
 abs    impl x spin/n (lattice values + one generic, non-resonant 0.37) x small e x obliquity, both use_static values:
        the exact potential  U = G M R^2 / r(t)^3 * P2(cos psi(t))  of a point mass on a Kepler orbit (Kepler's equation
        solved numerically, body frame rotating at the spin rate, spin axis tilted by the obliquity) is Fourier analysed in
        the two angles (mean anomaly, rotation angle); every named mode 'j o + k n' must equal the (j,k) Fourier component,
        sums must equal the total (minus the static and the zero-frequency components when use_static=False), all up to
        K * eps^order with eps = e (order 4; 2 for the low-e variants) or e + obliquity (medium-obliquity variants).
 order  ratio tests: medium- vs general-obliquity under the scaling (e, obl) -> s (e, obl), s = 1, 2, 4; NSR variants at
        spin = n vs synchronous_low_e over e = 1e-3, 2e-3, 4e-3; low-e vs medium-e general-obliquity variants.

Known-defect classification: when an oracle fails, the run is repeated on outputs *corrected* by the closed-form
signature of each known defect (all subsets of the defects applicable to the implementations in the case); if a subset
makes the oracle pass, the violation is reported under C14/<impl>/<defect> for each defect of the smallest such subset,
otherwise under C14/<impl>/<oracle> (fresh).
"""
import itertools
import math
import re

LEVEL = 'exploration'
ASSUMPTIONS = [
    'continuous parameters (n, spin, e, obliquity, R, a, host mass, t) are decided on the stated lattice only; '
    'colatitude/longitude dependence is decided everywhere on (0,pi) x [0,2pi) because every mode is verified to be a '
    'degree-2 trigonometric polynomial on 17x17 nodes',
    'colatitude derivatives are asserted on the open interval (0, pi) only (P_21 is coded as -3 cos t sqrt(1-cos^2 t))',
    'sign / normalisation convention asserted by the absolute oracle (read off the docstrings and the e^0, obliquity^1 '
    'terms): U = + G M_host R^2 / r^3 * P2(cos psi) (positive at the sub-host point, no minus sign, no k2 / h2 factor), '
    'the coefficient uses G M / a^3 and not n^2; t = 0 is pericentre passage (mean anomaly M = n t); the body frame '
    'rotates by the angle (spin * t) about the spin axis and its prime meridian points at the pericentre direction at '
    't = 0; the line of nodes is along the pericentre direction (argument of pericentre 0) and the host moves to '
    'negative body latitude after pericentre (z_host = - sin(obliquity) sin(true anomaly)); "static" is the '
    'time-independent zonal term; with use_static=False modes with |frequency| <= 1e-10 rad/s are dropped',
    'G = 6.67430e-11 (CODATA 2018) is what TidalPy.constants.G holds',
    'truncation constants K (see TOL_K) bound the omitted next-order terms on the stated e/obliquity values; they are '
    'calibrated at 10x the measured worst case, not derived',
    'use_static=True for modal variants: the property is read as "the modes sum to the non-modal twin"; which mode '
    'should carry the static term is not asserted',
]

G = 6.67430e-11
NL = 17
NC = 17
MIN_FREQ = 1.0e-10            # TidalPy.tides.potential.MIN_SPIN_ORBITAL_DIFF (switch for use_static=False)

IMPL = {
    'sync': dict(fn='tidal_potential_simple', kind='sync', modal=False),
    'nsr': dict(fn='tidal_potential_nsr', kind='noobl', modal=False),
    'nsr_modes': dict(fn='tidal_potential_nsr_modes', kind='noobl', modal=True, twin='nsr'),
    'obl': dict(fn='tidal_potential_obliquity_nsr', kind='med', modal=False, base='nsr'),
    'obl_modes': dict(fn='tidal_potential_obliquity_nsr_modes', kind='med', modal=True, twin='obl', base='nsr_modes'),
    'gen': dict(fn='tidal_potential_gen_obliquity_nsr', kind='gen', modal=False, base='nsr'),
    'gen_modes': dict(fn='tidal_potential_gen_obliquity_nsr_modes', kind='gen', modal=True, twin='gen', base='nsr_modes'),
    'gen_lowe_modes': dict(fn='tidal_potential_gen_obliquity_low_e_nsr_modes', kind='gen', modal=True, lowe=True),
}
N_MODES = {'sync': 1, 'nsr': 1, 'obl': 1, 'gen': 1, 'nsr_modes': 9, 'obl_modes': 17, 'gen_modes': 27, 'gen_lowe_modes': 17}

# physical menus (rotated by the seed); n is an independent argument of the potentials (coefficient uses G M / a^3)
BODIES = [  # R [m], a [m], host mass [kg]
    (1.8216e6, 4.217e8, 1.898e27), (1.7374e6, 3.844e8, 5.972e24), (2.52e5, 2.38e8, 5.683e26),
    (6.371e6, 1.496e11, 1.989e30), (1.5608e6, 6.709e8, 1.898e27)]
N_MENU = [4.11e-5, 2.66e-6, 2.05e-5, 1.99e-7, 5.3e-5, 9.1e-4]
RATIOS = [0.5, 1.0, 1.0 + 1e-12, 1.5, 2.0, -1.0]
E_SELF = [0.0, 0.05, 0.2, 0.4]
OB_SELF = [0.0, 1e-3, 0.2, 0.8]
PHASES = [0.0, 0.9, math.pi / 2, 2.5, 4.0]
E_ABS = [0.0, 3e-4, 0.02, 0.05]
OB_ABS = {'med': [0.0, 3e-4, 0.02], 'gen': [0.0, 1e-3, 0.2, 0.8]}
RATIOS_ABS = RATIOS + [0.37]
T_ABS = [0.0, 0.13, 0.5, 0.77, 1.37, 2.71]       # in orbital periods

# tolerances -----------------------------------------------------------------------------------------------------
TOL_DERIV = 1e-10        # spectral-derivative / degree / Laplace residuals relative to max|U| of the mode
TOL_REL = 1e-12          # modal sum vs twin, obliquity-0 reduction: absolute in units of G M R^2 / a^3
TOL_FLOOR = 5e-14        # rounding floor of the absolute oracle, same units (measured worst 3.7e-15)
# truncation constants K: |code - exact| <= K * eps^order + TOL_FLOOR (10x the measured worst case, see report);
# families: e4 = no-obliquity and general-obliquity medium-e variants (eps = e, order 4; odd-k modes order 5),
# e2 = low-e general obliquity (order 2; odd-k modes 3), joint4 = medium obliquity (eps = e + obliquity, order 4)
TOL_K = {'e4': 500.0, 'e2': 100.0, 'joint4': 450.0, 'sync': 90.0,
         'e4-mode-even': 150.0, 'e4-mode-odd': 400.0, 'e2-mode-even': 25.0, 'e2-mode-odd': 65.0, 'joint4-mode-even': 150.0, 'joint4-mode-odd': 400.0}
ORDER_K = {'med-vs-gen': 2.0, 'nsr-sync': 260.0, 'lowe-vs-gen': 260.0}
RATIO_FLOOR = 1e-11      # differences below this are rounding; no ratio is formed

_MODE_RE = re.compile(r'(?:(\d*)o)?(?:([+-]?)(\d*)n)?')


def parse_mode(name):
    """'2o-3n' -> (2, -3): the mode is j*o + k*n."""
    m = _MODE_RE.fullmatch(name)
    if m is None or not name:
        raise ValueError(f'unparsable mode name {name!r}')
    jo, sg, kn = m.groups()
    j = 0 if 'o' not in name else (int(jo) if jo else 1)
    k = 0 if 'n' not in name else (int(kn) if kn else 1) * (-1 if sg == '-' else 1)
    return j, k


ALL_JK = [(0, k) for k in range(1, 6)] + [(j, k) for j in (1, 2) for k in range(-5, 6)]


# ---------------------------------------------------------------------------------------------------------------
# grids, legendre / longitude factors (reference side: plain numpy)
# ---------------------------------------------------------------------------------------------------------------
_G = {}


def grid():
    import numpy as np
    if 'col' not in _G:
        col = (np.arange(NC) + 0.5) * np.pi / NC          # strictly inside (0, pi)
        lon = np.arange(NL) * 2 * np.pi / NL
        B = np.stack([np.ones(NC), np.cos(2 * col), np.sin(2 * col)], axis=1)            # (NC, 3)
        dB = np.stack([np.zeros(NC), -2 * np.sin(2 * col), 2 * np.cos(2 * col)], axis=1)
        d2B = np.stack([np.zeros(NC), -4 * np.cos(2 * col), -4 * np.sin(2 * col)], axis=1)
        _G.update(col=col, lon=lon, B=B, dB=dB, d2B=d2B, pinv=np.linalg.pinv(B),
                  k=np.fft.fftfreq(NL, 1.0 / NL))
    return _G


def mesh(times):
    import numpy as np
    g = grid()
    L, C, T = np.meshgrid(g['lon'], g['col'], np.asarray(times, dtype=float), indexing='ij')
    return np.ascontiguousarray(L), np.ascontiguousarray(C), np.ascontiguousarray(T)


def term6(m, coef, w, times):
    """Six arrays (U, U_t, U_p, U_tt, U_pp, U_tp), shape (6, NL, NC, NT), of  1.5 * coef * P_2m(cos t) * A_m  with
    A_0 = cos(w t), A_1 = sin(phi + w t), A_2 = cos(2 phi + w t)  (reference side; units of G M R^2 / a^3)."""
    import numpy as np
    g = grid()
    th = g['col'][None, :, None]
    ph = g['lon'][:, None, None]
    wt = w * np.asarray(times, dtype=float)[None, None, :]
    if m == 0:
        P, P1, P2 = (3 * np.cos(th) ** 2 - 1) / 2, -1.5 * np.sin(2 * th), -3 * np.cos(2 * th)
        A, Ap, App = np.cos(wt) + 0 * ph, 0 * ph + 0 * wt, 0 * ph + 0 * wt
    elif m == 1:
        P, P1, P2 = -1.5 * np.sin(2 * th), -3 * np.cos(2 * th), 6 * np.sin(2 * th)
        A, Ap, App = np.sin(ph + wt), np.cos(ph + wt), -np.sin(ph + wt)
    else:
        P, P1, P2 = 3 * np.sin(th) ** 2, 3 * np.sin(2 * th), 6 * np.cos(2 * th)
        A, Ap, App = np.cos(2 * ph + wt), -2 * np.sin(2 * ph + wt), -4 * np.cos(2 * ph + wt)
    return 1.5 * coef * np.stack([P * A, P1 * A, P * Ap, P2 * A, P * App, P1 * Ap])


# ---------------------------------------------------------------------------------------------------------------
# exact reference: point mass on a Kepler orbit, degree-2 potential in the rotating body frame
# ---------------------------------------------------------------------------------------------------------------
def kepler_E(M, e):
    import numpy as np
    E = M + e * np.sin(M)
    for _ in range(40):
        E = E - (E - e * np.sin(E) - M) / (1 - e * np.cos(E))
    return E


def exact_U(th, ph, M, al, e, ob):
    """U / (G M_host R^2 / a^3) at colatitude th, longitude ph for mean anomaly M and body rotation angle al."""
    import numpy as np
    E = kepler_E(M, e)
    roa = 1 - e * np.cos(E)
    cf = (np.cos(E) - e) / roa
    sf = math.sqrt(1 - e * e) * np.sin(E) / roa
    x, y, z = cf, sf * math.cos(ob), -sf * math.sin(ob)          # inertial, z = spin axis, x = node = pericentre
    xb = x * np.cos(al) + y * np.sin(al)
    yb = -x * np.sin(al) + y * np.cos(al)
    c = np.sin(th) * np.cos(ph) * xb + np.sin(th) * np.sin(ph) * yb + np.cos(th) * z
    return roa ** -3 * (1.5 * c * c - 0.5)


NM, NA = 64, 8
_FC = {}


def fourier(e, ob):
    """C[lon, col, k, j]: coefficient of exp(i (k M + j alpha)) of the exact potential on the node grid."""
    import numpy as np
    key = (e, ob)
    if key not in _FC:
        if len(_FC) > 64:
            _FC.clear()
        g = grid()
        Mg = np.arange(NM) * 2 * np.pi / NM
        Ag = np.arange(NA) * 2 * np.pi / NA
        U = exact_U(g['col'][None, :, None, None], g['lon'][:, None, None, None], Mg[None, None, :, None],
                    Ag[None, None, None, :], e, ob)
        _FC[key] = np.fft.fft2(U, axes=(2, 3)) / (NM * NA)
    return _FC[key]


def comp_U(e, ob, j, k, w, times):
    """The (j,k) (+ conjugate) Fourier component of the exact potential as a function of time, (NL, NC, NT)."""
    import numpy as np
    C = fourier(e, ob)[:, :, k % NM, j % NA]
    return 2 * np.real(C[:, :, None] * np.exp(1j * w * np.asarray(times, dtype=float))[None, None, :])


# ---------------------------------------------------------------------------------------------------------------
# calling the code under test
# ---------------------------------------------------------------------------------------------------------------
def scale_of(body):
    R, a, Mh = body
    return G * Mh * R * R / a ** 3


def call(impl, body, n, o, e, ob, static, times):
    """-> (freqs{name: float}, modes{name: float}, pots{name: ndarray (6, NL, NC, NT) in units of G M R^2/a^3}).
    Non-modal implementations return the single key 'n'; it is renamed 'total'."""
    import numpy as np
    from TidalPy.tides import potential as P
    spec = IMPL[impl]
    f = getattr(P, spec['fn'])
    R, a, Mh = body
    L, C, T = mesh(times)
    if spec['kind'] == 'sync':
        out = jit_call(f, float(R), L, C, T, float(n), float(e), float(Mh), float(a))
    elif spec['kind'] == 'noobl':
        out = jit_call(f, float(R), L, C, T, float(n), float(o), float(e), float(Mh), float(a), bool(static))
    else:
        out = jit_call(f, float(R), L, C, T, float(n), float(o), float(e), float(ob), float(Mh), float(a), bool(static))
    sc = scale_of(body)
    freqs = {str(k): float(v) for k, v in out[0].items()}
    modes = {str(k): float(v) for k, v in out[1].items()}
    pots = {}
    for k, tup in out[2].items():
        arrs = [np.asarray(x) for x in tup]
        if len(arrs) != 6 or any(x.shape != L.shape for x in arrs):
            raise ShapeError(f'{impl}: mode {k}: {len(arrs)} arrays, shapes {[x.shape for x in arrs]}, grid {L.shape}')
        pots[str(k)] = np.stack(arrs) / sc
    if not spec['modal']:
        pots = {'total': pots['n']}
    return freqs, modes, pots


class ShapeError(Exception):
    pass


class InfraError(BaseException):
    """Not an Exception on purpose: must not be mistaken for a behaviour of the code under test (-> harness error, exit 2)."""


def jit_call(f, *args):
    """Call a numba dispatcher.  An OSError can only come from numba's on-disk cache (seen once: FileNotFoundError on
    '<cache>/...nbi.tmp...' when a concurrent check evicted the cache directory while this worker was compiling); the
    potentials themselves are pure arithmetic.  Retry, then give up as an infrastructure error -- never a violation."""
    import time
    last = None
    for _ in range(3):
        try:
            return f(*args)
        except OSError as ex:
            last = ex
            time.sleep(0.5)
    raise InfraError(f'numba cache I/O keeps failing: {type(last).__name__}: {last}')


def total6(pots):
    out = None
    for v in pots.values():
        out = v.copy() if out is None else out + v
    return out


def mode_w(name, n, o):
    j, k = parse_mode(name)
    return j * o + k * n


# ---------------------------------------------------------------------------------------------------------------
# known-defect signatures (closed-form corrections); see module docstring
# ---------------------------------------------------------------------------------------------------------------
D_STATIC = 'static-term-added-to-every-mode'
D_2N = 'mode-2n-coefficient-missing-e2-factor'
D_LOWE_O = 'mode-o-coefficient-missing-cos3sin-term'
D_MEDSTAT = 'static-coefficient-linear-in-obliquity'
D_2OPN = 'mode-2o+n-e3-term-missing-cos4-factor'


def applicable(impl, ob, static):
    d = []
    if impl in ('gen', 'gen_modes', 'gen_lowe_modes') and ob != 0.0:
        d.append(D_2N)
    if impl == 'gen_lowe_modes' and ob != 0.0:
        d.append(D_LOWE_O)
    if impl in ('gen', 'gen_modes') and ob != 0.0:
        d.append(D_2OPN)
    if impl in ('obl', 'obl_modes') and ob != 0.0 and static:
        d.append(D_MEDSTAT)
    if IMPL[impl]['modal'] and static:
        d.append(D_STATIC)
    return d


def corrected(impl, pots, defs, n, o, e, ob, static, times):
    """Outputs with the closed-form signature of the defects in `defs` removed (D_STATIC is a sum-level correction and is
    handled in modal_total)."""
    if not (set(defs) - {D_STATIC}):
        return pots
    out = dict(pots)
    s, c = math.sin(ob / 2), math.cos(ob / 2)
    if D_2N in defs and impl in ('gen', 'gen_modes', 'gen_lowe_modes'):
        # code: (-2. + 11.) * cos2_sin2 ; intended (-2. + 11. * e2) * cos2_sin2 (low-e variant: -2. * cos2_sin2)
        dc = ((11 * e * e - 11) if impl != 'gen_lowe_modes' else -11.0) * c * c * s * s
        key = '2n' if IMPL[impl]['modal'] else 'total'
        out[key] = out[key] + term6(0, dc, 2 * n, times)
    if D_2OPN in defs and impl in ('gen', 'gen_modes') and (static or abs(2 * o + n) > MIN_FREQ):
        # code: ... + (1/288) e3 + ... ; intended (1/288) e3 * cos_o_4 (cf. the '2o - n' entry, which has sin_o_4)
        key = '2o+n' if IMPL[impl]['modal'] else 'total'
        out[key] = out[key] + term6(2, (e ** 3 / 288.0) * (c ** 4 - 1.0), 2 * o + n, times)
    if D_LOWE_O in defs and impl == 'gen_lowe_modes' and (static or abs(o) > MIN_FREQ):
        # code: (-2/3) sin3_cos ; intended (2/3) cos3_sin + (-2/3) sin3_cos
        out['o'] = out['o'] + term6(1, (2.0 / 3.0) * c ** 3 * s, o, times)
    if D_MEDSTAT in defs and impl in ('obl', 'obl_modes') and static:
        # code: static_coeff = -1/3 - e2/2 + ob/2 ; intended ... + ob^2/2
        d6 = term6(0, 0.5 * ob * ob - 0.5 * ob, 0.0, times)
        for key in list(out):
            out[key] = out[key] + d6
    return out


def modal_total(potsT, potsF, n, o, fix_static):
    """Sum over modes of the use_static=True output; with fix_static the (N-1) surplus copies of the static term S are
    removed, S being measured on the code itself: S = mode(True) - mode(False) for a mode that is not frequency-switched."""
    tot = total6(potsT)
    if fix_static and len(potsT) > 1:
        m0 = next((m for m in potsT if abs(mode_w(m, n, o)) > MIN_FREQ), None)
        if m0 is not None:
            tot = tot - (len(potsT) - 1) * (potsT[m0] - potsF[m0])
    return tot


def explain(check, defects):
    """check(defset) -> {oracle_key: (owner_impl, err, tol, detail)} of *failing* oracles.  Returns violations."""
    base = check(frozenset())
    if not base:
        return []
    viol = []
    cache = {}
    subsets = [frozenset(s) for r in range(1, len(defects) + 1) for s in itertools.combinations(defects, r)]
    for okey, (owner, err, tol, detail) in base.items():
        hit = None
        for ss in subsets:
            if ss not in cache:
                cache[ss] = check(ss)
            if okey not in cache[ss]:
                hit = ss
                break
        d = dict(oracle=okey, err=err, tol=tol, **(detail or {}))
        if hit is None:
            viol.append((f'C14/{owner}/{okey.split(":")[0]}', d))
        else:
            for (dimpl, dname) in sorted(hit):
                viol.append((f'C14/{dimpl}/{dname}', dict(d, explained_by=sorted(f'{a}/{b}' for a, b in hit))))
    return viol


def _mx(a):
    import numpy as np
    a = np.abs(a)
    v = float(np.max(a)) if a.size else 0.0
    return v if math.isfinite(v) else float('inf')


# ---------------------------------------------------------------------------------------------------------------
# sub-lattice 'self'
# ---------------------------------------------------------------------------------------------------------------
def self_times(n, o, phases):
    ts = set()
    for j, k in ALL_JK:
        w = abs(j * o + k * n)
        if w > MIN_FREQ:
            for p in phases:
                ts.add(float(f'{p / w:.12e}'))
    return sorted(ts)


def spectral_checks(impl, pots):
    """Degree check + derivative oracle + Laplace identity for every mode. Returns {oracle: (owner, err, tol, detail)}."""
    import numpy as np
    g = grid()
    names = list(pots)
    A = np.stack([pots[m] for m in names])               # (Nm, 6, NL, NC, NT)
    fails = {}
    if not np.all(np.isfinite(A)):
        bad = [m for m in names if not np.all(np.isfinite(pots[m]))]
        return {'non-finite': (impl, float('inf'), 0.0, dict(modes=bad[:5]))}
    U, Ut, Up, Utt, Upp, Utp = (A[:, i] for i in range(6))
    sc = np.max(np.abs(U), axis=(1, 2, 3))
    zero = sc == 0.0
    if np.any(zero):
        mz = np.max(np.abs(A[zero][:, 1:]), initial=0.0)
        if mz > 0:
            fails['zero-potential-nonzero-derivative'] = (impl, float(mz), 0.0,
                                                          dict(modes=[m for m, z in zip(names, zero) if z][:5]))
    scs = np.where(zero, 1.0, sc)[:, None, None, None]
    k = g['k']
    F = np.fft.fft(U, axis=1)
    hi = np.abs(F[:, 3:NL - 2]) / NL
    Up_ref = np.real(np.fft.ifft(1j * k[None, :, None, None] * F, axis=1))
    Upp_ref = np.real(np.fft.ifft(-(k ** 2)[None, :, None, None] * F, axis=1))
    cf = np.einsum('bc,mlct->mlbt', g['pinv'], U)
    res = U - np.einsum('cb,mlbt->mlct', g['B'], cf)
    Ut_ref = np.einsum('cb,mlbt->mlct', g['dB'], cf)
    Utt_ref = np.einsum('cb,mlbt->mlct', g['d2B'], cf)
    Utp_ref = np.einsum('cb,mlbt->mlct', g['dB'], np.einsum('bc,mlct->mlbt', g['pinv'], Up_ref))
    th = g['col'][None, None, :, None]
    lap = Utt + Ut / np.tan(th) + Upp / np.sin(th) ** 2 + 6 * U
    items = [('degree-longitude', hi, None), ('degree-colatitude', res, None), ('deriv-U_t', Ut - Ut_ref, None),
             ('deriv-U_p', Up - Up_ref, None), ('deriv-U_tt', Utt - Utt_ref, None), ('deriv-U_pp', Upp - Upp_ref, None),
             ('deriv-U_tp', Utp - Utp_ref, None), ('laplace', lap, None)]
    worst = {}
    for key, arr, _ in items:
        rel = np.max(np.abs(arr) / scs, axis=(1, 2, 3))
        i = int(np.argmax(rel))
        worst[key] = float(rel[i])
        if rel[i] > TOL_DERIV:
            fails[key] = (impl, float(rel[i]), TOL_DERIV, dict(mode=names[i], n_modes_failing=int(np.sum(rel > TOL_DERIV))))
    return fails, worst


def bookkeeping_checks(impl, freqs, modes, pots, n, o):
    fails = {}
    if not IMPL[impl]['modal']:
        if set(modes) != {'n'} or modes['n'] != n or freqs.get('n') != abs(n):
            fails['mode-bookkeeping'] = (impl, 0.0, 0.0, dict(modes=modes, freqs=freqs))
        return fails
    if not (set(freqs) == set(modes) == set(pots)) or len(pots) != N_MODES[impl]:
        fails['mode-bookkeeping'] = (impl, 0.0, 0.0, dict(names=sorted(pots), n_expected=N_MODES[impl]))
        return fails
    for m in pots:
        try:
            w = mode_w(m, n, o)
        except ValueError:
            fails['mode-bookkeeping'] = (impl, 0.0, 0.0, dict(unparsable=m))
            break
        if abs(modes[m] - w) > 1e-12 * max(abs(n), abs(o)) or freqs[m] != abs(modes[m]):
            fails['mode-bookkeeping'] = (impl, abs(modes[m] - w), 0.0, dict(mode=m, returned=modes[m], expected=w,
                                                                             freq=freqs[m]))
            break
    return fails


def case_self(c):
    import numpy as np
    impl, n, e, ob, static = c['impl'], c['n'], c['e'], c['ob'], c['static']
    body = tuple(c['body'])
    o = c['ratio'] * n
    spec = IMPL[impl]
    times = self_times(n, o, c['phases'])
    viol = []
    try:
        freqs, modes, pots = call(impl, body, n, o, e, ob, static, times)
        twin = call(spec['twin'], body, n, o, e, ob, static, times)[2] if spec.get('twin') else None
        base = call(spec['base'], body, n, o, e, 0.0, static, times)[2] if (spec.get('base') and ob == 0.0) else None
        potsF = call(impl, body, n, o, e, ob, False, times)[2] if (spec['modal'] and static) else None
    except Exception as ex:  # the property promises a value for every input of the lattice
        return dict(status='pass', viol=[(f'C14/{impl}/exception/{type(ex).__name__}', dict(msg=str(ex)[:300]))], obs=None)

    sp = spectral_checks(impl, pots)
    worst = {}
    if isinstance(sp, tuple):
        fails0, worst = sp
    else:
        fails0 = sp
    fails0.update(bookkeeping_checks(impl, freqs, modes, pots, n, o))
    for key, (owner, err, tol, detail) in fails0.items():
        viol.append((f'C14/{owner}/{key}', dict(err=err, tol=tol, **detail)))

    defects = [(impl, d) for d in applicable(impl, ob, static)]
    if twin is not None:
        defects += [(spec['twin'], d) for d in applicable(spec['twin'], ob, static)]

    def check(ds):
        f = {}
        mine = [d for (i, d) in ds if i == impl]
        p = corrected(impl, pots, mine, n, o, e, ob, static, times)
        if twin is not None:
            tw = corrected(spec['twin'], twin, [d for (i, d) in ds if i == spec['twin']], n, o, e, ob, static, times)
            pF = corrected(impl, potsF, mine, n, o, e, ob, False, times) if potsF is not None else None
            tot = modal_total(p, pF, n, o, D_STATIC in mine) if static else total6(p)
            err = _mx(tot - tw['total'])
            if not ds:
                worst['mode-sum'] = err
            if not err <= TOL_REL:
                comp = int(np.argmax(np.max(np.abs(tot - tw['total']), axis=(1, 2, 3))))
                f['mode-sum'] = (impl, err, TOL_REL, dict(component=comp, twin=spec['twin']))
        if base is not None:
            err = 0.0
            wm = None
            # modes the no-obliquity variant does not have must vanish (under the known static defect they carry the
            # static term S, measured on the code itself as mode(True) - mode(False))
            extra_ref = 0.0
            if static and D_STATIC in mine and potsF is not None:
                m0 = next((m for m in p if abs(mode_w(m, n, o)) > MIN_FREQ), None)
                if m0 is not None:
                    extra_ref = p[m0] - corrected(impl, potsF, mine, n, o, e, ob, False, times)[m0]
            for m in p:
                ref = base[m] if m in base else extra_ref
                er = _mx(p[m] - ref)
                if er > err:
                    err, wm = er, m
            missing = [m for m in base if m not in p]
            if not ds:
                worst['obliquity-0-reduction'] = err
            if not err <= TOL_REL or missing:
                f['obliquity-0-reduction'] = (impl, err, TOL_REL, dict(mode=wm, base=spec['base'], missing=missing))
        return f

    viol += explain(check, defects)
    tot = total6(pots)
    obs = [impl, bool(static), round(_mx(tot[0]), 9), round(float(np.sum(tot[0])), 6), len(pots)]
    return dict(status='pass', viol=viol, obs=obs, worst=worst)


# ---------------------------------------------------------------------------------------------------------------
# sub-lattice 'abs'
# ---------------------------------------------------------------------------------------------------------------
def _abs_tol(impl, e, ob):
    spec = IMPL[impl]
    if spec['kind'] == 'sync':
        return TOL_K['sync'] * e * e + TOL_FLOOR
    if spec.get('lowe'):
        return TOL_K['e2'] * e * e + TOL_FLOOR
    if spec['kind'] == 'med':
        return TOL_K['joint4'] * (e + ob) ** 4 + TOL_FLOOR
    return TOL_K['e4'] * e ** 4 + TOL_FLOOR


def _mode_tol(fam, e, ob, j, k):
    """The coefficient of mode j*o + k*n is e^(parity of k) * obliquity^(parity of j) times a series in e^2 and
    obliquity^2, so the first omitted power is one order higher for the 'odd' modes."""
    if fam == 'joint4':
        odd = (j + k) % 2
        u = (e + ob) ** (4 + odd)
        return TOL_K[f"joint4-mode-{'odd' if odd else 'even'}"] * u + TOL_FLOOR, u
    odd = k % 2
    u = e ** ((4 if fam == 'e4' else 2) + odd)
    return TOL_K[f"{fam}-mode-{'odd' if odd else 'even'}"] * u + TOL_FLOOR, u


def _abs_order(impl, e, ob):
    spec = IMPL[impl]
    if spec['kind'] == 'sync' or spec.get('lowe'):
        return e * e
    if spec['kind'] == 'med':
        return (e + ob) ** 4
    return e ** 4


def case_abs(c):
    import numpy as np
    impl, n, e, ob = c['impl'], c['n'], c['e'], c['ob']
    body = tuple(c['body'])
    o = c['ratio'] * n
    spec = IMPL[impl]
    g = grid()
    times = [x * 2 * math.pi / n for x in T_ABS]
    tarr = np.asarray(times)
    th = g['col'][None, :, None]
    ph = g['lon'][:, None, None]
    tol = _abs_tol(impl, e, ob)
    unit = _abs_order(impl, e, ob)
    worst = {}

    fam = 'sync' if spec['kind'] == 'sync' else 'e2' if spec.get('lowe') else 'joint4' if spec['kind'] == 'med' else 'e4'

    def rec(key, err):
        worst[f'{fam}:{key}/err-over-tol'] = err / tol
    try:
        if spec['kind'] == 'sync':
            potsF = call(impl, body, n, n, e, 0.0, False, times)[2]
            potsT = None
        else:
            potsF = call(impl, body, n, o, e, ob, False, times)[2]
            potsT = call(impl, body, n, o, e, ob, True, times)[2]
    except Exception as ex:
        return dict(status='pass', viol=[(f'C14/{impl}/exception/{type(ex).__name__}', dict(msg=str(ex)[:300]))], obs=None)

    if spec['kind'] == 'sync':
        ref = exact_U(th, ph, n * tarr[None, None, :], n * tarr[None, None, :], e, 0.0) \
            - exact_U(th, ph, n * tarr[None, None, :], n * tarr[None, None, :], 0.0, 0.0)
        err = _mx(potsF['total'][0] - ref)
        rec('sync', err)
        viol = []
        if not err <= tol:
            viol.append((f'C14/{impl}/absolute-first-order-in-e', dict(err=err, tol=tol)))
        return dict(status='pass', viol=viol, obs=[impl, round(_mx(ref), 12), e], worst=worst)

    Uex = exact_U(th, ph, n * tarr[None, None, :], o * tarr[None, None, :], e, ob)
    C00 = np.real(fourier(e, ob)[:, :, 0, 0])[:, :, None]
    dropped = C00 + 0 * Uex                                   # static + zero-frequency components
    for j, k in ALL_JK + [(j, k) for j in (1, 2) for k in (-6, 6)]:
        w = j * o + k * n
        if abs(w) <= MIN_FREQ:
            dropped = dropped + comp_U(e, ob, j, k, w, times)
    ref_nostatic = Uex - dropped

    defects = [(impl, d) for d in applicable(impl, ob, True)]

    def check(ds):
        f = {}
        mine = [d for (i, d) in ds]
        pF = corrected(impl, potsF, mine, n, o, e, ob, False, times)
        pT = corrected(impl, potsT, mine, n, o, e, ob, True, times)
        if not spec['modal']:
            eT = _mx(pT['total'][0] - Uex)
            eF = _mx(pF['total'][0] - ref_nostatic)
            if not ds:
                rec('total-static', eT)
                rec('total-nostatic', eF)
            if not eT <= tol:
                f['absolute-total:static'] = (impl, eT, tol, dict(use_static=True))
            if not eF <= tol:
                f['absolute-total:nostatic'] = (impl, eF, tol, dict(use_static=False))
            return f
        em, wm, tm = 0.0, None, tol
        for m in pF:
            j, k = parse_mode(m)
            w = j * o + k * n
            r = comp_U(e, ob, j, k, w, times) if abs(w) > MIN_FREQ else 0.0
            er = _mx(pF[m][0] - r)
            # the coefficient of mode (j,k) is e^|k|-parity times a series in e^2: for odd k the first omitted power is
            # one order higher than for even k
            tmode, umode = _mode_tol(fam, e, ob, j, k)
            odd = (j + k) % 2 if fam == 'joint4' else k % 2
            if not ds:
                key = f"{fam}:mode-{'odd' if odd else 'even'}/err-over-tol"
                worst[key] = max(worst.get(key, 0.0), er / tmode)
            if er / tmode > em:
                em, wm, tm = er / tmode, m, tmode
        eF = _mx(total6(pF)[0] - ref_nostatic)
        eT = _mx(modal_total(pT, pF, n, o, D_STATIC in mine)[0] - Uex)
        if not ds:
            rec('sum-nostatic', eF)
            rec('sum-static', eT)
        if not em <= 1.0:
            f['absolute-mode'] = (impl, em * tm, tm, dict(mode=wm, use_static=False))
        if not eF <= tol:
            f['absolute-total:nostatic'] = (impl, eF, tol, dict(use_static=False))
        if not eT <= tol:
            f['absolute-total:static'] = (impl, eT, tol, dict(use_static=True))
        return f

    viol = explain(check, defects)
    obs = [impl, round(_mx(Uex), 9), round(float(np.sum(potsT[next(iter(potsT))][0])), 9), e, ob, c['ratio']]
    return dict(status='pass', viol=viol, obs=obs, worst=worst)


# ---------------------------------------------------------------------------------------------------------------
# sub-lattice 'order' (ratio tests)
# ---------------------------------------------------------------------------------------------------------------
ORDER_T = [0.0, 0.21, 0.63, 1.9]    # in orbital periods


def _pairdiff(pa, pb):
    err, wm = 0.0, None
    for m in set(pa) | set(pb):
        a = pa[m] if m in pa else 0.0
        b = pb[m] if m in pb else 0.0
        er = _mx(a - b)
        if er > err:
            err, wm = er, m
    return err, wm


def case_order(c):
    import numpy as np
    rel, n, static = c['rel'], c['n'], c['static']
    body = tuple(c['body'])
    o = c['ratio'] * n
    times = [x * 2 * math.pi / n for x in ORDER_T]
    scales = (1, 2, 4)
    if rel == 'med-vs-gen':
        ia, ib = c['pair']
        pts = [(s * c['e0'], s * c['ob0']) for s in scales]
        order, minlog = 3, 2.5
        eps = [e + ob for e, ob in pts]
    elif rel == 'nsr-sync':
        ia, ib = c['impl'], 'sync'
        pts = [(s * 1e-3, 0.0) for s in scales]
        order, minlog = 2, 1.5
        eps = [e for e, ob in pts]
    else:  # 'lowe-vs-gen'
        ia, ib = 'gen_lowe_modes', 'gen_modes'
        pts = [(s * 1e-3, c['ob']) for s in scales]
        order, minlog = 2, 1.5
        eps = [e for e, ob in pts]
    K = ORDER_K[rel]
    outs = []
    try:
        for e, ob in pts:
            pa = call(ia, body, n, o, e, ob, static, times)[2]
            pb = call(ib, body, n, o, e, ob, static, times)[2]
            outs.append((pa, pb))
    except Exception as ex:
        return dict(status='pass', viol=[(f'C14/{ia}/exception/{type(ex).__name__}', dict(msg=str(ex)[:300]))], obs=None)
    e, ob = pts[0]
    # relations are mode by mode (or use_static=False): the surplus static copies of the modal variants cancel
    defects = [(i, d) for i in (ia, ib) for d in applicable(i, ob, static) if d != D_STATIC]
    worst = {}

    def check(ds):
        f = {}
        D, W = [], []
        for (e, ob), (pa, pb) in zip(pts, outs):
            qa = corrected(ia, pa, [d for (i, d) in ds if i == ia], n, o, e, ob, static, times)
            qb = corrected(ib, pb, [d for (i, d) in ds if i == ib], n, o, e, ob, static, times)
            if rel == 'nsr-sync':
                qa = {'total': total6(qa)}
            d, wm = _pairdiff(qa, qb)
            D.append(d)
            W.append(wm)
        bound = [K * x ** order + TOL_FLOOR for x in eps]
        logs = [math.log2(D[i + 1] / D[i]) if D[i] > RATIO_FLOOR else None for i in range(2)]
        if not ds:
            worst[f'{rel}:order-const'] = max(d / (x ** order) for d, x in zip(D, eps))
            ls = [l for l in logs if l is not None]
            if ls:
                worst[f'{rel}:order-minlog'] = min(ls)
        if any(not (d <= b) for d, b in zip(D, bound)):
            f['order:bound'] = (ia, max(D), bound[D.index(max(D))], dict(rel=rel, other=ib, D=D, eps=eps, mode=W[-1]))
        if any(l is not None and l < minlog for l in logs):
            f['order:ratio'] = (ia, min(l for l in logs if l is not None), minlog,
                                dict(rel=rel, other=ib, D=D, eps=eps, log2_ratios=logs, mode=W[-1]))
        return f

    viol = explain(check, defects)
    # the site of an unexplained order failure names the relation
    viol = [((f'C14/{ia}/order-{rel}' if s.endswith('/order') else s), d) for s, d in viol]
    pa, pb = outs[-1]
    obs = [rel, ia, ib, round(_mx(total6(pa)[0]), 9), round(_mx(total6(pb)[0]), 9), bool(static), c['ratio']]
    return dict(status='pass', viol=viol, obs=obs, worst=worst)


# ---------------------------------------------------------------------------------------------------------------
# driver
# ---------------------------------------------------------------------------------------------------------------
def run_case(c):
    from mc import env
    env.tidalpy()
    kind = c['kind']
    if kind == 'self':
        return case_self(c)
    if kind == 'abs':
        return case_abs(c)
    if kind == 'order':
        return case_order(c)
    if kind == 'warm':
        call(c['impl'], BODIES[0], N_MENU[0], 1.5 * N_MENU[0], 0.1, 0.1, True, [0.0, 1.0])
        return dict(status='pass', viol=[], obs=None)
    raise ValueError(kind)


def replay(case):
    return run_case(case)['viol']


def cases(tier, seed):
    thorough = tier == 'thorough'
    body = BODIES[seed % len(BODIES)]
    ns = [N_MENU[seed % len(N_MENU)], N_MENU[(seed + 1) % len(N_MENU)]]
    if not thorough:
        ns = ns[:1]
    rot = (seed % 5) * 0.11
    phases = [p + rot for p in (PHASES if thorough else [0.9, 4.0])]
    e_self = E_SELF if thorough else [0.0, 0.05, 0.4]
    ob_self = OB_SELF if thorough else [0.0, 1e-3, 0.8]
    out = []
    # --- self
    for impl, spec in IMPL.items():
        for n in ns:
            for ratio in (RATIOS if spec['kind'] != 'sync' else [1.0]):
                for e in e_self:
                    for ob in (ob_self if spec['kind'] in ('med', 'gen') else [0.0]):
                        for static in ([False, True] if spec['kind'] != 'sync' else [False]):
                            out.append(dict(kind='self', impl=impl, body=body, n=n, ratio=ratio, e=e, ob=ob,
                                            static=static, phases=phases))
    # --- abs
    ratios_abs = RATIOS_ABS if thorough else [1.0, 1.0 + 1e-12, 1.5, -1.0, 0.37]
    e_abs = E_ABS if thorough else [0.0, 3e-4, 0.02]
    for impl, spec in IMPL.items():
        for n in ns[:1]:
            for ratio in (ratios_abs if spec['kind'] != 'sync' else [1.0]):
                for e in e_abs:
                    for ob in (OB_ABS[spec['kind']] if spec['kind'] in OB_ABS else [0.0]):
                        out.append(dict(kind='abs', impl=impl, body=body, n=n, ratio=ratio, e=e, ob=ob))
    # --- order
    ratios_ord = RATIOS if thorough else [0.5, 1.0, 1.5, -1.0]
    for n in ns:
        for pair in (('obl', 'gen'), ('obl_modes', 'gen_modes')):
            for ratio in ratios_ord:
                # mode-by-mode relations are run with use_static=False only (with True every mode carries a copy of the
                # static term -- the 'self' and 'abs' sub-lattices judge that); the non-modal pair runs both
                for static in ((False, True) if pair[0] == 'obl' else (False,)):
                    for e0, ob0 in ((0.0, 1e-3), (2e-3, 1e-3), (1e-3, 0.0)):
                        out.append(dict(kind='order', rel='med-vs-gen', pair=pair, body=body, n=n, ratio=ratio,
                                        static=static, e0=e0, ob0=ob0))
        for impl, spec in IMPL.items():
            if spec['kind'] != 'sync':
                for ratio in (1.0, 1.0 + 1e-12):
                    out.append(dict(kind='order', rel='nsr-sync', impl=impl, body=body, n=n, ratio=ratio, static=False))
        for ratio in ratios_ord:
            for ob in (0.0, 0.2, 0.8):
                for static in (False,):
                    out.append(dict(kind='order', rel='lowe-vs-gen', body=body, n=n, ratio=ratio, ob=ob, static=static))
    return out


def run(ctx):
    from mc.core import run_lattice
    # compile each implementation once (8 workers in parallel) so that the numba on-disk cache serves all other workers
    ctx.map('mc.props.C14:run_case', [dict(kind='warm', impl=i) for i in IMPL], chunk=1)
    cs = cases(ctx.tier, ctx.seed)
    res = run_lattice(
        ctx, 'mc.props.C14:run_case', cs, chunk=4,
        rule='full products: self = impl(8) x n x spin/n x e x obliquity x use_static on 17 interior colatitudes x 17 '
             'longitudes x 5 (quick: 2) phases of each of the 27 mode frequencies; abs = impl x spin/n x small e x obliquity '
             '(both use_static) against the exact Kepler point-mass potential, mode by mode; order = ratio tests (medium vs '
             'general obliquity, NSR at spin=n vs synchronous, low-e vs medium-e) over scalings 1,2,4; distinct = distinct '
             '(implementation, use_static, max|U|, sum U, number of modes) / reference magnitudes',
        exhaustive=True)
    worst = {}
    modes_seen = 0
    for c, r in zip(cs, res):
        for k, v in (r.get('worst') or {}).items():
            key = f"{c['kind']}:{k}"
            if k.endswith('order-minlog'):
                worst[key] = min(worst.get(key, v), v)
            else:
                worst[key] = max(worst.get(key, v), v)
    ctx.coverage['worst_observed'] = {k: float(f'{v:.3e}') for k, v in sorted(worst.items())}
    ctx.coverage['by_kind'] = {k: sum(1 for c in cs if c['kind'] == k) for k in ('self', 'abs', 'order')}
    ctx.coverage['implementations'] = {i: N_MODES[i] for i in IMPL}
    ctx.coverage['node_grid'] = f'{NC} colatitudes (i+0.5)pi/{NC} x {NL} longitudes 2 pi j/{NL}'
