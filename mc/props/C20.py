"""C20 -- compiled complex helpers (csqrt, cexp, clog, cpow, cipow, hypot, scaled_cexp), the double-factorial helper and
the interpreted twin special.sqrt_neg match their mathematical definitions.

E1 lattice (bounded-exhaustive over a special-value menu; every element is one call of the real function):

  * MENU = 41 doubles (0, -0, +-5e-324, +-DBL_MIN, +-1e-300, +-1e-160, +-1e-8, +-0.5, +-1, +-(1-ulp), +-(1+ulp), +-2, +-1e8,
    +-1e154, +-1e300, +-(T-ulp), +-T, +-(T+ulp) with T = DBL_MAX/(1+sqrt2) as the C code computes it, +-(DBL_MAX/4 + ulp),
    +-DBL_MAX, +-inf, NaN); the thorough tier appends 24 more values (see menu()).
  * csqrt / clog / cexp on MENU x MENU at two call levels: 'c' = the C functions cf_csqrt / cf_clog / cf_cexp taken from the
    extension's __pyx_capi__ capsules (what the rest of TidalPy cimports), 'py' = the Python wrappers.  The wrappers
    cannot receive every argument (Cython builds `x + y*I`), hence both.
  * a cexp supplement (22 x 15) around log(DBL_MAX), the scaled-exp thresholds and the underflow end, both levels;
    scaled_cexp(x, y, expt) directly on 7 x 15 x 2 (x in its design range, expt compensating so that the result is
    representable),
  * hypot on MENU x MENU,
  * cipow: bases (60 quick / 160 thorough) x every integer exponent in [-200, 200],
  * cpow: the same bases x 40 exponents (integer-valued doubles incl. +-99, +-100, +-101, half-integers, complex),
  * double_factorial(n) for n = -2 .. 302 (it accepts 0..170; 301!! overflows),
  * special.sqrt_neg on MENU x MENU (scalar), row-wise as arrays (array == scalar), and with is_real=True on MENU.

Oracles: mpmath at 80 digits rounded to double for finite results, <= 4 ulp per component (csqrt, clog, cexp, hypot,
sqrt_neg) resp. <= 4 ulp of the modulus (cpow, cipow); C99 Annex G tables (written out below) for signed zeros / inf / NaN
in csqrt and clog, cross-checked against cmath wherever cmath returns; arguments with a zero component never take their
reference from a complex mpmath call (mpmath ignores the sign of zero); exact integers for n!!.  sqrt_neg is compared
with the same reference as csqrt (twins that both meet it agree to 8 ulp).

Every deviation of the pinned tree is classified by the quantitative signature of its defect family (classify_*); a
deviation that does not match a signature goes to an `.../other` (or `/value`, `/annex-g`) site.
"""
import cmath
import math
import sys

LEVEL = 'exploration'
ASSUMPTIONS = [
    'real and imaginary parts are decided on the stated 41-value menu (65 values in the thorough tier; plus the stated cexp '
    'supplement and base/exponent menus) only; nothing is claimed for doubles off the menu',
    'the reference for finite results is mpmath at 80 decimal digits rounded to nearest double; libm (exp, log, sin, cos, '
    'atan2, sqrt, tgamma) is the one installed in the image',
    'cexp, cpow and cipow are asserted for finite arguments whose exact result is representable (both components) only; '
    'Annex G is asserted for csqrt and clog, as the property states; non-finite cexp arguments are executed but not asserted',
    'the C-level functions are reached through ctypes with a {double,double} struct, ABI-identical to double complex on '
    'x86-64 SysV; the assumption is self-tested in every worker (failure = harness error)',
    'double_factorial is asserted on the arguments it accepts (0..170); a refusal (ValueError/OverflowError) of any '
    'other argument is counted as inadmissible',
]

DBL_MAX = sys.float_info.max
DBL_MIN = sys.float_info.min
SUB = 5e-324
INF = math.inf
NAN = math.nan
PI = math.pi

TOL_ULP = 4.0            # "a few ulp" of the property statement; measured pristine worst on the lattice: see report / notes
TOL_POW_ULP = 4.0        # cpow / cipow: error in ulp of the modulus of the exact result
# Signature bounds of the known defect families (calibrated on the thorough lattice, see classify_* below):
POW_GROWTH_C = 4.0       # cpow/cipow: error <= C * S, S = |b| * (1 + |log a|)   (measured pristine worst err/S: 1.9)
POW_GROWTH_SMIN = 4.0    # below this scale the pristine tree never exceeds TOL_POW_ULP
SQRT_EPS_REL = 3.0e-8    # sqrt_neg: cancellation error relative to the modulus (theory: <= ~1.5e-8 = sqrt(2^-52))
CLOG_UNIT_ABS = 2.0 ** -52  # clog near |z| = 1: absolute error of the real part (measured worst 1.5e-17)
# table entries of special_x.pyx whose literal is not the correctly rounded n!! on the pinned tree (the other entries
# up to n = 50 are exact, so a deviation there is a different defect)
DFACT_TABLE_INEXACT = frozenset([25, 26, 27, 28, 29, 30, 31, 32, 33, 34, 35, 37, 38, 41, 42, 43, 44, 45, 46, 48, 49, 50])
DFACT_REL = 1.0e-13      # double factorial: "rounding-level" relative error of table / tgamma recursion (measured 1.3e-15)


def nxt(x, d):
    return math.nextafter(x, d)


def thresh():
    """THRESH exactly as complex.pyx computes it."""
    sqrt2 = 1.414213562373095048801688724209698079
    return (1.0 / (1.0 + sqrt2)) * DBL_MAX


MENU_EXTRA_POS = [3 * SUB, 2.0 ** -1060, 1.4916681462400413e-154, 1e-154, 0.6, 0.71, 0.8, 1.73, 3.0, 1e16,
                  1.3407807929942596e154, 709.0]


def menu(ext=False):
    """the 41-value menu of DESIGN; ext=True (thorough tier) adds 24 values: multi-bit subnormals, sqrt(DBL_MIN),
    sqrt(DBL_MAX), the clog |z| ~ 1 window bounds 0.71 / 1.73, a 0.6/0.8 unit-modulus pair, 3, 1e16, 709."""
    if ext:
        out = menu()
        nan = out.pop()
        for p in MENU_EXTRA_POS:
            out += [p, -p]
        return out + [nan]
    T = thresh()
    pos = [SUB, DBL_MIN, 1e-300, 1e-160, 1e-8, 0.5, nxt(1.0, 0.0), 1.0, nxt(1.0, 2.0), 2.0, 1e8, 1e154, 1e300,
           nxt(T, 0.0), T, nxt(T, INF), nxt(0.25 * DBL_MAX, INF), DBL_MAX, INF]
    out = [0.0, -0.0]
    for p in pos:
        out += [p, -p]
    out.append(NAN)
    assert len(out) == 41
    return out


def hx(x):
    return float(x).hex()


def fh(s):
    return float.fromhex(s)


def sgn(x):
    return math.copysign(1.0, x)


def _mp():
    import mpmath
    mpmath.mp.dps = 80
    return mpmath


def mp2f(v):
    """mpf -> nearest double; overflow -> +-inf."""
    try:
        return float(v)
    except OverflowError:  # pragma: no cover (mpmath returns inf itself)
        return INF if v > 0 else -INF


# ---------------------------------------------------------------------------------------------------
# references.  A reference is (re, im, mre, mim): value and mode per component.
#   mode 'x' exact (identical incl. the sign of zero; NaN matches NaN), 'u' finite rounded value compared in ulp,
#        'i' infinity of either sign, 's' skipped (not representable / unspecified)
# ---------------------------------------------------------------------------------------------------
def _neg(v):
    return -v   # -nan is nan, -0.0 is 0.0 negated: fine


def ref_csqrt(x, y):
    """C99 G.6.4.2 + mpmath for finite non-axis arguments."""
    if not math.isnan(y) and sgn(y) < 0:
        re, im, mre, mim = ref_csqrt(x, -y)           # csqrt(conj z) = conj csqrt(z)
        return re, _neg(im), mre, mim
    # y is NaN or has a positive sign
    if y == INF:
        return INF, INF, 'x', 'x'                      # csqrt(x + i inf) = inf + i inf for all x incl. NaN
    if math.isnan(x):
        return NAN, NAN, 'x', 'x'                      # csqrt(NaN + iy) = NaN + i NaN (y finite or NaN)
    if math.isnan(y):
        if x == -INF:
            return NAN, INF, 'x', 'i'                  # csqrt(-inf + i NaN) = NaN +- i inf
        if x == INF:
            return INF, NAN, 'x', 'x'                  # csqrt(+inf + i NaN) = inf + i NaN
        return NAN, NAN, 'x', 'x'                      # csqrt(x + i NaN) = NaN + i NaN, x finite
    if x == -INF:
        return 0.0, INF, 'x', 'x'                      # csqrt(-inf + iy) = +0 + i inf, y finite positive-signed
    if x == INF:
        return INF, 0.0, 'x', 'x'                      # csqrt(+inf + iy) = inf + i0
    mp = _mp()
    if y == 0.0:
        if x == 0.0:
            return 0.0, 0.0, 'x', 'x'                  # csqrt(+-0 + i0) = +0 + i0
        if x > 0:
            return mp2f(mp.sqrt(mp.mpf(x))), 0.0, 'u', 'x'
        return 0.0, mp2f(mp.sqrt(mp.mpf(-x))), 'x', 'u'
    r = mp.sqrt(mp.mpc(x, y))
    return mp2f(r.real), mp2f(r.imag), 'u', 'u'


def ref_clog(x, y):
    """C99 G.6.3.2 + mpmath; returns the mp value too (for cpow)."""
    if not math.isnan(y) and sgn(y) < 0:
        re, im, mre, mim = ref_clog(x, -y)
        return re, _neg(im), mre, mim
    if math.isnan(x):
        if y == INF:
            return INF, NAN, 'x', 'x'                  # clog(NaN + i inf) = inf + i NaN
        return NAN, NAN, 'x', 'x'
    if math.isnan(y):
        if math.isinf(x):
            return INF, NAN, 'x', 'x'                  # clog(+-inf + i NaN) = inf + i NaN
        return NAN, NAN, 'x', 'x'
    if y == INF:
        if x == -INF:
            return INF, 0.75 * PI, 'x', 'u'            # 3 pi / 4
        if x == INF:
            return INF, 0.25 * PI, 'x', 'u'
        return INF, 0.5 * PI, 'x', 'u'                 # clog(x + i inf) = inf + i pi/2
    if x == -INF:
        return INF, PI, 'x', 'u'
    if x == INF:
        return INF, 0.0, 'x', 'x'
    mp = _mp()
    if y == 0.0:
        if x == 0.0:
            if sgn(x) < 0:
                return -INF, PI, 'x', 'u'              # clog(-0 + i0) = -inf + i pi
            return -INF, 0.0, 'x', 'x'                 # clog(+0 + i0) = -inf + i0
        if x > 0:
            return mp2f(mp.log(mp.mpf(x))), 0.0, 'u', 'x'
        return mp2f(mp.log(mp.mpf(-x))), PI, 'u', 'u'
    if x == 0.0:
        return mp2f(mp.log(mp.mpf(y))), 0.5 * PI, 'u', 'u'
    r = mp.log(mp.mpc(x, y))
    return mp2f(r.real), mp2f(r.imag), 'u', 'u'


def mp_log_signed(x, y):
    """log of a finite non-zero complex number as an mp complex, honouring the sign of a zero imaginary part."""
    mp = _mp()
    if y == 0.0:
        if x > 0:
            return mp.mpc(mp.log(mp.mpf(x)), 0)
        return mp.mpc(mp.log(mp.mpf(-x)), mp.pi if sgn(y) > 0 else -mp.pi)
    if x == 0.0:
        return mp.mpc(mp.log(mp.mpf(abs(y))), mp.pi / 2 if y > 0 else -mp.pi / 2)
    return mp.log(mp.mpc(x, y))


def _round_comp(v):
    """mp real -> (double, mode): overflow is 'not representable' -> skipped."""
    f = mp2f(v)
    if math.isinf(f):
        return f, 's'
    return f, 'u'


def ref_cexp(x, y):
    """finite arguments only. exp(x) (cos y + i sin y); y = +-0 handled literally."""
    mp = _mp()
    ex = mp.exp(mp.mpf(x))
    if y == 0.0:
        re, mre = _round_comp(ex)
        return re, math.copysign(0.0, y), mre, 'x'
    re, mre = _round_comp(ex * mp.cos(mp.mpf(y)))
    im, mim = _round_comp(ex * mp.sin(mp.mpf(y)))
    return re, im, mre, mim


def ref_hypot(x, y):
    if math.isinf(x) or math.isinf(y):
        return INF, 'x'                                # C99 F.9.4.3: hypot(+-inf, y) = inf even if y is NaN
    if math.isnan(x) or math.isnan(y):
        return NAN, 'x'
    mp = _mp()
    v, m = _round_comp(mp.sqrt(mp.mpf(x) ** 2 + mp.mpf(y) ** 2))
    return v, m


def dfact_exact(n):
    r = 1
    while n > 1:
        r *= n
        n -= 2
    return r


# ---------------------------------------------------------------------------------------------------
# comparison
# ---------------------------------------------------------------------------------------------------
def same_exact(g, r):
    if math.isnan(r):
        return math.isnan(g)
    return g == r and sgn(g) == sgn(r)


def ulp_err(g, r):
    """|g - r| in units of ulp(r); inf if g is not finite."""
    if g == r:
        return 0.0
    if not math.isfinite(g):
        return INF
    return abs(g - r) / math.ulp(r)


def comp_problem(g, r, mode, mod=None):
    """-> (kind, err) or None.  kinds: 'nan', 'inf', 'zero-sign', 'value', 'ulp'."""
    if mode == 's':
        return None
    if mode == 'i':
        return None if math.isinf(g) else ('inf', None)
    if mode == 'x':
        if same_exact(g, r):
            return None
        if math.isnan(r) or math.isnan(g):
            return ('nan', None)
        if g == r:
            return ('zero-sign', None)
        if math.isinf(r) or math.isinf(g):
            return ('inf', None)
        return ('value', None)
    e = ulp_err(g, r)
    return None if e <= TOL_ULP else ('ulp', e)


def modulus(re, im, mre, mim):
    if mre == 'u' and mim == 'u':
        return math.hypot(re, im)
    return None


def cross_check_cmath(name, x, y, ref):
    """The literal Annex G table / mpmath reference must agree with cmath wherever cmath returns.  A disagreement is a
    defect of this harness, not of TidalPy -> exception (exit 2)."""
    f = {'csqrt': cmath.sqrt, 'clog': cmath.log, 'cexp': cmath.exp}[name]
    try:
        c = f(complex(x, y))
    except (ValueError, OverflowError):
        return
    for g, r, m in ((c.real, ref[0], ref[2]), (c.imag, ref[1], ref[3])):
        if m == 'x' and not same_exact(g, r):
            raise AssertionError(f'oracle/cmath disagreement {name}({x!r},{y!r}): cmath {c!r} ref {ref!r}')
        if m == 'i' and not math.isinf(g):
            raise AssertionError(f'oracle/cmath disagreement {name}({x!r},{y!r}): cmath {c!r} ref {ref!r}')
        if m == 'u':
            mod = modulus(*ref)
            e = ulp_err(g, r)
            if e > 8 and mod:
                e = abs(g - r) / math.ulp(mod)
            if e > 8:
                raise AssertionError(f'oracle/cmath disagreement {name}({x!r},{y!r}): cmath {c!r} ref {ref!r} ({e} ulp)')


# ---------------------------------------------------------------------------------------------------
# lattices
# ---------------------------------------------------------------------------------------------------
CEXP_RE = [700.0, 709.0, 709.782712893384, nxt(709.782712893384, INF), 710.0, nxt(710.47586007394386, 0.0),
           710.47586007394386, nxt(710.47586007394386, INF), 711.0, 745.0, 1000.0, nxt(1454.9159319953251, 0.0),
           1454.9159319953251, nxt(1454.9159319953251, INF), 1455.0, -700.0, -708.3964185322641, -709.0, -744.0,
           -745.1332191019411, -746.0, -1000.0]
CEXP_IM = [0.0, -0.0, 1e-300, 1e-8, -0.5, 0.7853981633974483, 1.5707963267948966, -1.5707963267948966,
           nxt(1.5707963267948966, 2.0), 2.0, 3.141592653589793, -3.141592653589793, 4.71238898038469, 1e8, -1e300]

# scaled_cexp(x, y, expt) = exp(x + iy) * 2**expt, the helper cexp switches to for 710.4759 <= x <= 1454.9159 (where, with
# expt = 0, at least one component always overflows).  It is exercised directly with the exponent that brings the result
# back to ~2**1000 / ~2**-1000 so that its value is representable and can be compared with the definition.
SCEXP_RE = [710.47586007394386, 711.0, 745.0, 1000.0, 1246.97177782734161156, 1454.0, 1454.9159319953251]


def scexp_expts(x):
    k = int(x / math.log(2.0))
    return [1000 - k, -1000 - k]


_B_RE = [0.0, -0.0, 0.5, -1.5, 2.0, 1e-3, 10.0, 1.0, -1.0, 0.6]
_B_IM = [0.0, -0.0, 0.3, -2.0, 1e2, 0.8]
_B_RE_X = [nxt(1.0, 0.0), -0.7071067811865476, 1e-8, 3.0, -1e3, 0.96]      # thorough: 16 x 10 = 160 bases
_B_IM_X = [-0.28, 0.7071067811865476, 1e-8, -1.0]


def bases(tier):
    re, im = list(_B_RE), list(_B_IM)
    if tier == 'thorough':
        re += _B_RE_X
        im += _B_IM_X
    return [(a, b) for a in re for b in im]


CPOW_EXP = [(0.0, 0.0), (1.0, 0.0), (2.0, 0.0), (3.0, 0.0), (4.0, 0.0), (-1.0, 0.0), (-2.0, 0.0), (-3.0, 0.0), (7.0, 0.0),
            (-7.0, 0.0), (50.0, 0.0), (99.0, 0.0), (-99.0, 0.0), (100.0, 0.0), (-100.0, 0.0), (101.0, 0.0), (-101.0, 0.0),
            (0.5, 0.0), (-0.5, 0.0), (1.5, 0.0), (2.5, 0.0), (-2.5, 0.0), (1e-8, 0.0), (99.5, 0.0), (-99.5, 0.0),
            (1.0 / 3.0, 0.0), (10.25, 0.0),
            (0.0, 1.0), (0.0, -1.0), (0.5, 0.5), (2.0, -3.0), (-1.0, 2.0), (0.0, 1e-8), (3.0, 1e-8), (99.0, 1.0),
            (2.0, -0.0), (-0.0, 0.0), (1.0, 5.0), (-0.5, -2.5), (0.0, 10.0)]
assert len(CPOW_EXP) == 40


def cases(tier, seed):
    ext = tier == 'thorough'
    M = menu(ext)
    out = []
    for ch in ('c', 'py'):
        for f in ('csqrt', 'clog', 'cexp'):
            for a in M:
                for b in M:
                    out.append(dict(f=f, ch=ch, re=hx(a), im=hx(b)))
        for a in CEXP_RE:
            for b in CEXP_IM:
                out.append(dict(f='cexp', ch=ch, re=hx(a), im=hx(b)))
    for a in SCEXP_RE:
        for b in CEXP_IM:
            for e in scexp_expts(a):
                out.append(dict(f='scexp', re=hx(a), im=hx(b), e=e))
    for a in M:
        for b in M:
            out.append(dict(f='hypot', re=hx(a), im=hx(b)))
    for a in M:
        for b in M:
            out.append(dict(f='sqrt_neg', re=hx(a), im=hx(b)))
    for a in M:
        out.append(dict(f='sqrt_neg_row', re=hx(a), ext=int(ext)))
        out.append(dict(f='sqrt_neg_real', re=hx(a)))
    for n in range(-2, 303):
        out.append(dict(f='dfact', n=n))
    bs = bases(tier)
    for (a, b) in bs:
        for n in range(-200, 201):
            out.append(dict(f='cipow', re=hx(a), im=hx(b), n=n))
    for (a, b) in bs:
        for (c, d) in CPOW_EXP:
            out.append(dict(f='cpow', re=hx(a), im=hx(b), bre=hx(c), bim=hx(d)))
    return out




# ---------------------------------------------------------------------------------------------------
# access to the code under test
# ---------------------------------------------------------------------------------------------------
_CF = None


def cfuncs():
    """C-level entry points cf_csqrt / cf_clog / cf_cexp, taken from the extension's __pyx_capi__ capsules (the very
    pointers other TidalPy extension modules cimport).  They are called through ctypes with a {double, double} struct,
    which the x86-64 SysV ABI passes and returns exactly like `double complex` (two SSE eightbytes).  Needed because
    the Python wrappers cannot receive every argument: Cython builds the C complex as `x + y*I`, which turns the real
    part into NaN when y is inf/NaN and loses the sign of a -0.0 real part when y >= +0 (see py_arg_conversion).
    The ABI assumption is self-tested once per process; a failure is a harness error."""
    global _CF
    if _CF is not None:
        return _CF
    import ctypes
    import platform
    from TidalPy.utilities.math import complex as tc
    if platform.machine() != 'x86_64':
        raise RuntimeError('C20: the ctypes access to cf_* assumes the x86-64 SysV ABI')
    api = ctypes.pythonapi
    api.PyCapsule_GetName.restype = ctypes.c_char_p
    api.PyCapsule_GetName.argtypes = [ctypes.py_object]
    api.PyCapsule_GetPointer.restype = ctypes.c_void_p
    api.PyCapsule_GetPointer.argtypes = [ctypes.py_object, ctypes.c_char_p]

    class DC(ctypes.Structure):
        _fields_ = [('re', ctypes.c_double), ('im', ctypes.c_double)]

    def fn(name, sig, res, *args):
        cap = tc.__pyx_capi__[name]
        s = api.PyCapsule_GetName(cap)
        if s != sig:
            raise RuntimeError(f'C20: unexpected C signature of {name}: {s!r}')
        return ctypes.CFUNCTYPE(res, *args)(api.PyCapsule_GetPointer(cap, s))

    build = fn('cf_build_dblcmplx', b'__pyx_t_double_complex (double, double)', DC, ctypes.c_double, ctypes.c_double)
    cabs_ = fn('cf_cabs', b'double (__pyx_t_double_complex)', ctypes.c_double, DC)
    raw = {n: fn('cf_' + n, b'__pyx_t_double_complex (__pyx_t_double_complex const )', DC, DC) for n in ('csqrt', 'clog', 'cexp')}
    r = build(1.5, -0.0)
    if not (r.re == 1.5 and r.im == 0.0 and sgn(r.im) < 0 and cabs_(DC(3.0, -4.0)) == 5.0):
        raise RuntimeError('C20: ABI self-test of the ctypes access to cf_* failed')
    r = raw['csqrt'](DC(3.0, 4.0))
    w = tc.csqrt(complex(3.0, 4.0))
    if not (r.re == w.real and r.im == w.imag):
        raise RuntimeError('C20: ABI self-test (cf_csqrt vs csqrt wrapper) failed')

    def wrap(f):
        def call(x, y):
            r = f(DC(x, y))
            return complex(r.re, r.im)
        return call
    _CF = {n: wrap(f) for n, f in raw.items()}
    return _CF


def py_arg_conversion(x, y):
    """What the Python wrappers really hand to the C function: __pyx_t_double_complex_from_parts(x, y) is
    `x + y*(double complex)_Complex_I`, i.e. real = x + y*0.0, imag = y."""
    return x + y * 0.0, y


# ---------------------------------------------------------------------------------------------------
# classification of deviations (sites)
# ---------------------------------------------------------------------------------------------------
def problems(got, ref):
    re, im, mre, mim = ref
    mod = modulus(*ref)
    return comp_problem(got.real, re, mre, mod), comp_problem(got.imag, im, mim, mod)


def classify_csqrt(x, y, got, ref):
    """Sites of the known csqrt defect families are produced only when the quantitative signature matches."""
    re, im, mre, mim = ref
    g_re, g_im = got.real, got.imag
    pr, pi_ = problems(got, ref)
    if pr is None and pi_ is None:
        return []
    detail = dict(z=(x, y), got=got, want=(re, im), modes=mre + mim, re=pr, im=pi_)
    finite = math.isfinite(x) and math.isfinite(y)
    # (1) sign of a zero imaginary part dropped: everything equals Annex G except that im is +0 instead of -0
    if pr is None and pi_[0] == 'zero-sign' and im == 0.0 and sgn(im) < 0 and sgn(g_im) > 0:
        return [('C20/csqrt/signed-zero-imag-dropped', detail)]
    # (2) csqrt(-inf + iy), y negative-signed finite: +0 + i inf returned instead of +0 - i inf
    if x == -INF and math.isfinite(y) and sgn(y) < 0 and pr is None and im == -INF and g_im == INF:
        return [('C20/csqrt/neg-inf-real-conj-sign', detail)]
    # (3) overflow scaling: only the real part is rescaled -> imaginary part half (to rounding) of the true one
    T = thresh()
    if finite and (abs(x) >= T or abs(y) >= T) and pr is None and mim == 'u' \
            and math.isfinite(g_im) and comp_problem(2.0 * g_im, im, 'u') is None:
        return [('C20/csqrt/overflow-rescale-imag-half', detail)]
    # (4) subnormal modulus: (|x| + hypot(x, y)) * 0.5 is formed in the subnormal range: it rounds to 0 for (+-0, +-5e-324)
    #     (t = 0 -> y / (2t) = +-inf, real part 0) or keeps only a few bits (result within a factor 2 of the truth)
    if finite and 0 < max(abs(x), abs(y)) < DBL_MIN:
        div0 = x == 0.0 and g_re == 0.0 and g_im == math.copysign(INF, y)

        def near(g, r):
            return g == r or (r != 0 and math.isfinite(g) and sgn(g) == sgn(r) and 0.5 <= abs(g / r) <= 2.0)
        if div0 or (near(g_re, re) and near(g_im, im)):
            return [('C20/csqrt/subnormal-argument', detail)]
    special = (mre + mim) != 'uu'
    return [('C20/csqrt/' + ('annex-g' if special else 'value') + '/other', detail)]


LOG_DBL_MAX = 709.782712893384          # exp() overflows above this
SCALED_CEXP_LOWER = 710.47586007394386  # complex.pyx switches to scaled_cexp only from here on


def classify_cexp(x, y, got, ref):
    re, im, mre, mim = ref
    pr, pi_ = problems(got, ref)
    if pr is None and pi_ is None:
        return []
    detail = dict(z=(x, y), got=got, want=(re, im), modes=mre + mim, re=pr, im=pi_)
    # window log(DBL_MAX) < x < SCALED_CEXP_LOWER: exp(x) = inf is multiplied by cos/sin although the product is representable
    if LOG_DBL_MAX < x < SCALED_CEXP_LOWER and mre == 'u' and mim == 'u' \
            and all(p is None or (math.isinf(g) and sgn(g) == sgn(r)) for p, g, r in ((pr, got.real, re), (pi_, got.imag, im))):
        return [('C20/cexp/exp-overflow-window', detail)]
    return [('C20/cexp/' + ('value' if mre + mim == 'uu' else 'signed-zero'), detail)]


def classify_clog(x, y, got, ref):
    re, im, mre, mim = ref
    pr, pi_ = problems(got, ref)
    if pr is None and pi_ is None:
        return []
    special = not (math.isfinite(x) and math.isfinite(y)) or (x == 0.0 and y == 0.0) or 'x' in (mre + mim)
    detail = dict(z=(x, y), got=got, want=(re, im), modes=mre + mim, re=pr, im=pi_)
    # |z| in the log1p window [0.71, 1.73]: Re = log1p((a-1)(a+1) + b*b)/2 cancels in doubles; the *absolute* error stays
    # at rounding level (<= 2^-52) but the relative error of a small real part does not
    if not special and pi_ is None and pr[0] == 'ulp' and 0.70 <= math.hypot(x, y) <= 1.74 \
            and abs(got.real - re) <= CLOG_UNIT_ABS:
        return [('C20/clog/near-unit-modulus-real-part', dict(detail, abs_err=abs(got.real - re)))]
    return [('C20/clog/' + ('annex-g' if special else 'value'), detail)]


REF = {'csqrt': ref_csqrt, 'clog': ref_clog, 'cexp': ref_cexp}
CLASSIFY = {'csqrt': classify_csqrt, 'clog': classify_clog, 'cexp': classify_cexp}


def pow_err(got, rr, ri):
    """error in ulp of the modulus of the reference."""
    mod = math.hypot(rr, ri)
    if not (math.isfinite(got.real) and math.isfinite(got.imag)):
        return INF, mod
    if got.real == rr and got.imag == ri:
        return 0.0, mod
    return math.hypot(got.real - rr, got.imag - ri) / math.ulp(mod), mod


def classify_pow(name, err, scale, detail):
    """cpow / cipow work in double precision throughout (repeated multiplication, or exp(b * log a) with a double log), so
    their error is amplified by S = |b| (1 + |log a|).  Known family: 4 ulp < err <= POW_GROWTH_C * S.  Anything larger is
    not explained by that amplification and is reported separately."""
    if err <= TOL_POW_ULP:
        return []
    if scale >= POW_GROWTH_SMIN and err <= POW_GROWTH_C * scale:
        return [(f'C20/{name}/ulp-growth', detail)]
    return [(f'C20/{name}/value/other', detail)]


# ---------------------------------------------------------------------------------------------------
# the case runner
# ---------------------------------------------------------------------------------------------------
def _obs(v):
    if isinstance(v, complex):
        return (hx(v.real), hx(v.imag))
    return hx(float(v))


def _exc(site, e, **kw):
    return dict(status='pass', viol=[(f'{site}/exception/{type(e).__name__}', dict(kw, msg=str(e)[:200]))],
                obs=('exc', type(e).__name__))


def run_case(c):
    from mc import env
    env.tidalpy()
    f = c['f']
    if f in ('csqrt', 'clog', 'cexp'):
        return run_unary(c)
    if f == 'hypot':
        return run_hypot(c)
    if f == 'scexp':
        return run_scexp(c)
    if f == 'dfact':
        return run_dfact(c)
    if f == 'cipow':
        return run_cipow(c)
    if f == 'cpow':
        return run_cpow(c)
    if f in ('sqrt_neg', 'sqrt_neg_row', 'sqrt_neg_real'):
        return run_sqrt_neg(c)
    raise ValueError(f'unknown case {c!r}')


def run_unary(c):
    from TidalPy.utilities.math import complex as tc
    f, ch = c['f'], c['ch']
    x, y = fh(c['re']), fh(c['im'])
    finite = math.isfinite(x) and math.isfinite(y)
    try:
        got = cfuncs()[f](x, y) if ch == 'c' else getattr(tc, f)(complex(x, y))
    except (RuntimeError, KeyError):
        raise
    except Exception as e:
        return _exc(f'C20/{f}', e, z=(x, y), ch=ch)
    if f == 'cexp' and not finite:
        # executed (totality) but not asserted: the property claims Annex G for csqrt / clog only
        return dict(status='inadmissible:cexp-nonfinite-argument', viol=[], obs=_obs(got))
    ref = REF[f](x, y)
    cross_check_cmath(f, x, y, ref)
    if f == 'cexp' and 's' in (ref[2], ref[3]):
        return dict(status='inadmissible:result-not-representable', viol=[], obs=_obs(got))
    viol = CLASSIFY[f](x, y, got, ref)
    if viol and ch == 'py':
        xc, yc = py_arg_conversion(x, y)
        if not (same_exact(xc, x) and same_exact(yc, y)):
            # the wrapper cannot receive (x, y); narrow signature: the result is right for the converted argument
            fin_c = math.isfinite(xc) and math.isfinite(yc)
            if not (f == 'cexp' and not fin_c) and not CLASSIFY[f](xc, yc, got, REF[f](xc, yc)):
                viol = [('C20/pywrapper/complex-arg-conversion',
                         dict(fn=f, z=(x, y), received_by_c_function=(xc, yc), got=got, want=ref[:2]))]
    meas = {}
    if not viol and ref[2] == 'u' and ref[3] == 'u':
        meas = dict(fn=f, ulp=max(ulp_err(got.real, ref[0]), ulp_err(got.imag, ref[1])))
    return dict(status='pass', viol=viol, obs=_obs(got), meas=meas)


def run_scexp(c):
    from TidalPy.utilities.math import complex as tc
    x, y, e = fh(c['re']), fh(c['im']), c['e']
    mp = _mp()
    try:
        got = tc.scaled_cexp(x, y, e)
    except Exception as ex:
        return _exc('C20/scaled_cexp', ex, x=x, y=y, expt=e)
    sc = mp.exp(mp.mpf(x)) * mp.mpf(2) ** e
    if y == 0.0:
        ref = (mp2f(sc), math.copysign(0.0, y), 'u', 'x')
    else:
        ref = (mp2f(sc * mp.cos(mp.mpf(y))), mp2f(sc * mp.sin(mp.mpf(y))), 'u', 'u')
    if math.isinf(ref[0]) or math.isinf(ref[1]):
        return dict(status='inadmissible:result-not-representable', viol=[], obs=_obs(got))
    pr, pi_ = problems(got, ref)
    viol, meas = [], {}
    if pr is not None or pi_ is not None:
        viol.append(('C20/scaled_cexp/value', dict(x=x, y=y, expt=e, got=got, want=ref[:2], re=pr, im=pi_)))
    elif ref[3] == 'u':
        meas = dict(fn='scaled_cexp', ulp=max(ulp_err(got.real, ref[0]), ulp_err(got.imag, ref[1])))
    return dict(status='pass', viol=viol, obs=_obs(got), meas=meas)


def run_hypot(c):
    from TidalPy.utilities.math import complex as tc
    x, y = fh(c['re']), fh(c['im'])
    r, m = ref_hypot(x, y)
    try:
        got = tc.hypot(x, y)
    except Exception as e:
        return _exc('C20/hypot', e, x=x, y=y)
    if m == 's':
        return dict(status='inadmissible:result-not-representable', viol=[], obs=_obs(got))
    viol, meas = [], {}
    p = comp_problem(got, r, m)
    if p is not None:
        viol.append(('C20/hypot/' + ('special' if m == 'x' else 'value'), dict(x=x, y=y, got=got, want=r, err=p)))
    elif m == 'u':
        meas = dict(fn='hypot', ulp=ulp_err(got, r))
    return dict(status='pass', viol=viol, obs=_obs(got), meas=meas)


def run_dfact(c):
    from fractions import Fraction
    from TidalPy.utilities.math.special_x import double_factorial
    n = c['n']
    try:
        got = double_factorial(n)
    except (ValueError, OverflowError) as e:
        if 0 <= n <= 170:
            return _exc('C20/double_factorial', e, n=n)
        return dict(status='inadmissible:argument-rejected', viol=[], obs=('rejected', type(e).__name__))
    except Exception as e:
        return _exc('C20/double_factorial', e, n=n)
    viol = []
    if not (0 <= n <= 170):
        viol.append(('C20/double_factorial/accepted-outside-domain', dict(n=n, got=got)))
        return dict(status='pass', viol=viol, obs=_obs(got))
    exact = dfact_exact(n)
    want = float(exact)                 # int -> float is correctly rounded: the best a double can do
    meas = {}
    if not (got == want):
        rel = float(abs(Fraction(got) - exact) / exact) if math.isfinite(got) else INF
        detail = dict(n=n, got=got, want=want, exact=str(exact), rel_err=rel, ulp=ulp_err(got, want))
        if n in DFACT_TABLE_INEXACT and rel <= DFACT_REL:
            viol.append(('C20/double_factorial/inexact-table', detail))           # literal with wrong trailing digits
        elif 51 <= n <= 170 and rel <= DFACT_REL:
            viol.append(('C20/double_factorial/inexact-tgamma-recursion', detail))  # tgamma(n+1) / (n-1)!! in doubles
        else:
            viol.append(('C20/double_factorial/wrong-value/other', detail))
        meas = dict(fn='dfact', rel=rel)
    return dict(status='pass', viol=viol, obs=_obs(got), meas=meas)


def run_cipow(c):
    from TidalPy.utilities.math import complex as tc
    x, y, n = fh(c['re']), fh(c['im']), c['n']
    mp = _mp()
    try:
        got = tc.cipow(complex(x, y), n)
    except Exception as e:
        return _exc('C20/cipow', e, a=(x, y), n=n)
    if x == 0.0 and y == 0.0:
        if n < 0:
            return dict(status='inadmissible:zero-to-negative-power', viol=[], obs=_obs(got))
        rr, ri = (1.0, 0.0) if n == 0 else (0.0, 0.0)
        scale = 0.0
    else:
        r = mp.mpc(x, y) ** n
        rr, ri = mp2f(r.real), mp2f(r.imag)
        scale = abs(n) * (1.0 + float(abs(mp_log_signed(x, y))))
    if math.isinf(rr) or math.isinf(ri):
        return dict(status='inadmissible:result-not-representable', viol=[], obs=_obs(got))
    err, mod = pow_err(got, rr, ri)
    viol = classify_pow('cipow', err, scale, dict(a=(x, y), n=n, got=got, want=(rr, ri), err_ulp_of_modulus=err, growth_scale=scale))
    return dict(status='pass', viol=viol, obs=_obs(got), meas=dict(fn='cipow', err=err, scale=scale))


def run_cpow(c):
    from TidalPy.utilities.math import complex as tc
    x, y, p, q = fh(c['re']), fh(c['im']), fh(c['bre']), fh(c['bim'])
    mp = _mp()
    a, b = complex(x, y), complex(p, q)
    try:
        got = tc.cpow(a, b)
    except Exception as e:
        return _exc('C20/cpow', e, a=(x, y), b=(p, q))
    if x == 0.0 and y == 0.0:
        if p == 0.0 and q == 0.0:
            rr, ri = 1.0, 0.0
        elif p > 0:
            rr, ri = 0.0, 0.0
        else:
            return dict(status='inadmissible:zero-to-nonpositive-power', viol=[], obs=_obs(got))
        scale = 0.0
    else:
        L = mp_log_signed(x, y)           # the sign of a zero imaginary part selects the side of the branch cut
        if q == 0.0 and p == math.floor(p):
            r = mp.mpc(x, y) ** int(p)    # integer power: branch independent
        else:
            r = mp.exp(mp.mpc(p, q) * L)
        rr, ri = mp2f(r.real), mp2f(r.imag)
        scale = abs(b) * (1.0 + float(abs(L)))
    if math.isinf(rr) or math.isinf(ri):
        return dict(status='inadmissible:result-not-representable', viol=[], obs=_obs(got))
    err, mod = pow_err(got, rr, ri)
    viol = classify_pow('cpow', err, scale, dict(a=(x, y), b=(p, q), got=got, want=(rr, ri), err_ulp_of_modulus=err, growth_scale=scale))
    return dict(status='pass', viol=viol, obs=_obs(got), meas=dict(fn='cpow', err=err, scale=scale))


# ---- interpreted twin -----------------------------------------------------------------------------
def classify_sqrt_neg(x, y, got, ref, real_mode=False):
    """special.sqrt_neg uses the textbook formula sqrt((|z| +- x)/2) with |z| = sqrt(x*x + y*y) and boolean masks."""
    re, im, mre, mim = ref
    pr, pi_ = problems(got, ref)
    if pr is None and pi_ is None:
        return []
    g_re, g_im = got.real, got.imag
    detail = dict(z=(x, y), got=got, want=(re, im), modes=mre + mim, re=pr, im=pi_, is_real=real_mode)
    finite = math.isfinite(x) and math.isfinite(y)
    if not finite:
        if all(p is None or math.isnan(g) for p, g in ((pr, g_re), (pi_, g_im))):
            return [('C20/sqrt_neg/nonfinite-argument-nan', detail)]   # False * inf = NaN in the mask arithmetic
        return [('C20/sqrt_neg/nonfinite-argument/other', detail)]
    if pr is None and pi_[0] == 'zero-sign' and im == 0.0 and sgn(im) < 0 and sgn(g_im) > 0:
        return [('C20/sqrt_neg/signed-zero-imag-dropped', detail)]
    if x < 0 and y == 0.0 and sgn(y) < 0 and pr is None and comp_problem(-g_im, im, mim) is None:
        return [('C20/sqrt_neg/negative-real-axis-minus-zero', detail)]   # (z_i == 0) branch ignores the sign of the zero
    if not real_mode:
        q2 = x * x + y * y                      # the naive squared modulus, in doubles as the code forms it
        quad = math.sqrt(q2)
        if math.isinf(q2) or math.isinf(quad + abs(x)):
            if not (math.isfinite(g_re) and math.isfinite(g_im)):
                return [('C20/sqrt_neg/overflow-naive-modulus', detail)]
        elif q2 < DBL_MIN:
            mz = y == 0.0 and sgn(y) < 0      # combined with the negative-real-axis -0.0 family: sign of im not honoured

            def below(g, r):
                # lost (0), sqrt of a negative difference (NaN), or a few bits only
                return g == 0.0 or math.isnan(g) or ((sgn(g) == sgn(r) or mz) and math.isfinite(g) and abs(g) <= 2.0 * abs(r))
            if below(g_re, re) and below(g_im, im):
                return [('C20/sqrt_neg/underflow-naive-modulus', detail)]
        else:
            mod = math.hypot(re, im)
            big_ok = (pr is None) if abs(re) >= abs(im) else (pi_ is None)
            if mod > 0 and big_ok and math.isfinite(g_re) and math.isfinite(g_im) \
                    and math.hypot(g_re - re, g_im - im) <= SQRT_EPS_REL * mod:
                return [('C20/sqrt_neg/cancellation-sqrt-eps', detail)]
    return [('C20/sqrt_neg/value/other', detail)]


def run_sqrt_neg(c):
    import numpy as np
    from TidalPy.utilities.math.special import sqrt_neg
    f = c['f']
    x = fh(c['re'])
    if f == 'sqrt_neg':
        y = fh(c['im'])
        try:
            got = complex(sqrt_neg(complex(x, y)))
        except Exception as e:
            return _exc('C20/sqrt_neg', e, z=(x, y))
        ref = ref_csqrt(x, y)
        viol = classify_sqrt_neg(x, y, got, ref)
        meas = {}
        if not viol and ref[2] == 'u' and ref[3] == 'u':
            meas = dict(fn='sqrt_neg', ulp=max(ulp_err(got.real, ref[0]), ulp_err(got.imag, ref[1])))
        return dict(status='pass', viol=viol, obs=_obs(got), meas=meas)
    if f == 'sqrt_neg_real':
        try:
            got = complex(sqrt_neg(x, True))
        except Exception as e:
            return _exc('C20/sqrt_neg', e, x=x, is_real=True)
        ref = ref_csqrt(x, 0.0)
        return dict(status='pass', viol=classify_sqrt_neg(x, 0.0, got, ref, real_mode=True), obs=_obs(got))
    # row: one array call over the whole imaginary menu must equal the scalar calls element by element
    M = menu(bool(c.get('ext')))
    try:
        arr = sqrt_neg(np.array([complex(x, y) for y in M], dtype=np.complex128))
        sca = [complex(sqrt_neg(complex(x, y))) for y in M]
    except Exception as e:
        return _exc('C20/sqrt_neg', e, x=x, array=True)
    viol = []
    for y, a, s in zip(M, arr, sca):
        a = complex(a)
        if not (same_exact(a.real, s.real) and same_exact(a.imag, s.imag)):
            viol.append(('C20/sqrt_neg/array-vs-scalar', dict(z=(x, y), array=a, scalar=s)))
            break
    return dict(status='pass', viol=viol, obs=tuple(_obs(complex(a)) for a in arr))


def replay(case):
    return run_case(case)['viol']


def run(ctx):
    from mc.core import run_lattice
    cs = cases(ctx.tier, ctx.seed)
    res = run_lattice(
        ctx, 'mc.props.C20:run_case', cs,
        rule='every element of: {cf_csqrt,cf_clog,cf_cexp (C level), csqrt,clog,cexp (Python wrappers), hypot, sqrt_neg} x MENU(41) x '
             'MENU(41); cexp supplement 22x15 around the overflow / scaled-exp thresholds (both levels); scaled_cexp 7x15x2 with '
             'compensating exponents; sqrt_neg array rows and '
             'is_real mode on MENU; cipow: bases x every n in [-200,200]; cpow: bases x 40 exponents; double_factorial n=-2..302; '
             f'bases = {len(bases(ctx.tier))}; distinct = distinct returned values (bit patterns)',
        exhaustive=True, chunk=64, min_admitted_frac=0.5)
    worst = {}
    for r in res:
        m = r.get('meas') or {}
        if 'ulp' in m:
            worst[m['fn']] = max(worst.get(m['fn'], 0.0), m['ulp'])
        if 'scale' in m and m['scale'] > 0 and math.isfinite(m['err']):
            k = m['fn'] + ' err/S'
            worst[k] = max(worst.get(k, 0.0), m['err'] / max(m['scale'], POW_GROWTH_SMIN))
        if 'rel' in m and math.isfinite(m['rel']):
            worst['dfact rel'] = max(worst.get('dfact rel', 0.0), m['rel'])
    ctx.note('measured worst (passing cases: component ulp; pow: err in ulp of modulus / growth scale S; n!!: rel. err): '
             + ', '.join(f'{k}={v:.3g}' for k, v in sorted(worst.items())))
