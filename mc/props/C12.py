"""C12 -- homogeneous-body Love number helpers equal the closed form; l=2 helpers == general helpers;
quick_tidal_dissipation's love_number_by_orderl equals the closed form averaged over the forcing
frequencies of that degree; agreement with the layered solver on a uniform incompressible body.

E1 lattice: l in 2..7 x (mu, g, R, rho) menus x compliance from every legacy rheology x 5 frequencies,
scalar and array arguments.  Oracle: the closed form of the statement in plain complex arithmetic.
"""
import math

LEVEL = 'exploration'
ASSUMPTIONS = ['continuous parameters are decided on the stated grid only',
               'complex compliances J are taken from the legacy compliance functions themselves (C07 checks J)']

G = 6.67430e-11
TOL = 1e-12

MU = [1e3, 3.3e6, 5e9, 6.5e10, 1e13]
BODIES = [  # (R, rho)  g = 4/3 pi G rho R (self-consistent), plus two with independent g
    (1e5, 3500.0, None), (1.6e6, 1000.0, None), (6.371e6, 5515.0, None), (1e8, 8000.0, None),
    (1.8e6, 3000.0, 1.8), (7e7, 1300.0, 24.8)]
RHEOS = {'maxwell': (), 'voigt': (0.2, 0.02), 'burgers': (0.2, 0.02), 'andrade': (0.3, 1.0),
         'sundberg': (0.2, 0.02, 0.3, 1.0), 'elastic': (), 'newton': ()}
FREQS = [1e-9, 2.3e-7, 1e-5, 4.1e-4, 1e-1]
ETA = [1e14, 1e19, 1e24]


def m_l(l, mu, rho, g, R):
    return (2 * l * l + 4 * l + 3) * mu / (l * rho * g * R)


def k_closed(l, mu, rho, g, R, J):
    return 3.0 / (2.0 * (l - 1)) / (1.0 + m_l(l, mu, rho, g, R) / (J * mu))


def _seed_factor(seed):
    return [1.0, 1.07, 0.93, 1.31, 0.77, 1.9][seed % 6]


def cases(tier, seed):
    f = _seed_factor(seed)
    out = []
    mus = MU if tier == 'thorough' else MU[1:4]
    bodies = BODIES if tier == 'thorough' else BODIES[1:5]
    freqs = FREQS if tier == 'thorough' else FREQS[1:4]
    etas = ETA if tier == 'thorough' else ETA[1:2]
    for l in range(2, 8):
        for mu in mus:
            for (R, rho, g) in bodies:
                for rh in RHEOS:
                    for w in freqs:
                        for eta in etas:
                            out.append(dict(kind='helpers', l=l, mu=mu * f, R=R, rho=rho * f, g=g, rheo=rh, w=w, eta=eta))
    # quick_tidal_dissipation legs: circular, zero-obliquity, non-synchronous => frequencies |l-2p||n-s|
    for lmax in range(2, 8):
        for rh in RHEOS:
            if rh in ('elastic',):
                continue  # elastic: -Im k = 0 -> collapse_modes divides by zero (C10 finding); Love number leg uses others
            for (R, rho, g) in bodies[:3]:
                for mu in mus[:3]:
                    for spin_ratio in ([0.37, 2.63, -1.21] if tier == 'thorough' else [0.37, -1.21]):
                        out.append(dict(kind='quick', lmax=lmax, mu=mu * f, R=R, rho=rho * f, g=g, rheo=rh,
                                        eta=1e19, n=2.3e-5, spin_ratio=spin_ratio))
            # array-valued material inputs (shear modulus and viscosity arrays): element-wise equal to the scalar closed form
            (R, rho, g), mu = bodies[1], mus[1]
            out.append(dict(kind='quick', lmax=lmax, mu=mu * f, R=R, rho=rho * f, g=g, rheo=rh, eta=1e19, n=2.3e-5,
                            spin_ratio=0.37, arrays=True))
    return out


def _compliance(rh, w, mu, eta):
    from TidalPy.rheology.complex_compliance import known_models
    fn = known_models[rh]
    return complex(fn(float(w), 1.0 / mu, float(eta), *RHEOS[rh]))


def run_case(c):
    from mc import env
    env.tidalpy()
    import numpy as np
    from TidalPy.tides import (calc_complex_love, calc_complex_love_general, calc_effective_rigidity,
                               calc_effective_rigidity_general, calc_static_love, calc_static_love_general)
    viol = []
    R, rho = c['R'], c['rho']
    g = c['g'] if c['g'] is not None else 4.0 / 3.0 * math.pi * G * rho * R
    mu = c['mu']

    def bad(a, b, tol=TOL):
        a = complex(a); b = complex(b)
        if not (math.isfinite(a.real) and math.isfinite(a.imag)):
            return True
        return abs(a - b) > tol * max(abs(a), abs(b), 1e-300)

    if c['kind'] == 'helpers':
        l = c['l']
        J = _compliance(c['rheo'], c['w'], mu, c['eta'])
        ref_m = m_l(l, mu, rho, g, R)
        try:
            er_g = calc_effective_rigidity_general(mu, g, R, rho, order_l=l)
            mu_arr = np.array([mu, 2 * mu])
            er_ga = calc_effective_rigidity_general(mu_arr, g, R, rho, order_l=l)
            if mu_arr[0] != mu or mu_arr[1] != 2 * mu:
                viol.append(('C12/effective_rigidity_general/overwrites-array-argument', dict(l=l, after=mu_arr, before=[mu, 2 * mu])))
            if bad(er_g, ref_m):
                viol.append(('C12/effective_rigidity_general/closed-form', dict(l=l, got=er_g, want=ref_m,
                             buggy_form=(2 * l * l + 4 * l + 3 / l) * mu / (g * R * rho))))
            if bad(er_ga[0], er_g, 1e-15) or bad(er_ga[1], 2 * er_g, 1e-14):
                viol.append(('C12/effective_rigidity_general/array-vs-scalar', dict(l=l, got=er_ga, want=er_g)))
            if l == 2:
                er2 = calc_effective_rigidity(mu, g, R, rho)
                if bad(er2, ref_m):
                    viol.append(('C12/effective_rigidity/closed-form', dict(got=er2, want=ref_m)))
                if bad(er2, er_g):
                    viol.append(('C12/effective_rigidity/l2-vs-general', dict(l2=er2, general=er_g)))
            # complex Love helpers are tested on the *reference* effective rigidity (so each helper is judged alone)
            kg = calc_complex_love_general(J, mu, ref_m, order_l=l)
            want = k_closed(l, mu, rho, g, R, J)
            if bad(kg, want):
                viol.append(('C12/complex_love_general/closed-form', dict(l=l, got=kg, want=want)))
            J_arr, mu_arr2 = np.array([J, J]), np.array([mu, mu])
            kga = calc_complex_love_general(J_arr, mu_arr2, ref_m, order_l=l)
            if J_arr[0] != J or mu_arr2[1] != mu:
                viol.append(('C12/complex_love_general/overwrites-array-argument', dict(l=l)))
            if bad(kga[1], kg, 1e-15):
                viol.append(('C12/complex_love_general/array-vs-scalar', dict(l=l, got=kga, want=kg)))
            sg = calc_static_love_general(ref_m, order_l=l)
            if bad(sg, 3.0 / (2.0 * (l - 1)) / (1.0 + ref_m)):
                viol.append(('C12/static_love_general/closed-form', dict(l=l, got=sg)))
            if l == 2:
                k2 = calc_complex_love(J, mu, ref_m)
                if bad(k2, want):
                    viol.append(('C12/complex_love/closed-form', dict(got=k2, want=want)))
                if bad(k2, kg):
                    viol.append(('C12/complex_love/l2-vs-general', dict(l2=k2, general=kg)))
                s2 = calc_static_love(ref_m)
                if bad(s2, sg):
                    viol.append(('C12/static_love/l2-vs-general', dict(l2=s2, general=sg)))
            # composed, the way the library composes them: general helper fed with the library's own effective rigidity
            kcomp = calc_complex_love_general(J, mu, er_g, order_l=l)
            if bad(kcomp, want) and not bad(kg, want) and not bad(er_g, ref_m):
                viol.append(('C12/composition', dict(l=l, got=kcomp, want=want)))
        except Exception as e:
            viol.append((f'C12/helpers/exception/{type(e).__name__}', dict(msg=str(e)[:200])))
        return dict(status='pass', viol=viol, obs=(round(math.log10(abs(ref_m)), 6), l, c['rheo'], c['w'], c['eta']))

    # kind == 'quick'
    from TidalPy.toolbox.quick_tides import quick_tidal_dissipation
    lmax, n = c['lmax'], c['n']
    s = c['spin_ratio'] * n
    M = 4.0 / 3.0 * math.pi * R ** 3 * rho
    if c.get('arrays'):
        return _run_quick_arrays(c, R, rho, g, mu, M, n, s, bad)
    try:
        res = quick_tidal_dissipation(1.0e27, R, M, g, rho, 0.4 * M * R * R, viscosity=c['eta'], shear_modulus=mu,
                                      rheology=c['rheo'], complex_compliance_inputs=RHEOS[c['rheo']],
                                      eccentricity=0.0, obliquity=None, orbital_frequency=n, spin_frequency=s,
                                      max_tidal_order_l=lmax, eccentricity_truncation_lvl=2)
        loves = res['love_number_by_orderl']
        # forcing frequencies of each degree, from the library's own mode bookkeeping (that grouping is C10's subject)
        from TidalPy.tides.modes.mode_manipulation import find_mode_manipulators
        calc_terms, _, efunc, ifunc = find_mode_manipulators(max_order_l=lmax, eccentricity_truncation_lvl=2, use_obliquity=False)
        uf, terms = calc_terms(s, n, float(res['semi_major_axis']), R, efunc(0.0), ifunc(0.0), multiply_modes_by_sign=True)
        obs = []
        for l in range(2, lmax + 1):
            ws = [float(uf[sig]) for sig in uf if l in terms[sig]]
            want = sum(k_closed(l, mu, rho, g, R, _compliance(c['rheo'], w, mu, c['eta'])) for w in ws) / len(ws)
            got = complex(loves[l])
            obs.append(round(abs(got), 9))
            if bad(got, want, 1e-11):
                viol.append(('C12/quick_tidal_dissipation/love_number_by_orderl', dict(l=l, got=got, want=want, freqs=ws)))
                break
        if sorted(loves.keys()) != list(range(2, lmax + 1)):
            viol.append(('C12/quick_tidal_dissipation/love-keys', dict(keys=sorted(loves.keys()), lmax=lmax)))
    except Exception as e:
        viol.append((f'C12/quick/exception/{type(e).__name__}', dict(msg=str(e)[:200])))
        obs = None
    return dict(status='pass', viol=viol, obs=(obs, c['rheo'], lmax, c['spin_ratio']))


def _run_quick_arrays(c, R, rho, g, mu, M, n, s, bad):
    import numpy as np
    from TidalPy.toolbox.quick_tides import quick_tidal_dissipation
    from TidalPy.tides.modes.mode_manipulation import find_mode_manipulators
    viol, lmax = [], c['lmax']
    mus = np.array([mu, 2.0 * mu, 0.5 * mu])
    etas = np.array([c['eta'], 10.0 * c['eta'], 0.1 * c['eta']])
    mus0, etas0 = mus.copy(), etas.copy()
    obs = None
    try:
        res = quick_tidal_dissipation(1.0e27, R, M, g, rho, 0.4 * M * R * R, viscosity=etas, shear_modulus=mus,
                                      rheology=c['rheo'], complex_compliance_inputs=RHEOS[c['rheo']],
                                      eccentricity=0.0, obliquity=None, orbital_frequency=n, spin_frequency=s,
                                      max_tidal_order_l=lmax, eccentricity_truncation_lvl=2)
        if not (np.array_equal(mus, mus0) and np.array_equal(etas, etas0)):
            viol.append(('C12/quick_tidal_dissipation/overwrites-array-argument', dict(mu_after=mus, mu_before=mus0)))
        loves = res['love_number_by_orderl']
        calc_terms, _, efunc, ifunc = find_mode_manipulators(max_order_l=lmax, eccentricity_truncation_lvl=2, use_obliquity=False)
        uf, terms = calc_terms(s, n, float(np.asarray(res['semi_major_axis']).ravel()[0]), R, efunc(0.0), ifunc(0.0), multiply_modes_by_sign=True)
        obs = []
        for l in range(2, lmax + 1):
            ws = [float(uf[sig]) for sig in uf if l in terms[sig]]
            got = np.asarray(loves[l])
            if got.shape != (3,):
                viol.append(('C12/quick_tidal_dissipation/array-shape', dict(l=l, shape=got.shape)))
                break
            for i in range(3):
                want = sum(k_closed(l, float(mus0[i]), rho, g, R, _compliance(c['rheo'], w, float(mus0[i]), float(etas0[i]))) for w in ws) / len(ws)
                if bad(got[i], want, 1e-11):
                    viol.append(('C12/quick_tidal_dissipation/love_number_by_orderl/array-inputs', dict(l=l, element=i, got=got[i], want=want)))
                    break
            obs.append(round(float(abs(got[0])), 9))
    except Exception as e:
        viol.append((f'C12/quick-arrays/exception/{type(e).__name__}', dict(msg=str(e)[:200])))
    return dict(status='pass', viol=viol, obs=('arrays', obs, c['rheo'], lmax))


def replay(case):
    if case.get('kind') == 'solver':
        from . import C12_solver
        return C12_solver.replay(case)
    return run_case(case)['viol']


def run(ctx):
    from mc.core import run_lattice
    cs = cases(ctx.tier, ctx.seed)
    run_lattice(ctx, 'mc.props.C12:run_case', cs,
                rule='full product l(2..7) x mu x body(R,rho,g) x rheology(7 legacy compliance laws) x frequency x viscosity '
                     'for the six helper functions (scalar+array), plus quick_tidal_dissipation at e=0, obliquity off, '
                     'non-synchronous spin for l_max 2..7; distinct = distinct (log10 m_l, l, rheology, w, eta) / '
                     'distinct returned Love-number tuples',
                exhaustive=True)
    # cross-module leg: the helpers' k_l vs the layered radial solver on the same uniform incompressible body
    from . import C12_solver
    C12_solver.run(ctx)
