"""C16 -- world construction keeps geometry / mass bookkeeping consistent; derivation chains terminate,
never mutate their inputs and yield a distinct name.

Part 1 (E1 lattice, real build_world):
  * every shipped non-BurnMan world configuration found in the world directory TidalPy reads at run time
    (file-stem keys and config-name keys of the module-level known-worlds table),
  * a generated family of layered configurations:
      number of layers 1..6  x  layer-type pattern over {iron, rock, ice} (quick: the 83 monotone patterns,
      thorough: all 1092)  x  radius partition (menu of 5 shapes)  x  how the geometry is specified
      {radius, thickness, mixed with the top layer left to the world radius}  x  how mass is specified
      {layer density (world mass derived), layer mass (world mass derived), world mass + layer mass fractions,
      world mass given but inconsistent with the layer densities (the shipped Nereid pattern)}  x  slices {10, 40};
      the slices-10 member of every configuration is additionally radius-scaled once (scale_from_world, factor rotating
      over {0.1, 0.5, 2, 10}) and checked like a scaling step of part 2.
  Oracle: the invariants of the statement, evaluated with plain numpy on the built object, plus the boring reference
  model of the configuration itself (layer k's outer radius / thickness / mass are those the configuration asks for).

Part 2 (E2 history BFS, real build_from_world / scale_from_world / build_world):
  chains of derivations from 3 shipped roots (Io_Simple by config name; earth_simple by file stem, so that world.name differs
  from config['name']; nereid_dev, one layer with an explicit world mass).  Alphabet (11): build_from_world(w, {}),
  (w, {name: w.name}), (w, {name: w.config['name']}), (w, {name: new}), (w, {}, new_name=w.name), (w, cfg_delta),
  scale_from_world(w, s) for s in {0.1, 0.5, 2, 10}, build_world(root) again.  All histories to depth 3, thorough: then
  canonical-state BFS to depth 5.  Every operation runs under a deterministic step budget (sys.settrace line counter over
  TidalPy frames, private BaseException) so that non-termination is a reported outcome, never a hung checker.
  Invariants per operation: parent world (configuration and every geometry number), new_config argument and the module-level
  known-worlds table unchanged; name differs from the parent's; scaling multiplies every length by s and preserves volume
  fractions; all build invariants on the result; re-building the root gives a world equal (deep fingerprint) to the first build.
"""
import copy
import math
import os
import re
import sys

import numpy as np

from mc import histories

LEVEL = 'model_checking'
ASSUMPTIONS = [
    'builds: the stated finite lattice of configurations only (layer types iron/rock/ice with the library defaults, '
    '4 world radii, one density per layer type scaled by a seed factor); BurnMan worlds are out of scope',
    'chains: operations and values of the stated alphabet only, bounded depth (see coverage); a chain state is the '
    'current world (name, canonical configuration, all geometry numbers of world and layers) plus the module-level known-worlds table',
    'termination is decided by a step budget of 3e5 traced TidalPy source lines per operation (every terminating operation '
    'of the explored space executes < 3e4, enforced on every run); loops inside compiled / third-party code are not counted',
    'the mass-sum clause is asserted only when the configuration gives no explicit world mass',
]

G = 6.67430e-11
STEP_BUDGET = 300_000

# tolerances (relative to the natural scale given in the comment); measured pristine worst cases are recorded in
# coverage['measured_worst'] on every run (see the builder's report for the calibration table)
TOL_LEN = 1e-12        # lengths, relative to the world radius            (measured worst 8.2e-17)
TOL_VOL = 1e-12        # volumes, relative to the world volume            (measured worst 1.8e-16)
TOL_G = 1e-12          # surface gravity, relative                        (measured worst 0: same expression)
TOL_MASS = 1e-11       # mass sums, relative to the largest mass involved (measured worst 1.7e-15)
TOL_MONO = 1e-13       # allowed *decrease* of enclosed mass, relative to the largest mass involved (measured worst 0)
TOL_SCALE = 1e-12      # |scaled length - s * old length| / (s * old world radius)   (measured worst 3.7e-16)
TOL_FRAC = 1e-12       # volume fraction difference (absolute)            (measured worst 4.9e-16)


# ----------------------------------------------------------------------------------------------------------------
# invariants of the statement on one built world
# ----------------------------------------------------------------------------------------------------------------
def _f(x):
    return None if x is None else float(x)


def build_invariants(w, mass_is_derived, meas=None):
    """-> [(what, detail)] for every clause of the statement that fails on world w.  `meas` collects worst deviations."""
    out = []
    meas = meas if meas is not None else {}

    def m(key, val):
        val = float(val)
        if not (val <= meas.get(key, 0.0)):      # also records NaN
            meas[key] = val

    R, M, V = _f(w.radius), _f(w.mass), _f(w.volume)
    if R is None or M is None or not (R > 0) or not math.isfinite(R) or not math.isfinite(M):
        return [('geometry-missing', dict(radius=R, mass=M))]
    layers = list(getattr(w, 'layers', ()) or ())
    if layers:
        prev = 0.0
        for L in layers:
            d = abs(float(L.radius_inner) - prev) / R
            m('contiguity', d)
            if not d <= TOL_LEN:
                out.append(('contiguity', dict(layer=L.name, radius_inner=float(L.radius_inner), radius_below=prev)))
            d = abs((float(L.radius) - float(L.radius_inner)) - float(L.thickness)) / R
            m('contiguity', d)
            if not d <= TOL_LEN:
                out.append(('contiguity', dict(layer=L.name, radius=float(L.radius), radius_inner=float(L.radius_inner),
                                               thickness=float(L.thickness))))
            if not float(L.radius) > prev:
                out.append(('contiguity', dict(layer=L.name, radius=float(L.radius), radius_below=prev, why='not above the layer below')))
            prev = float(L.radius)
        d = abs(prev - R) / R
        m('top-radius', d)
        if not d <= TOL_LEN:
            out.append(('top-radius', dict(top=prev, world_radius=R)))
        vs = math.fsum(float(L.volume) for L in layers)
        d = abs(vs - V) / V
        m('volume-sum', d)
        if not d <= TOL_VOL:
            out.append(('volume-sum', dict(sum_layers=vs, world=V)))
        ms = math.fsum(float(L.mass) for L in layers)
        if mass_is_derived:
            d = abs(ms - M) / M
            m('mass-sum', d)
            if not d <= TOL_MASS:
                out.append(('mass-sum', dict(sum_layers=ms, world=M)))
    d = abs(V - 4.0 / 3.0 * math.pi * R ** 3) / V
    m('world-volume', d)
    if not d <= TOL_VOL:
        out.append(('world-volume', dict(volume=V, radius=R)))
    radii = getattr(w, 'radii', None)
    if radii is not None:
        r = np.asarray(radii, dtype=float)
        if r.ndim != 1 or r.size == 0 or not np.all(np.isfinite(r)) or not np.all(np.diff(r) > 0) or not r[0] > 0:
            bad = int(np.sum(~(np.diff(r) > 0))) if r.ndim == 1 else -1
            out.append(('radii-not-increasing', dict(n_bad_steps=bad, size=int(r.size))))
        else:
            d = abs(r[-1] - R) / R
            m('radii-top', d)
            if not d <= TOL_LEN:
                out.append(('radii-top', dict(last=float(r[-1]), world_radius=R)))
            if layers:
                want = sum(int(L.num_slices) for L in layers)
                if r.size != want:
                    out.append(('radii-count', dict(size=int(r.size), sum_layer_slices=want)))
    elif layers:
        out.append(('radii-missing', {}))
    go = getattr(w, 'gravity_outer', None)
    if go is None:
        out.append(('gravity-missing', {}))
    else:
        want = G * M / R ** 2
        d = abs(float(go) - want) / want if want > 0 else abs(float(go))
        m('gravity', d)
        if not d <= TOL_G:
            out.append(('gravity', dict(gravity_outer=float(go), GM_over_R2=want)))
        gs = getattr(w, 'gravity_surface', None)
        if gs is not None and float(gs) != float(go):
            out.append(('gravity', dict(gravity_surface=float(gs), gravity_outer=float(go), why='aliases differ')))
    mb = getattr(w, 'mass_below_slices', None)
    if mb is not None:
        e = np.asarray(mb, dtype=float)
        if e.ndim != 1 or not np.all(np.isfinite(e)):
            out.append(('enclosed-mass', dict(why='not a finite 1-d array')))
        else:
            top = math.fsum(float(L.mass) for L in layers) if layers else M
            mscale = max(M, top, float(e[-1]))
            dec = float(np.max(np.maximum(0.0, -np.diff(e)))) / mscale if e.size > 1 else 0.0
            m('enclosed-mass-decrease', dec)
            if not dec <= TOL_MONO or not e[0] >= 0:
                i = int(np.argmax(-np.diff(e))) if e.size > 1 else 0
                out.append(('enclosed-mass', dict(why='decreases', index=i, before=float(e[i]), after=float(e[min(i + 1, e.size - 1)]))))
            if radii is not None and e.size != np.asarray(radii).size:
                out.append(('enclosed-mass', dict(why='length differs from radii', n=int(e.size))))
            # enclosed mass at the top of the body = sum of the masses below it (layer masses; world mass when derived)
            d = abs(float(e[-1]) - top) / mscale
            m('enclosed-mass-top', d)
            if not d <= TOL_MASS:
                out.append(('enclosed-mass', dict(why='top value differs from the mass below the surface', top=float(e[-1]), want=top)))
    elif layers:
        out.append(('enclosed-mass', dict(why='missing')))
    return out


# ----------------------------------------------------------------------------------------------------------------
# Part 1: generated family
# ----------------------------------------------------------------------------------------------------------------
TYPES = ('iron', 'rock', 'ice')
DENSITY = {'iron': 8000.0, 'rock': 3300.0, 'ice': 950.0}
SHAPES = ('eqthick', 'eqvol', 'thincrust', 'tinycore', 'thinshells')
STYLES = ('radius', 'thickness', 'mixed')
MASSMODES = ('density', 'layer_mass', 'world_mass_frac', 'world_mass_inconsistent')
SLICES = (10, 40)
RMENU = (1.0e5, 1.82149e6, 6.371e6, 7.1492e7)
SEEDF = (1.0, 1.07, 0.93, 1.31, 0.77, 1.9)


def fractions(shape, n):
    if shape == 'eqthick':
        f = [(k + 1) / n for k in range(n)]
    elif shape == 'eqvol':
        f = [((k + 1) / n) ** (1.0 / 3.0) for k in range(n)]
    elif shape == 'thincrust':
        f = [(1.0 - 2.0 ** -(k + 1)) / (1.0 - 2.0 ** -n) for k in range(n)]
    elif shape == 'tinycore':
        f = [1e-3 + (1.0 - 1e-3) * k / (n - 1) for k in range(n)] if n > 1 else [1.0]
    elif shape == 'thinshells':
        f = [1.0 - (n - 1 - k) * 1e-4 for k in range(n)]
    else:
        raise ValueError(shape)
    f[-1] = 1.0
    return f


def gen_cases(tier, seed):
    import itertools
    out = []
    for n in range(1, 7):
        pats = list(itertools.product(range(3), repeat=n))
        if tier != 'thorough':
            pats = [p for p in pats if all(a <= b for a, b in zip(p, p[1:]))]
        shapes, seen = [], set()
        for s in SHAPES:
            key = tuple(round(x, 15) for x in fractions(s, n))
            if key not in seen:
                seen.add(key)
                shapes.append(s)
        for p in pats:
            for si, s in enumerate(shapes):
                for style in STYLES:
                    if n == 1 and style == 'mixed':
                        continue        # a single layer with neither radius nor thickness is not a valid configuration
                    for mm in MASSMODES:
                        for sl in SLICES:
                            # the slices-10 member of every configuration is additionally radius-scaled once (factor rotates)
                            sc = (0.1, 0.5, 2.0, 10.0)[(len(out) // 2 + seed) % 4] if sl == SLICES[0] else None
                            out.append(dict(kind='gen', n=n, types=[TYPES[i] for i in p], shape=s, style=style, massmode=mm,
                                            slices=sl, R=RMENU[(si + n + seed) % len(RMENU)], f=SEEDF[seed % len(SEEDF)], scale=sc))
    return out


def gen_config(c):
    """-> (config dict for build_world, reference model dict) -- the reference is plain float arithmetic on the case."""
    n, R = c['n'], c['R']
    fr = fractions(c['shape'], n)
    outer = [R * x for x in fr]
    outer[-1] = R
    layers = {}
    ref_layers = []
    below = 0.0
    masses = []
    for k in range(n):
        t = c['types'][k]
        rho = DENSITY[t] * c['f']
        thick = outer[k] - below
        name = f'L{k}_{t}'
        lc = {'type': t, 'is_tidal': t != 'iron', 'slices': c['slices']}
        use_radius = c['style'] == 'radius' or (c['style'] == 'mixed' and k % 2 == 1 and k != n - 1)
        use_thick = c['style'] == 'thickness' or (c['style'] == 'mixed' and k % 2 == 0 and k != n - 1)
        if use_radius:
            lc['radius'] = outer[k]
            r_out = outer[k]
        elif use_thick:
            lc['thickness'] = thick
            r_out = below + thick if k else thick
        else:                              # mixed style, top layer: nothing given -> world radius
            r_out = R
        vol = 4.0 / 3.0 * math.pi * (r_out ** 3 - below ** 3)
        mass = rho * vol
        masses.append(mass)
        ref_layers.append(dict(name=name, radius=r_out, radius_inner=below, mass=mass, volume=vol))
        layers[name] = lc
        below = r_out
    total = math.fsum(masses)
    cfg = {'name': 'Gen', 'type': 'layered', 'radius': R, 'layers': layers}
    derived = True
    world_mass = total
    for k, (name, lc) in enumerate(layers.items()):
        rho = DENSITY[c['types'][k]] * c['f']
        if c['massmode'] == 'density':
            lc['density'] = rho
        elif c['massmode'] == 'layer_mass':
            lc['mass'] = masses[k]
        elif c['massmode'] == 'world_mass_frac':
            lc['mass_frac'] = masses[k] / total
            ref_layers[k]['mass'] = total * (masses[k] / total)
        else:
            lc['density'] = rho
    if c['massmode'] == 'world_mass_frac':
        cfg['mass'] = total
        derived = False
    elif c['massmode'] == 'world_mass_inconsistent':
        world_mass = 0.85 * total
        cfg['mass'] = world_mass
        derived = False
    return cfg, dict(layers=ref_layers, mass=world_mass, derived=derived, radius=R)


def _canon(x):
    """order-insensitive, value-based canonical form of a configuration-like structure"""
    if isinstance(x, dict):
        return ('d', tuple(sorted((str(k), _canon(v)) for k, v in x.items())))
    if isinstance(x, (list, tuple)):
        return ('l', tuple(_canon(v) for v in x))
    if isinstance(x, np.ndarray):
        return ('a', x.shape, tuple(repr(float(v)) for v in x.ravel().tolist()))
    if isinstance(x, (float, np.floating)):
        return repr(float(x))
    if isinstance(x, (bool, np.bool_)):
        return bool(x)
    if isinstance(x, (int, np.integer)):
        return int(x)
    if x is None or isinstance(x, str):
        return x
    return ('o', type(x).__name__, repr(x)[:80])


FP_SKIP = ()


def _fp(w):
    return histories.digest(histories.fingerprint(w, skip_attrs=FP_SKIP, digits=15))


def _shipped_names():
    """(non-BurnMan keys of the known-worlds table, file stems in the world directory TidalPy reads)"""
    from mc import env
    env.tidalpy()
    from TidalPy.paths import get_worlds_dir
    from TidalPy.structures.world_builder.config_handler import get_world_configs
    d = get_worlds_dir()
    stems = sorted(os.path.splitext(f)[0] for f in os.listdir(d) if f.endswith('.toml'))
    table = get_world_configs()
    names = sorted(k for k, v in table.items() if str(v.get('type', '')).lower() != 'burnman')
    return names, stems, sorted(table)


def run_case(c):
    from mc import env
    env.tidalpy()
    from TidalPy.structures import build_world
    from TidalPy.structures.world_builder import config_handler
    viol, meas = [], {}
    if c['kind'] == 'shipped':
        name = c['name']
        table = config_handler.get_world_configs()
        before = _canon(table)
        entry = table[name]
        outs = [run_budgeted(lambda: build_world(name)) for _ in range(2)]
        for st, res, _n in outs:
            if st == 'budget':
                return dict(status='pass', viol=[('C16/build/shipped/non-termination', dict(name=name, where=res))], obs=('budget', name))
            if st == 'exc':
                return dict(status='pass', viol=[(f'C16/build/shipped/exception/{type(res).__name__}', dict(name=name, msg=str(res)[:200]))],
                            obs=('exc', name))
        w, w2 = outs[0][1], outs[1][1]
        derived = 'mass' not in entry
        for what, det in build_invariants(w, derived, meas):
            viol.append((f'C16/build/shipped/{what}', dict(name=name, **det)))
        if _fp(w) != _fp(w2):
            viol.append(('C16/build/shipped/rebuild-differs', dict(name=name)))
        if _canon(config_handler.get_world_configs()) != before:
            viol.append(('C16/build/shipped/mutates-known-worlds-table', dict(name=name)))
        if w.config is entry or any(v is entry.get(k) for k, v in w.config.items() if isinstance(v, (dict, list))):
            viol.append(('C16/build/shipped/config-aliases-known-worlds-table', dict(name=name)))
        obs = (name.lower(), type(w).__name__, repr(float(w.radius)), repr(float(w.mass)), len(getattr(w, 'layers', ()) or ()))
        return dict(status='pass', viol=viol, obs=obs, meas=meas)
    # generated
    cfg, ref = gen_config(c)
    cfg_before = _canon(cfg)
    st, res, _n = run_budgeted(lambda: build_world('Gen', cfg))
    if st == 'budget':
        return dict(status='pass', viol=[('C16/build/generated/non-termination', dict(where=res))], obs=('budget',))
    if st == 'exc':
        return dict(status='pass', viol=[(f'C16/build/generated/exception/{type(res).__name__}', dict(msg=str(res)[:200]))], obs=('exc',))
    w = res
    for what, det in build_invariants(w, ref['derived'], meas):
        viol.append((f'C16/build/generated/{what}', det))
    if _canon(cfg) != cfg_before:
        viol.append(('C16/build/generated/mutates-world_config-argument', {}))
    # reference model of the configuration
    R = ref['radius']
    bad = []
    if len(w.layers) != len(ref['layers']):
        bad.append(('n_layers', len(w.layers), len(ref['layers'])))
    else:
        for L, rl in zip(w.layers, ref['layers']):
            for attr, scale, tol in (('radius', R, TOL_LEN), ('radius_inner', R, TOL_LEN), ('mass', ref['mass'], TOL_MASS),
                                     ('volume', 4.0 / 3.0 * math.pi * R ** 3, TOL_VOL)):
                d = abs(float(getattr(L, attr)) - rl[attr]) / scale
                if not d <= meas.get('config-' + attr, 0.0):
                    meas['config-' + attr] = d
                if not d <= tol:
                    bad.append((L.name, attr, float(getattr(L, attr)), rl[attr]))
            if L.name != rl['name'] or int(L.num_slices) != c['slices']:
                bad.append((L.name, 'name/slices', int(L.num_slices), c['slices']))
    d = abs(float(w.mass) - ref['mass']) / ref['mass']
    if not d <= meas.get('config-world-mass', 0.0):
        meas['config-world-mass'] = d
    if not d <= TOL_MASS:
        bad.append(('world', 'mass', float(w.mass), ref['mass']))
    if float(w.radius) != R:
        bad.append(('world', 'radius', float(w.radius), R))
    if bad:
        viol.append(('C16/build/generated/differs-from-configuration', dict(first=bad[0], n=len(bad))))
    obs = (c['n'], tuple(c['types']), c['shape'], c['slices'], repr(float(w.mass)), tuple(repr(float(L.radius)) for L in w.layers))
    if c.get('scale') is not None:
        viol.extend(_scale_leg(w, float(c['scale']), meas))
        obs = obs + (c['scale'],)
    return dict(status='pass', viol=viol, obs=obs, meas=meas)


def _scale_leg(w, s, meas):
    """scale_from_world(w, radius_scale=s) on a freshly built generated world: terminates, inputs untouched, distinct name, every
    length x s, volume fractions preserved, build invariants on the result."""
    from TidalPy.structures import scale_from_world
    viol = []
    snap = _snapshot(w)
    geo = _geometry(w)
    st, res, nlines = run_budgeted(lambda: scale_from_world(w, radius_scale=s))
    if st == 'budget':
        return [(f'C16/scale_from_world/non-termination/{_classify_hang(res, w)}', dict(scale=s, where=res))]
    if st == 'exc':
        cls = type(res).__name__
        if isinstance(res, KeyError) and res.args == ('radius',) and any('radius' not in lc for lc in w.config['layers'].values()):
            cls = 'KeyError/layer-configured-without-radius'       # narrow signature of the known defect
        return [(f'C16/scale_from_world/exception/{cls}', dict(scale=s, msg=str(res)[:200],
                                                                 layer_config_keys={k: sorted(x for x in v if x in ('radius', 'thickness'))
                                                                                    for k, v in w.config['layers'].items()}))]
    if nlines * 10 > STEP_BUDGET:
        raise RuntimeError(f'step budget margin lost: scale_from_world executed {nlines} traced lines (budget {STEP_BUDGET})')
    new = res
    if _snapshot(w) != snap:
        viol.append(('C16/scale_from_world/mutates-parent-world', dict(scale=s, config_changed=_canon(w.config) != snap[1])))
    if new.name == w.name:
        viol.append(('C16/scale_from_world/name-not-distinct/other', dict(scale=s, name=new.name)))
    bad = _scale_check(geo, _geometry(new), s, meas)
    if bad:
        viol.append(('C16/scale_from_world/lengths-or-volume-fractions', dict(scale=s, first=bad[0], n=len(bad))))
    for what, det in build_invariants(new, _derived(new), meas):
        viol.append((f'C16/scale_from_world/result/{what}', dict(scale=s, **det)))
    return viol


# ----------------------------------------------------------------------------------------------------------------
# Part 2: derivation chains
# ----------------------------------------------------------------------------------------------------------------
ROOTS = ('Io_Simple', 'earth_simple', 'nereid_dev')      # by config name / by file stem (name != config name) / one layer, explicit mass
SCALES = (0.1, 0.5, 2.0, 10.0)
OPS = ('D:empty', 'D:name=same', 'D:name=same-as-config', 'D:name=new', 'D:arg=same', 'D:delta',
       'S:0.1', 'S:0.5', 'S:2', 'S:10', 'R:rebuild')


class _Budget(BaseException):
    """private: step budget exhausted (BaseException so that `except Exception` in the code under test cannot eat it)"""


def run_budgeted(fn, budget=STEP_BUDGET):
    """Run fn() counting executed source lines of TidalPy frames. -> ('ok', result, n) | ('exc', exception, n) |
    ('budget', where, n) where `where` describes the frame that was executing when the budget ran out."""
    from mc import env
    root = os.path.join(os.path.realpath(env.REPO), 'TidalPy') + os.sep
    st = {'n': 0, 'where': None}
    cache = {}

    def local(frame, event, arg):
        if event == 'line':
            st['n'] += 1
            if st['n'] > budget:
                loc = {}
                for k, v in frame.f_locals.items():
                    if isinstance(v, (str, int, float, bool)) or v is None:
                        loc[k] = v
                st['where'] = dict(file=os.path.relpath(frame.f_code.co_filename, root), function=frame.f_code.co_name,
                                   line=frame.f_lineno, locals=loc)
                raise _Budget()
        return local

    def glob(frame, event, arg):
        fn_ = frame.f_code.co_filename
        hit = cache.get(fn_)
        if hit is None:
            hit = cache[fn_] = os.path.realpath(fn_).startswith(root)
        return local if hit else None

    old = sys.gettrace()
    sys.settrace(glob)
    try:
        r = fn()
        return ('ok', r, st['n'])
    except _Budget:
        return ('budget', st['where'], st['n'])
    except Exception as e:     # noqa: BLE001 -- every exception of the code under test is an outcome
        return ('exc', e, st['n'])
    finally:
        sys.settrace(old)


def _classify_hang(where, parent):
    """narrow signature of the known variant-name loop: spinning inside build_from_world with the candidate name equal
    to the (already numbered) variant name it is supposed to differ from, counter stuck at 2."""
    loc = (where or {}).get('locals', {})
    if (where or {}).get('function') == 'build_from_world' and str((where or {}).get('file', '')).endswith('world_builder.py') \
            and loc.get('i') == 2 and loc.get('new_variant_name') is not None and loc.get('new_variant_name') == loc.get('new_name') \
            and re.search(r'_variant_2$', str(parent.config.get('name', ''))):
        return 'variant-name-loop'
    return 'other'


def _top_layer_name(w):
    return list(w.config['layers'])[-1]


def _apply(op, w, root, hist_len):
    """-> (callable performing the real operation, new_config argument or None, kind, scale or None)"""
    from TidalPy.structures import build_world, build_from_world, scale_from_world
    if op == 'D:empty':
        nc = {}
        return (lambda: build_from_world(w, nc)), nc, 'derive', None
    if op == 'D:name=same':
        nc = {'name': w.name}
        return (lambda: build_from_world(w, nc)), nc, 'derive', None
    if op == 'D:name=same-as-config':
        nc = {'name': w.config['name']}
        return (lambda: build_from_world(w, nc)), nc, 'derive', None
    if op == 'D:name=new':
        nc = {'name': f'Fresh{hist_len}' if w.name != f'Fresh{hist_len}' else f'Fresh{hist_len}b'}
        return (lambda: build_from_world(w, nc)), nc, 'derive', None
    if op == 'D:arg=same':
        nc = {}
        return (lambda: build_from_world(w, nc, new_name=w.name)), nc, 'derive', None
    if op == 'D:delta':
        top = _top_layer_name(w)
        nc = {'albedo': 0.41, 'layers': {top: {'slices': 17, 'thermal_conductivity': 3.1}}, 'tides': {'eccentricity_truncation_lvl': 4}}
        return (lambda: build_from_world(w, nc)), nc, 'derive', None
    if op.startswith('S:'):
        s = float(op[2:])
        return (lambda: scale_from_world(w, radius_scale=s)), None, 'scale', s
    if op == 'R:rebuild':
        return (lambda: build_world(root)), None, 'rebuild', None
    raise KeyError(op)


_TABLE0 = None


def _reset_table():
    """every replay starts from the pristine module-level known-worlds table (same dict object, pristine content)"""
    global _TABLE0
    from TidalPy.structures.world_builder import config_handler
    t = config_handler.get_world_configs()
    if _TABLE0 is None:
        _TABLE0 = copy.deepcopy(t)
    elif _canon(t) != _canon(_TABLE0):
        fresh = copy.deepcopy(_TABLE0)
        t.clear()
        t.update(fresh)
    return t


def _derived(w):
    return 'mass' not in w.config or w.config.get('mass') is None


def _snapshot(w):
    """cheap, complete-enough value snapshot of a world as an *input*: its configuration (deep, canonical), its name and
    every number of its geometry (world and layers); used to decide that a derivation left the parent untouched."""
    layers = list(getattr(w, 'layers', ()) or ())

    def arr(a):
        return None if a is None else np.asarray(a, dtype=float).tobytes()
    return (w.name, _canon(w.config), repr(_f(w.radius)), repr(_f(w.mass)), repr(_f(w.volume)), repr(_f(w.gravity_outer)),
            arr(w.radii), arr(w.mass_below_slices), arr(getattr(w, 'gravity_slices', None)), arr(getattr(w, 'pressure_slices', None)),
            tuple((L.name, _canon(L.config), repr(_f(L.radius)), repr(_f(L.thickness)), repr(_f(L.mass)), repr(_f(L.mass_below)),
                   arr(L.radii), arr(L.mass_below_slices)) for L in layers),
            w.orbit is None, id(w.config), tuple(id(L) for L in layers))


def explore(task):
    from mc import env
    env.tidalpy()
    from TidalPy.structures import build_world
    root, history = task['config'], task['history']
    table = _reset_table()
    table0 = _canon(table)
    viol = []
    meas = {}
    st, w, nlines = run_budgeted(lambda: build_world(root))
    if st != 'ok':
        raise RuntimeError(f'root {root} does not build: {st} {w}')
    root_fp = _fp(w) if 'R:rebuild' in history else None
    names = [w.name]
    lines_max = nlines
    table_ok = True
    for i, op in enumerate(history):
        parent = w
        fn, nc, kind, s = _apply(op, parent, root, i)
        nc_before = copy.deepcopy(nc)
        psnap = _snapshot(parent)
        pgeo = _geometry(parent) if kind == 'scale' else None
        st, res, nlines = run_budgeted(fn)
        opfam = {'derive': 'build_from_world', 'scale': 'scale_from_world', 'rebuild': 'build_world'}[kind]
        if st == 'budget':
            cls = _classify_hang(res, parent)
            viol.append((f'C16/{opfam}/non-termination/{cls}',
                         dict(op=op, step=i, budget_lines=STEP_BUDGET, where=res, parent_name=parent.name,
                              parent_config_name=parent.config.get('name'), chain_names=names)))
            return dict(key=None, viol=viol, obs=('budget', cls, op), exc=('budget', i), meas=meas)
        if st == 'exc':
            viol.append((f'C16/{opfam}/exception/{type(res).__name__}', dict(op=op, step=i, msg=str(res)[:200], chain_names=names)))
            return dict(key=None, viol=viol, obs=('exc', type(res).__name__, op), exc=('exc', i), meas=meas)
        if nlines * 10 > STEP_BUDGET:       # keeps the 10x margin between terminating operations and the budget honest
            raise RuntimeError(f'step budget margin lost: terminating operation {op} executed {nlines} traced lines (budget {STEP_BUDGET})')
        lines_max = max(lines_max, nlines)
        new = res
        last = i == len(history) - 1
        # --- inputs unchanged: parent world (configuration + geometry), new_config argument, module-level table
        if _snapshot(parent) != psnap:
            viol.append((f'C16/{opfam}/mutates-parent-world', dict(op=op, step=i, config_changed=_canon(parent.config) != psnap[1])))
        if nc is not None and _canon(nc) != _canon(nc_before):
            viol.append((f'C16/{opfam}/mutates-new_config', dict(op=op, step=i, before=nc_before, after=nc)))
        if _canon(table) != table0:
            table_ok = False
            viol.append((f'C16/{opfam}/mutates-known-worlds-table', dict(op=op, step=i)))
        # --- distinct name
        if kind in ('derive', 'scale') and new.name == parent.name:
            cls = 'other'
            if kind == 'derive' and parent.name != parent.config.get('name') and op in ('D:name=same', 'D:arg=same'):
                cls = 'requested-name-equals-world-name-but-not-config-name'
            viol.append((f'C16/{opfam}/name-not-distinct/{cls}',
                         dict(op=op, step=i, parent_name=parent.name, parent_config_name=parent.config.get('name'), new_name=new.name)))
        if kind in ('derive', 'scale') and new.config.get('name') != new.name:
            viol.append((f'C16/{opfam}/name-differs-from-config-name', dict(op=op, name=new.name, config_name=new.config.get('name'))))
        # --- scaling
        if kind == 'scale':
            bad = _scale_check(pgeo, _geometry(new), s, meas)
            if bad:
                viol.append(('C16/scale_from_world/lengths-or-volume-fractions', dict(op=op, step=i, scale=s, first=bad[0], n=len(bad))))
        # --- rebuild equals the first build (deep fingerprint of every reachable attribute)
        if kind == 'rebuild' and _fp(new) != root_fp:
            viol.append(('C16/build_world/rebuild-differs', dict(op=op, step=i, root=root)))
        # --- build invariants (every intermediate world is the last world of a shorter history, so it is checked there)
        if last:
            for what, det in build_invariants(new, _derived(new), meas):
                viol.append((f'C16/{opfam}/result/{what}', dict(op=op, step=i, **det)))
        w = new
        names.append(w.name)
    key = histories.digest((_snapshot(w)[:-2], table_ok))
    obs = (names[-1], repr(float(w.radius)), repr(float(w.mass)), int(np.asarray(w.radii).size))
    return dict(key=key, viol=viol, obs=obs, exc=None, meas=meas, lines=lines_max)


def _geometry(w):
    g = dict(radius=float(w.radius), volume=float(w.volume), radii=np.array(w.radii, dtype=float), layers=[])
    for L in w.layers:
        g['layers'].append(dict(name=L.name, radius=float(L.radius), radius_inner=float(L.radius_inner), thickness=float(L.thickness),
                                radius_middle=float(L.radius_middle), volume=float(L.volume), radii=np.array(L.radii, dtype=float)))
    return g


def _scale_check(old, new, s, meas):
    bad = []

    def rel(a, b, what):
        a = np.asarray(a, dtype=float)
        b = np.asarray(b, dtype=float)
        if a.shape != b.shape:
            bad.append((what, 'shape', list(a.shape), list(b.shape)))
            return
        with np.errstate(all='ignore'):
            d = float(np.max(np.abs(a - s * b) / (s * old['radius']))) if a.size else 0.0
        if not d <= meas.get('scale-length', 0.0):
            meas['scale-length'] = d
        if not d <= TOL_SCALE:
            bad.append((what, 'length', np.ravel(a)[:3].tolist(), (s * np.ravel(b)[:3]).tolist()))

    rel(new['radius'], old['radius'], 'world.radius')
    rel(new['radii'], old['radii'], 'world.radii')
    if len(new['layers']) != len(old['layers']):
        bad.append(('layers', 'count', len(new['layers']), len(old['layers'])))
        return bad
    for a, b in zip(new['layers'], old['layers']):
        for k in ('radius', 'radius_inner', 'thickness', 'radius_middle', 'radii'):
            rel(a[k], b[k], f"{a['name']}.{k}")
        d = abs(a['volume'] / new['volume'] - b['volume'] / old['volume'])
        if not d <= meas.get('scale-volume-fraction', 0.0):
            meas['scale-volume-fraction'] = d
        if not d <= TOL_FRAC:
            bad.append((a['name'], 'volume-fraction', a['volume'] / new['volume'], b['volume'] / old['volume']))
    return bad


def replay(case):
    if 'history' in case:
        return explore(case)['viol']
    return run_case(case)['viol']


# ----------------------------------------------------------------------------------------------------------------
def _merge_meas(dst, results):
    for r in results:
        for k, v in (r.get('meas') or {}).items():
            if not v <= dst.get(k, 0.0):
                dst[k] = v


def run(ctx):
    from mc.core import run_lattice, HarnessError
    worst = {}
    # ---- part 1a: shipped
    names, stems, table_keys = _shipped_names()
    missing = [s for s in stems if s not in table_keys]
    if missing or len(names) < 10:
        raise HarnessError(f'world discovery failed: stems not in the known-worlds table {missing}; {len(names)} non-BurnMan names')
    res = run_lattice(ctx, 'mc.props.C16:run_case', [dict(kind='shipped', name=n) for n in names],
                      rule=f'builds: every non-BurnMan key of the run-time known-worlds table ({len(names)} names from {len(stems)} '
                           'shipped TOML files), each built twice; distinct = distinct (name, class, radius, mass, #layers)',
                      exhaustive=True)
    _merge_meas(worst, res)
    # ---- part 1b: generated family
    cases = gen_cases(ctx.tier, ctx.seed)
    res = run_lattice(ctx, 'mc.props.C16:run_case', cases, chunk=64,
                      rule='generated layered family: #layers 1..6 x type pattern over {iron,rock,ice} '
                           f'({"all" if ctx.thorough else "monotone"} patterns) x 5 radius partitions x 3 geometry styles x 4 mass modes x '
                           'slices {10,40}, the slices-10 member of each additionally radius-scaled by one of {0.1,0.5,2,10}; '
                           'distinct = distinct (pattern, partition, slices, built mass, built layer radii, scale)',
                      exhaustive=True)
    _merge_meas(worst, res)
    ev1, dn1 = ctx.coverage['evaluations'], ctx.coverage['distinct_nontrivial']
    # ---- part 2: chains
    depth_full, depth = 3, (5 if ctx.thorough else 3)
    tot = dict(states=0, transitions=0, executions=0)
    per_root, samples = {}, []
    for root in ROOTS:
        r = histories.bfs(ctx, 'mc.props.C16:explore', root, list(OPS), depth_full=depth_full, depth_canon=depth, chunk=16)
        per_root[root] = {k: v for k, v in r.items() if k != 'samples'}
        for k in tot:
            tot[k] += r[k]
        samples.extend(dict(config=root, history=h) for h in r['samples'][:1])
        ctx.note(f'chains from {root}: alphabet={len(OPS)} {per_root[root]}')
    ctx.coverage.update(states=tot['states'], transitions=tot['transitions'], traces_validated_against_impl=tot['executions'],
                        per_root=per_root, depth_full=depth_full, depth_canonical=depth, chain_alphabet=list(OPS), step_budget_lines=STEP_BUDGET,
                        lattice_evaluations=ev1, lattice_distinct=dn1, measured_worst={k: float(v) for k, v in sorted(worst.items())},
                        exhaustive=not any(v['frontier_capped'] for v in per_root.values()))
    ctx.coverage['samples'] = list(ctx.coverage.get('samples', []))[:5] + samples
    ctx.coverage['rule'] += (f' | chains: all histories over the {len(OPS)}-operation alphabet to depth {depth_full}, then canonical-state BFS to depth {depth} '
                             f'(one representative history per distinct state) from roots {list(ROOTS)}, '
                             'each operation executed on the real builder under the step budget; a history whose last operation does '
                             'not return (budget / exception) is reported and not extended; states = distinct (name, configuration, geometry) snapshots of the current world')
    ctx.note('measured worst deviations (builds): ' + ', '.join(f'{k}={v:.2e}' for k, v in sorted(worst.items())))
