"""C07 -- rheology models return the exact, passive complex modulus of their law.

E1 lattice (bounded-exhaustive, real code on every element):

  kind 'law'     model (7 compiled classes) x model parameters x rigidity  [one case each]; inside the case the
                 full viscosity x frequency grid (log-spaced grid + every branch point of models.pyx: 0, -0,
                 one-ulp neighbours of +-MIN_FREQUENCY and +-MAX_FREQUENCY, the constants themselves, +-inf,
                 a negative regular frequency) is run through: scalar call, vectorize_frequency,
                 vectorize_modulus_viscosity and the legacy compliance function of the same law (scalar,
                 frequency array, (compliance, viscosity) arrays, all-array).
  kind 'alias'   every name accepted by find_rheology (+ case / blank variants, the package alias `Sundberg`),
                 default constructor arguments, change_args after construction, unknown name.
  kind 'threads' model x OMP_NUM_THREADS {1,2,16} in a dedicated subprocess x array length {1,2,7,64,1000}
                 x both array helpers, bit-compared with scalar calls made in the (1-thread) worker.
  kind 'legacy'  legacy-only functions: off, fixed_q, andrade_freq, sundberg_freq, and the known_models registry.

Oracles: mpmath (50 digits) compliance laws written from the cited papers (mc/refmodels/rheology_laws.py);
documented limits inside guarded branches; passivity; |mu*| <= mu, |mu - mu*| non-increasing and Re mu*
non-decreasing in omega for the Maxwell family (theorems for any positive relaxation spectrum); bit identity
between entry points; legacy == law (1e-12) and legacy == compiled (1e-13).

Measured on the pristine tree (thorough lattice, seeds 0..4): compiled vs law 6.8e-16 (norm), 1.7e-14
(component-wise); legacy vs law 7.9e-16; legacy vs compiled 8.9e-16; legacy array vs scalar 0.
"""
import hashlib
import json
import math
import os
import subprocess
import sys

LEVEL = 'exploration'
ASSUMPTIONS = [
    'continuous parameters (frequency, rigidity, viscosity, alpha, zeta, Voigt offsets) are decided on the stated grid only',
    'inside the guarded branches of models.pyx (|w| < 1e-17, |w| > 1e8 or inf, mu < 1e-3) the documented limits '
    '(w->0, w->inf, mu->0 limits of 1/J, as written in the source) are asserted, not the law',
    'legacy compliance functions are compared with the law only outside their own float_eps guards '
    '(|w|, |eta w|, |J eta w zeta| <= 4*2.2e-16 are guard zones: finiteness and sign only) and for w > 0 '
    '(they return conj(J) or NaN for negative frequencies; the compiled classes use |w|)',
    'zeta(omega) of andrade_freq / sundberg_freq has no published closed form: the law is the one stated by the '
    'legacy docstring + source (exponential fall-off clipped to [0, 100] in the exponent)',
    'OpenMP scheduling itself is not controlled; thread counts 1, 2, 16 are exercised in dedicated subprocesses',
]

MINF, MAXF, MINM = 1.0e-17, 1.0e8, 1.0e-3      # documented constants (utilities/constants_x.pyx)
FEPS = 2.0 ** -52
INF = float('inf')

TOL_LAW = 1e-12          # |mu* - 1/J| / |1/J|            measured 6.8e-16
TOL_COMP = 1e-11         # component-wise                   measured 1.7e-14
TOL_LEG = 1e-12          # legacy J vs law (norm and component-wise)   measured 7.9e-16
TOL_LEG_CODE = 1e-13     # 1/J_legacy vs compiled           measured 8.9e-16
TOL_LEG_ARR = 1e-14      # legacy array call vs scalar call measured 0
SLACK = 1e-12            # passivity / bound / monotonicity slack, relative to |mu*| resp. mu

SEED_F = [1.0, 1.07, 0.93, 1.31, 0.77]

MODELS = ('elastic', 'newton', 'maxwell', 'voigt', 'burgers', 'andrade', 'sundberg')
FAMILY = ('maxwell', 'burgers', 'andrade', 'sundberg')
CLASSNAME = dict(elastic='Elastic', newton='Newton', maxwell='Maxwell', voigt='Voigt', burgers='Burgers',
                 andrade='Andrade', sundberg='SundbergCooper')
DEFAULTS = dict(elastic=(), newton=(), maxwell=(), voigt=(5.0, 0.02), burgers=(5.0, 0.02), andrade=(0.3, 1.0),
                sundberg=(5.0, 0.02, 0.3, 1.0))
ALIASES = dict(elastic='elastic', off='elastic', newton='newton', viscous='newton', maxwell='maxwell',
               voigt='voigt', voigtkelvin='voigt', burgers='burgers', andrade='andrade', sundberg='sundberg',
               sundbergcooper='sundberg')
LENGTHS = (1, 2, 7, 64, 1000)
THREADS = (1, 2, 16)


def nb(x, toward):
    return math.nextafter(x, toward)


# ---------------------------------------------------------------------------------------------
# grids
# ---------------------------------------------------------------------------------------------
def grids(tier, seed):
    f = SEED_F[seed % len(SEED_F)]
    w25 = [f * 10.0 ** (-12.0 + 14.0 * i / 24.0) for i in range(25)]
    mu = [1e3, 1e6, 1e9, 1e11, 1e13]
    eta = [1.0, 1e6, 1e12, 1e18, 1e24, 1e30]
    al, ze, va, vb = [0.05, 0.2, 0.3, 0.5, 0.95], [1e-2, 1.0, 1e2], [0.2, 1.0, 5.0], [0.02, 1.0, 50.0]
    voigt = [(a, b) for a in va for b in vb]
    if tier != 'thorough':
        w25 = w25[::2]
        mu = [1e3, 1e9, 1e13]
        eta = [1.0, 1e12, 1e24, 1e30]
        al = [0.05, 0.3, 0.95]
        voigt = [(0.2, 0.02), (0.2, 50.0), (1.0, 1.0), (5.0, 0.02), (5.0, 50.0)]
    wpos = sorted(w25 + [nb(MINF, 0.0), MINF, nb(MINF, 1.0), nb(MAXF, 0.0), MAXF, nb(MAXF, INF)])
    wneg = [-nb(MINF, 0.0), -nb(MINF, 1.0), -w25[len(w25) // 2], -nb(MAXF, 0.0), -nb(MAXF, INF)]
    return dict(
        f=f,
        wpos=[0.0] + wpos + [INF],                         # ascending, includes every positive branch point
        wneg=[-0.0] + wneg + [-INF],
        mu=[m * f for m in mu] + [nb(MINM, 0.0), MINM, nb(MINM, 1.0)],
        eta=[e * f for e in eta],
        params=dict(elastic=[()], newton=[()], maxwell=[()], voigt=voigt, burgers=voigt,
                    andrade=[(a, z) for a in al for z in ze],
                    sundberg=[(a, b, x, z) for (a, b) in voigt for x in al for z in ze]),
        al=al, ze=ze, voigt=voigt)


def cases(tier, seed):
    g = grids(tier, seed)
    out = []
    for model in MODELS:
        for p in g['params'][model]:
            for mu in g['mu']:
                out.append(dict(kind='law', model=model, params=list(p), mu=mu, tier=tier, seed=seed))
    for model in MODELS:
        if model == 'sundberg':
            for vo in g['voigt']:
                out.append(dict(kind='legarr', model=model, voigt=list(vo), tier=tier, seed=seed))
        else:
            out.append(dict(kind='legarr', model=model, tier=tier, seed=seed))
    variants = lambda s: [s, s.upper(), '  ' + s.capitalize() + ' ']
    for name in ALIASES:
        for v in variants(name):
            out.append(dict(kind='alias', name=v, tier=tier, seed=seed))
    out.append(dict(kind='alias', name='<package-alias-Sundberg>', tier=tier, seed=seed))
    out.append(dict(kind='alias', name='<unknown>', tier=tier, seed=seed))
    for model in MODELS:
        for nt in THREADS:
            out.append(dict(kind='threads', model=model, nthreads=nt, tier=tier, seed=seed))
    for fn in ('off', 'registry'):
        out.append(dict(kind='legacy', fn=fn, tier=tier, seed=seed))
    for beta in (3.443e11, 1.0e9, 5.0e12):
        for q in (1.0, 10.0, 100.0, 1.0e4):
            out.append(dict(kind='legacy', fn='fixed_q', beta=beta, q=q, tier=tier, seed=seed))
    for wc, k in ([(7.27221e-7, 30.0), (7.27221e-7, 3.0), (1.0e-4, 30.0), (1.0e-4, 3.0)] if tier == 'thorough'
                  else [(7.27221e-7, 30.0), (1.0e-4, 3.0)]):
        if True:
            for p in g['params']['andrade']:
                out.append(dict(kind='legacy', fn='andrade_freq', params=list(p) + [wc, k], tier=tier, seed=seed))
            for vo in g['voigt']:
                out.append(dict(kind='legacy', fn='sundberg_freq', voigt=list(vo), wc=wc, k=k, tier=tier, seed=seed))
    return out


# ---------------------------------------------------------------------------------------------
# helpers
# ---------------------------------------------------------------------------------------------
class CodeRaised(Exception):
    """The code under test raised on an input for which the property promises a value."""


def cut(fn, *a):
    try:
        return fn(*a)
    except Exception as e:  # noqa: BLE001 -- everything the code under test raises is a finding
        raise CodeRaised(type(e).__name__, f'{getattr(fn, "__name__", fn)}{a!r}: {e}'[:300])


def bits(z):
    import numpy as np
    return np.asarray(z, dtype=np.complex128).tobytes()


def finite(z):
    return math.isfinite(z.real) and math.isfinite(z.imag)


def nerr(a, b):
    """|a-b| / |b| for complex a, b (b != 0), overflow-safe."""
    d = abs(a - b)
    return 0.0 if d == 0 else d / abs(b)


def cerr(a, b):
    """worst component-wise relative error (components of b that are 0 must be matched to 1e-300)."""
    w = 0.0
    for x, y in ((a.real, b.real), (a.imag, b.imag)):
        if x == y:
            continue
        w = max(w, abs(x - y) / abs(y) if y != 0 else (0.0 if abs(x) < 1e-300 else INF))
    return w


class Viol:
    """Collects at most one violation per site per case (with a count and the first failing input)."""

    def __init__(self):
        self.d = {}

    def add(self, site, **detail):
        if site in self.d:
            self.d[site]['count'] += 1
        else:
            self.d[site] = dict(count=1, first={k: (repr(v) if isinstance(v, (float, complex)) else v)
                                                for k, v in detail.items()})

    def list(self):
        return [(s, d) for s, d in self.d.items()]


def legacy_params(model, p):
    """compiled-class parameters -> legacy parameters (modulus scale = 1 / compliance offset)."""
    if model in ('voigt', 'burgers'):
        return (1.0 / p[0], p[1])
    if model == 'sundberg':
        return (1.0 / p[0], p[1], p[2], p[3])
    return tuple(p)


def legacy_guarded(model, w, J, eta, zeta):
    """True when one of the float_eps guards of compliance_models.py fires (or is within 4x of firing)."""
    t = 4.0 * FEPS
    if abs(w) <= t:
        return True
    if model in ('newton', 'maxwell', 'burgers', 'andrade', 'sundberg') and abs(eta * w) <= t:
        return True
    if model in ('andrade', 'sundberg') and abs(J * eta * w * zeta) <= t:
        return True
    return False


def _classes():
    from TidalPy.rheology import models as M
    return {m: getattr(M, CLASSNAME[m]) for m in MODELS}


def _make(model, p):
    cls = _classes()[model]
    return cut(cls, tuple(p)) if len(p) else cut(cls)


# ---------------------------------------------------------------------------------------------
# kind 'law'
# ---------------------------------------------------------------------------------------------
def _case_law(c, V):
    import numpy as np
    from mc.refmodels import rheology_laws as RL
    from TidalPy.rheology.complex_compliance import compliance_models as cm
    model, p, mu = c['model'], tuple(c['params']), c['mu']
    g = grids(c['tier'], c['seed'])
    m = _make(model, p)
    leg = getattr(cm, model)
    lp = legacy_params(model, p)
    zeta = p[-1] if model in ('andrade', 'sundberg') else 1.0
    J = 1.0 / mu
    wpos, wneg = g['wpos'], g['wneg']
    wall = wpos + wneg
    warr = np.array(wall)
    S = f'C07/{model}'
    L = f'C07/legacy/{model}'
    h = hashlib.sha1()
    nlaw = nguard = nleg = nleg_guard = 0
    table = {}                                   # (eta, w) -> scalar value, for the modulus/viscosity helper
    for eta in g['eta']:
        got = {w: complex(cut(m, w, mu, eta)) for w in wall}
        h.update(bits([got[w] for w in wall]))
        chain = []
        for w in wpos:
            z = got[w]
            table[(eta, w)] = z
            br = RL.branch_of(w, mu)
            ref = None
            if 0.0 < w < INF:
                Jref = RL.compliance(model, w, mu, eta, p)
                ref = complex(1 / Jref)
            if br is None:
                nlaw += 1
                if not finite(z) or nerr(z, ref) > TOL_LAW:
                    V.add(f'{S}/law', w=w, mu=mu, eta=eta, params=p, got=z, want=ref, err=nerr(z, ref) if finite(z) else 'nan')
                elif cerr(z, ref) > TOL_COMP:
                    V.add(f'{S}/law-component', w=w, mu=mu, eta=eta, params=p, got=z, want=ref, err=cerr(z, ref))
            else:
                nguard += 1
                want = RL.documented_limit(model, br, w, mu, eta, p)
                if bits(z) != bits(want) and not (z == want):
                    V.add(f'{S}/limit/{br}', w=w, mu=mu, eta=eta, params=p, got=z, want=want)
            # passivity (guarded values included: 0, mu, +i inf are all passive)
            sc = abs(z) if finite(z) else 0.0
            if not (z.real >= -SLACK * sc and z.imag >= -SLACK * sc):
                V.add(f'{S}/passivity', w=w, mu=mu, eta=eta, params=p, got=z)
            if model in FAMILY and mu >= MINM:
                if not abs(z) <= mu * (1 + SLACK):
                    V.add(f'{S}/bound', w=w, mu=mu, eta=eta, params=p, got=z)
                chain.append((w, z))
            # legacy function of the same law
            if w == 0.0:
                jl = complex(cut(leg, w, J, eta, *lp))
                if not (finite(jl) and jl.imag == 0.0 and jl.real >= 0.0):
                    V.add(f'{L}/zero-frequency', w=w, J=J, eta=eta, params=lp, got=jl)
            elif w < INF:
                jl = complex(cut(leg, w, J, eta, *lp))
                jref = complex(Jref)
                if legacy_guarded(model, w, J, eta, zeta):
                    nleg_guard += 1
                    if not (finite(jl) and jl.real >= 0.0 and jl.imag <= 0.0):
                        V.add(f'{L}/guard', w=w, J=J, eta=eta, params=lp, got=jl)
                else:
                    nleg += 1
                    if not finite(jl) or nerr(jl, jref) > TOL_LEG or cerr(jl, jref) > TOL_LEG:
                        V.add(f'{L}/law', w=w, J=J, eta=eta, params=lp, got=jl, want=jref,
                              err=max(nerr(jl, jref), cerr(jl, jref)) if finite(jl) else 'nan')
                    elif not (jl.real >= -SLACK * abs(jl) and jl.imag <= SLACK * abs(jl)):
                        V.add(f'{L}/passivity', w=w, J=J, eta=eta, params=lp, got=jl)
                    if br is None and finite(jl) and jl != 0 and nerr(1.0 / jl, z) > TOL_LEG_CODE:
                        V.add(f'{L}/vs-compiled', w=w, mu=mu, eta=eta, params=p, legacy=1.0 / jl, compiled=z,
                              err=nerr(1.0 / jl, z))
        # Maxwell family: |mu - mu*| non-increasing, Re mu* non-decreasing along ascending omega (0 ... inf)
        for (w0, z0), (w1, z1) in zip(chain, chain[1:]):
            if abs(z1 - mu) > abs(z0 - mu) + SLACK * mu or z1.real < z0.real - SLACK * mu:
                V.add(f'{S}/monotone', w0=w0, w1=w1, mu=mu, eta=eta, params=p, z0=z0, z1=z1)
        # negative frequencies: the compiled classes document |w|
        for w in wneg:
            if bits(got[w]) != bits(got[-w]):
                V.add(f'{S}/negative-frequency', w=w, mu=mu, eta=eta, params=p, got=got[w], want=got[-w])
        # array helper 1: frequency array
        out = np.full(len(wall), complex(np.nan, np.nan))
        cut(m.vectorize_frequency, warr.copy(), mu, eta, out)
        if out.tobytes() != bits([got[w] for w in wall]):
            i = [k for k in range(len(wall)) if bits(out[k]) != bits(got[wall[k]])][0]
            V.add(f'{S}/vectorize_frequency', w=wall[i], mu=mu, eta=eta, params=p, got=complex(out[i]), want=got[wall[i]])
        for w in wneg:
            table[(eta, w)] = got[w]
    # array helper 2: (modulus, viscosity) arrays at fixed frequency; legacy (compliance, viscosity) arrays
    etas = np.array(g['eta'])
    mus = np.full(len(etas), mu)
    for w in wall:
        out = np.full(len(etas), complex(np.nan, np.nan))
        cut(m.vectorize_modulus_viscosity, w, mus.copy(), etas.copy(), out)
        want = [table[(e, w)] for e in g['eta']]
        if out.tobytes() != bits(want):
            i = [k for k in range(len(etas)) if bits(out[k]) != bits(want[k])][0]
            V.add(f'{S}/vectorize_modulus_viscosity', w=w, mu=mu, eta=g['eta'][i], params=p, got=complex(out[i]), want=want[i])
    return dict(obs=h.hexdigest(), counts=dict(law=nlaw, guarded=nguard, legacy_law=nleg, legacy_guarded=nleg_guard))


def _case_legarr(c, V):
    """legacy function of one law: the three array calling forms against the scalar call (all parameters, rigidities)."""
    import numpy as np
    from TidalPy.rheology.complex_compliance import compliance_models as cm
    model = c['model']
    g = grids(c['tier'], c['seed'])
    leg = getattr(cm, model)
    L = f'C07/legacy/{model}'
    plist = [p for p in g['params'][model] if c.get('voigt') is None or list(p[:2]) == c['voigt']]
    wl = [w for w in g['wpos'] if w < INF]
    etas = np.array(g['eta'])
    ww, ee = np.meshgrid(np.array(wl), etas, indexing='ij')
    h = hashlib.sha1()
    n = 0
    for p in plist:
        lp = legacy_params(model, p)
        for mu in g['mu']:
            J = 1.0 / mu
            sc = {(w, e): complex(cut(leg, w, J, e, *lp)) for w in wl for e in g['eta']}
            n += len(sc)
            for e in g['eta']:
                ja = np.asarray(cut(leg, np.array(wl), J, e, *lp))
                _cmp_arrays(V, f'{L}/array-vs-scalar', ja, np.array([sc[(w, e)] for w in wl]),
                            dict(J=J, eta=e, params=lp, form='w-array'), wl)
            for w in wl:
                ja = np.asarray(cut(leg, w, np.full(len(etas), J), etas.copy(), *lp))
                _cmp_arrays(V, f'{L}/array-vs-scalar', ja, np.array([sc[(w, e)] for e in g['eta']]),
                            dict(J=J, w=w, params=lp, form='J,eta-arrays'), g['eta'])
            ja = np.asarray(cut(leg, ww.ravel().copy(), np.full(ww.size, J), ee.ravel().copy(), *lp))
            js = np.array([sc[(w, e)] for w, e in zip(ww.ravel(), ee.ravel())])
            _cmp_arrays(V, f'{L}/array-vs-scalar', ja, js, dict(J=J, params=lp, form='all-arrays'), list(zip(ww.ravel(), ee.ravel())))
            h.update(ja.tobytes())
    return dict(obs=h.hexdigest(), counts=dict(array_elements=3 * n))


def _cmp_arrays(V, site, ja, js, ctx, labels):
    """legacy array result vs scalar results: same shape, same NaN pattern, TOL_LEG_ARR relative (norm)."""
    import numpy as np
    if ja.shape != js.shape:
        V.add(site, shape=list(ja.shape), want=list(js.shape), **ctx)
        return
    for k in range(js.size):
        a, s = complex(ja[k]), complex(js[k])
        if bits(a) == bits(s):
            continue
        bad = (finite(a) != finite(s)) or (finite(s) and abs(a - s) > TOL_LEG_ARR * abs(s))
        if bad:
            V.add(site, at=repr(labels[k]), array=a, scalar=s, **ctx)
            return


# ---------------------------------------------------------------------------------------------
# kind 'alias'
# ---------------------------------------------------------------------------------------------
def _probe_points(g):
    ws = [g['wpos'][1], g['wpos'][len(g['wpos']) // 3], g['wpos'][len(g['wpos']) // 2], g['wpos'][-2], 0.0, INF, g['wneg'][2]]
    return [(w, mu, eta) for w in ws for mu in (g['mu'][0], g['mu'][2], g['mu'][-3]) for eta in (g['eta'][0], g['eta'][-2])]


def _case_alias(c, V):
    import TidalPy.rheology as R
    from TidalPy.rheology import find_rheology
    from TidalPy.rheology import models as M
    g = grids(c['tier'], c['seed'])
    name = c['name']
    if name == '<unknown>':
        for bad in ('', 'maxwel', 'andrade2', 'sundberg-cooper'):
            try:
                r = find_rheology(bad)
                V.add('C07/find_rheology/unknown-name-accepted', name=bad, got=repr(r))
            except AttributeError:
                pass
            except Exception as e:  # noqa: BLE001
                V.add(f'C07/find_rheology/exception/{type(e).__name__}', name=bad, msg=str(e)[:200])
        if M.find_rheology is not find_rheology:
            V.add('C07/find_rheology/package-export', got=repr(find_rheology))
        return dict(obs='unknown')
    if name == '<package-alias-Sundberg>':
        model, cls = 'sundberg', R.Sundberg
        for k, v in CLASSNAME.items():
            if getattr(R, v) is not getattr(M, v):
                V.add('C07/find_rheology/package-export', name=v)
    else:
        model = ALIASES[name.lower().strip()]
        cls = cut(find_rheology, name)
    want_cls = getattr(M, CLASSNAME[model])
    if cls is not want_cls:
        V.add(f'C07/find_rheology/wrong-class', name=name, got=repr(cls), want=repr(want_cls))
        return dict(obs=repr(cls))
    h = hashlib.sha1()
    pts = _probe_points(g)
    plist = [p for p in g['params'][model]]
    plist = plist[:: max(1, len(plist) // 5)]
    # instance obtained through the name lookup == instance of the class, for explicit and default arguments
    for p in plist + [DEFAULTS[model]]:
        a = cut(cls, tuple(p)) if len(p) else cut(cls)
        b = _make(model, p)
        for (w, mu, eta) in pts:
            za, zb = complex(cut(a, w, mu, eta)), complex(cut(b, w, mu, eta))
            h.update(bits(za))
            if bits(za) != bits(zb):
                V.add(f'C07/find_rheology/value', name=name, params=p, w=w, mu=mu, eta=eta, got=za, want=zb)
    # default constructor arguments are the documented ones
    d0, d1 = cut(cls), _make(model, DEFAULTS[model])
    for (w, mu, eta) in pts:
        z0, z1 = complex(cut(d0, w, mu, eta)), complex(cut(d1, w, mu, eta))
        if bits(z0) != bits(z1):
            V.add(f'C07/{model}/default-args', w=w, mu=mu, eta=eta, got=z0, want=z1, defaults=DEFAULTS[model])
    # change_args after construction == fresh instance (every pair of the parameter menu, both directions)
    if DEFAULTS[model]:
        for p_old in plist:
            for p_new in plist:
                a = cut(cls, tuple(p_old))
                cut(a.change_args, tuple(p_new))
                b = cut(cls, tuple(p_new))
                for (w, mu, eta) in pts[::3]:
                    za, zb = complex(cut(a, w, mu, eta)), complex(cut(b, w, mu, eta))
                    if bits(za) != bits(zb):
                        V.add(f'C07/{model}/change_args', old=p_old, new=p_new, w=w, mu=mu, eta=eta, got=za, want=zb)
    return dict(obs=h.hexdigest())


# ---------------------------------------------------------------------------------------------
# kind 'threads'  (dedicated subprocess per thread count)
# ---------------------------------------------------------------------------------------------
def _thread_plan(model, tier, seed):
    """Deterministic list of array-helper calls: (params, helper, n, scalar args, array inputs)."""
    g = grids(tier, seed)
    wall = g['wpos'] + g['wneg']
    pairs = [(mu, eta) for mu in g['mu'] for eta in g['eta']]
    plist = g['params'][model]
    plist = [plist[0], plist[len(plist) // 2], plist[-1]] if len(plist) > 1 else plist
    plan = []
    for ip, p in enumerate(plist):
        for n in LENGTHS:
            for rep in range(2):
                off = 7 * ip + 3 * rep + n
                mu, eta = pairs[(off * 5) % len(pairs)]
                plan.append(dict(params=list(p), helper='vectorize_frequency', n=n, mu=mu, eta=eta,
                                 w=[wall[(off + 11 * i) % len(wall)] for i in range(n)]))
                w = wall[(off * 3) % len(wall)]
                pr = [pairs[(off + 13 * i) % len(pairs)] for i in range(n)]
                plan.append(dict(params=list(p), helper='vectorize_modulus_viscosity', n=n, w=w,
                                 mu=[q[0] for q in pr], eta=[q[1] for q in pr]))
    return plan


def _run_plan(model, plan):
    """Executes the plan with the array helpers; returns list of hex strings (raw bytes of the outputs)."""
    import numpy as np
    from mc import env
    env.tidalpy()
    res = []
    inst = {}
    for it in plan:
        key = tuple(it['params'])
        if key not in inst:
            inst[key] = _make(model, key)
        m = inst[key]
        out = np.full(it['n'], complex(np.nan, np.nan))
        if it['helper'] == 'vectorize_frequency':
            warr = np.array(it['w'], dtype=float)
            keep = warr.copy()
            cut(m.vectorize_frequency, warr, it['mu'], it['eta'], out)
            unchanged = warr.tobytes() == keep.tobytes()
        else:
            ma, ea = np.array(it['mu'], dtype=float), np.array(it['eta'], dtype=float)
            k1, k2 = ma.copy(), ea.copy()
            cut(m.vectorize_modulus_viscosity, it['w'], ma, ea, out)
            unchanged = ma.tobytes() == k1.tobytes() and ea.tobytes() == k2.tobytes()
        res.append((out.tobytes().hex(), unchanged))
    return res


def _thread_child():
    """Entry of the dedicated subprocess: stdin = {model, tier, seed}; stdout = JSON."""
    import ctypes
    req = json.loads(sys.stdin.read())
    plan = _thread_plan(req['model'], req['tier'], req['seed'])
    nthreads = ctypes.CDLL('libgomp.so.1').omp_get_max_threads()
    try:
        res = _run_plan(req['model'], plan)
    except CodeRaised as e:
        sys.stdout.write('\n@@C07' + json.dumps(dict(omp=nthreads, raised=list(e.args))) + '\n')
        return
    sys.stdout.write('\n@@C07' + json.dumps(dict(omp=nthreads, res=res)) + '\n')


def _case_threads(c, V):
    import numpy as np
    model, nt = c['model'], c['nthreads']
    plan = _thread_plan(model, c['tier'], c['seed'])
    envd = dict(os.environ)
    envd['OMP_NUM_THREADS'] = str(nt)
    envd.pop('OMP_THREAD_LIMIT', None)
    p = subprocess.run([sys.executable, '-c', 'from mc.props.C07 import _thread_child; _thread_child()'],
                       input=json.dumps(dict(model=model, tier=c['tier'], seed=c['seed'])), capture_output=True,
                       text=True, env=envd, timeout=600)
    marker = [ln for ln in p.stdout.splitlines() if ln.startswith('@@C07')]
    if p.returncode < 0:
        # the array helper crashed the interpreter (signal) -- the property promises a value
        V.add(f'C07/{model}/threads/crash', nthreads=nt, rc=p.returncode, stderr=p.stderr[-400:])
        return dict(obs=None)
    if p.returncode != 0 or not marker:
        raise RuntimeError(f'C07 thread child failed rc={p.returncode}: {p.stderr[-800:]}')
    rep = json.loads(marker[0][5:])
    if rep['omp'] != nt:
        raise RuntimeError(f'OMP_NUM_THREADS={nt} did not take effect in the child (omp_get_max_threads={rep["omp"]})')
    if 'raised' in rep:
        V.add(f'C07/{model}/threads/exception/{rep["raised"][0]}', nthreads=nt, msg=rep['raised'][1])
        return dict(obs=None)
    h = hashlib.sha1()
    inst = {}
    for it, (hx, unchanged) in zip(plan, rep['res']):
        key = tuple(it['params'])
        if key not in inst:
            inst[key] = _make(model, key)
        m = inst[key]
        if it['helper'] == 'vectorize_frequency':
            want = [complex(cut(m, w, it['mu'], it['eta'])) for w in it['w']]
        else:
            want = [complex(cut(m, it['w'], a, b)) for a, b in zip(it['mu'], it['eta'])]
        wb = bits(want)
        h.update(wb)
        gb = bytes.fromhex(hx)
        if gb != wb:
            got = np.frombuffer(gb, dtype=np.complex128)
            i = [k for k in range(it['n']) if bits(got[k]) != bits(want[k])][0]
            V.add(f'C07/{model}/threads/{it["helper"]}', nthreads=nt, n=it['n'], index=i, params=it['params'],
                  got=complex(got[i]), want=want[i])
        if not unchanged:
            V.add(f'C07/{model}/threads/input-modified', nthreads=nt, n=it['n'], helper=it['helper'])
    return dict(obs=(h.hexdigest(), nt))


# ---------------------------------------------------------------------------------------------
# kind 'legacy'  (functions without a compiled twin)
# ---------------------------------------------------------------------------------------------
def _case_legacy(c, V):
    import numpy as np
    import mpmath as mp
    from mc.refmodels import rheology_laws as RL
    from TidalPy.rheology.complex_compliance import compliance_models as cm
    from TidalPy.rheology.complex_compliance import known_models
    g = grids(c['tier'], c['seed'])
    fn = c['fn']
    wl = [w for w in g['wpos'] if w < INF]
    h = hashlib.sha1()
    if fn == 'registry':
        names = ['andrade', 'andrade_freq', 'burgers', 'elastic', 'fixed_q', 'maxwell', 'newton', 'off', 'sundberg',
                 'sundberg_freq', 'voigt']
        if sorted(known_models) != names:
            V.add('C07/legacy/registry/names', got=sorted(known_models), want=names)
        for n in names:
            if n in known_models and known_models[n] is not getattr(cm, n):
                V.add('C07/legacy/registry/function', name=n, got=repr(known_models[n]))
        return dict(obs=tuple(sorted(known_models)))
    if fn == 'off':
        # documented: the "off" rheology is purely elastic -- J = compliance, no imaginary part, any frequency
        for mu in g['mu']:
            J = 1.0 / mu
            for eta in g['eta']:
                for w in wl + g['wneg'][:-1]:
                    z = complex(cut(cm.off, w, J, eta))
                    if bits(z) != bits(complex(J, 0.0)):
                        V.add('C07/legacy/off/value', w=w, J=J, eta=eta, got=z, want=complex(J, 0.0))
                ja = np.asarray(cut(cm.off, np.array(wl), J, eta))
                _cmp_arrays(V, 'C07/legacy/off/array-vs-scalar', ja, np.full(len(wl), complex(J, 0.0)), dict(J=J, eta=eta), wl)
                h.update(ja.tobytes())
        return dict(obs=h.hexdigest())
    if fn == 'fixed_q':
        # documented behaviour: a frequency- and viscosity-independent response whose homogeneous-body Love
        # number k2 = 1.5 / (1 + 19 / (2 beta J*)) dissipates  -Im k2 = k2_static / Q,  k2_static = 1.5 / (1 + 19/(2 beta J))
        beta, Q = c['beta'], c['q']
        for mu in g['mu']:
            J = 1.0 / mu
            vals = set()
            for eta in g['eta']:
                for w in wl:
                    z = complex(cut(cm.fixed_q, w, J, eta, beta, Q))
                    if abs(w) <= FEPS:
                        if not (finite(z) and z.imag == 0.0):
                            V.add('C07/legacy/fixed_q/zero-frequency', w=w, J=J, eta=eta, beta=beta, Q=Q, got=z)
                        continue
                    vals.add(bits(z))
                    with mp.workdps(50):
                        zz = mp.mpc(z.real, z.imag)
                        k = mp.mpf(1.5) / (1 + 19 / (2 * mp.mpf(beta) * zz))
                        ks = mp.mpf(1.5) / (1 + 19 / (2 * mp.mpf(beta) * mp.mpf(J)))
                        e1 = abs(-k.imag - ks / mp.mpf(Q)) / (ks / mp.mpf(Q))
                    if not finite(z) or not e1 < 1e-12:
                        V.add('C07/legacy/fixed_q/k2-over-Q', w=w, J=J, eta=eta, beta=beta, Q=Q, got=z, err=float(e1))
                ja = np.asarray(cut(cm.fixed_q, np.array(wl), J, eta, beta, Q))
                js = np.array([complex(cm.fixed_q(w, J, eta, beta, Q)) for w in wl])
                _cmp_arrays(V, 'C07/legacy/fixed_q/array-vs-scalar', ja, js, dict(J=J, eta=eta, beta=beta, Q=Q), wl)
            if len(vals) > 1:
                V.add('C07/legacy/fixed_q/frequency-dependent', J=J, beta=beta, Q=Q, n_distinct=len(vals))
            h.update(b''.join(sorted(vals)))
        return dict(obs=h.hexdigest())
    # andrade_freq / sundberg_freq
    if fn == 'andrade_freq':
        plist = [tuple(c['params'])]
        base, basefn, f = 'andrade', cm.andrade, cm.andrade_freq
    else:
        plist = [(1.0 / c['voigt'][0], c['voigt'][1], a, z, c['wc'], c['k']) for a in g['al'] for z in g['ze']]
        base, basefn, f = 'sundberg', cm.sundberg, cm.sundberg_freq
    L = f'C07/legacy/{fn}'
    nlaw = 0
    for lp in plist:
        wc, k = lp[-2], lp[-1]
        alpha, zeta = lp[-4], lp[-3]
        for mu in g['mu']:
            J = 1.0 / mu
            for eta in g['eta']:
                js = []
                for w in wl:
                    z = complex(cut(f, w, J, eta, *lp))
                    js.append(z)
                    if w == 0.0:
                        if not (finite(z) and z.imag == 0.0 and z.real >= 0.0):
                            V.add(f'{L}/zero-frequency', w=w, J=J, eta=eta, params=lp, got=z)
                        continue
                    zeff = float(RL.zeta_freq(w, zeta, wc, k))
                    if legacy_guarded(base, w, J, eta, zeff) or legacy_guarded(base, w, J, eta, zeta):
                        if not (finite(z) and z.real >= 0.0 and z.imag <= 0.0):
                            V.add(f'{L}/guard', w=w, J=J, eta=eta, params=lp, got=z)
                        continue
                    nlaw += 1
                    if fn == 'andrade_freq':
                        ref = complex(RL.compliance_freq('andrade', w, mu, eta, (alpha, zeta, wc, k)))
                    else:
                        with mp.workdps(50):
                            a_ref = 1 / mp.mpf(lp[0])
                        ref = complex(RL.compliance_freq('sundberg', w, mu, eta, (a_ref, lp[1], alpha, zeta, wc, k)))
                    if not finite(z) or nerr(z, ref) > TOL_LEG or cerr(z, ref) > TOL_LEG:
                        V.add(f'{L}/law', w=w, J=J, eta=eta, params=lp, got=z, want=ref,
                              err=max(nerr(z, ref), cerr(z, ref)) if finite(z) else 'nan')
                    # form-independent: at and above the critical frequency it IS the plain law
                    if w >= wc:
                        zb = complex(cut(basefn, w, J, eta, *lp[:-2]))
                        if bits(z) != bits(zb):
                            V.add(f'{L}/above-critical-equals-plain', w=w, J=J, eta=eta, params=lp, got=z, want=zb)
                    if fn == 'sundberg_freq':
                        zs = complex(cm.voigt(w, J, eta, lp[0], lp[1])) + complex(cm.andrade_freq(w, J, eta, alpha, zeta, wc, k))
                        if nerr(z, zs) > 4 * FEPS:
                            V.add(f'{L}/voigt-plus-andrade_freq', w=w, J=J, eta=eta, params=lp, got=z, want=zs)
                ja = np.asarray(cut(f, np.array(wl), J, eta, *lp))
                _cmp_arrays(V, f'{L}/array-vs-scalar', ja, np.array(js), dict(J=J, eta=eta, params=lp, form='w-array'), wl)
                h.update(bits(js))
    return dict(obs=h.hexdigest(), counts=dict(law=nlaw))


# ---------------------------------------------------------------------------------------------
def _attempt(c):
    V = Viol()
    fam = c.get('model') or c.get('fn') or 'find_rheology'
    raised = None
    try:
        r = dict(law=_case_law, legarr=_case_legarr, alias=_case_alias, threads=_case_threads, legacy=_case_legacy)[c['kind']](c, V)
    except CodeRaised as e:
        raised = e
        V.add(f'C07/{fam}/exception/{e.args[0]}', msg=e.args[1])
        r = dict(obs=None)
    return dict(status='pass', viol=V.list(), obs=r.get('obs'), counts=r.get('counts')), raised


def run_case(c):
    from mc import env
    env.tidalpy()
    r, raised = _attempt(c)
    if raised is not None:
        # an exception of the code under test must be deterministic to count (numba compilation of the legacy functions
        # by 16 concurrent workers has been seen to fail transiently); a deterministic defect raises again
        r2, raised2 = _attempt(c)
        if raised2 is None:
            r2['info'] = [f'transient exception on first attempt, absent on retry: {raised.args[0]}: {raised.args[1]}']
            return r2
    return r


def replay(case):
    return run_case(case)['viol']


def run(ctx):
    from mc.core import run_lattice
    cs = cases(ctx.tier, ctx.seed)
    g = grids(ctx.tier, ctx.seed)
    # long-running cases (subprocesses, numba array signatures) first so that they overlap with the many short ones
    prio = dict(threads=0, legarr=1, legacy=2, law=3, alias=4)
    cs.sort(key=lambda c: prio[c['kind']])
    nw = len(g['wpos']) + len(g['wneg'])
    res = run_lattice(
        ctx, 'mc.props.C07:run_case', cs, chunk=1, exhaustive=False,
        rule='full product, five case kinds. law: model(7) x model-parameter menu x rigidity (incl. MIN_MODULUS and its one-ulp '
             f'neighbours), inside each case viscosity({len(g["eta"])}) x frequency({nw}: log grid + 0, -0, +-inf, +-MIN/MAX_FREQUENCY '
             'and their one-ulp neighbours) through scalar call, vectorize_frequency, vectorize_modulus_viscosity and the legacy '
             'scalar function. legarr: legacy function x 3 array calling forms over the same grid. alias: every find_rheology name '
             'x 3 spellings + package alias + unknown names, default args, change_args over all ordered pairs of a parameter menu. '
             'threads: model(7) x OMP_NUM_THREADS{1,2,16} (dedicated subprocess, verified with omp_get_max_threads) x '
             'length{1,2,7,64,1000} x both helpers x 3 parameter sets x 2 input rotations. legacy: off, fixed_q(beta x Q), '
             'andrade_freq / sundberg_freq (critical frequency x fall-off x parameters) over the grid, known_models registry. '
             'distinct = distinct sha1 of the raw output values of a case')
    nscalar = {}
    for c, r in zip(cs, res):
        for k, v in (r.get('counts') or {}).items():
            nscalar[f"{c['kind']}:{k}"] = nscalar.get(f"{c['kind']}:{k}", 0) + v
    kinds = {}
    for c in cs:
        kinds[c['kind']] = kinds.get(c['kind'], 0) + 1
    for r in res:
        for m in r.get('info') or []:
            ctx.note(m)
    ctx.coverage['cases_by_kind'] = kinds
    ctx.coverage['scalar_evaluations'] = nscalar
    ctx.coverage['lattice'] = dict(models=list(MODELS), frequencies=nw, rigidities=len(g['mu']),
                                   viscosities=len(g['eta']), parameter_sets={m: len(v) for m, v in g['params'].items()},
                                   aliases=len(ALIASES), lengths=list(LENGTHS), threads=list(THREADS))
