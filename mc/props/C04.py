"""C04 -- results do not depend on where in a uniform core the integration starts; the analytic starting vectors are
regular solutions of the governing equations.

Four exhaustive sub-lattices (E1):

 ode   ODE-consistency of the starting vectors observed through
       TidalPy.RadialSolver.starting.driver.find_starting_conditions: a 4th-order central difference of the returned
       vectors between r(1-2h)..r(1+2h) minus A(r) y with A the TS72/S74/KMN15 matrix of mc/refmodels/ts72.py for a uniform
       sphere (g = 4/3 pi G rho r).  The family of starting vectors is only defined up to r-dependent linear
       recombination (Kamata's vectors are TS72's divided by j_l(kr) with h x (third solution) removed), so the
       invariant asserted is the one the Love numbers depend on: the *span* of the vectors is carried into itself by
       the ODE -- the component of dy_i/dr - A y_i orthogonal to span{y_1..y_n} vanishes (rows scaled to common units).
 z     the helper z_l(x) = x j_{l+1}(x)/j_l(x), observed as r*y3 of Kamata's first solution (incompressible solid:
       x^2 = w^2 rho r^2/mu, so any complex x^2 can be dialled in through mu), against mpmath on a grid of |x^2|
       straddling the 0.1 Taylor/Bessel branch point.
 r0    end-to-end: Love numbers (and, for the core+mantle planet, the radial functions in the mantle) from solves started
       at each r0/R of the menu agree pairwise, for admitted solves (gate as C01).
 xfam  Takeuchi and Kamata agree for the same planet / assumption.
"""
import math
import time

LEVEL = 'exploration'
ASSUMPTIONS = [
    'continuous parameters (materials, omega, r0/R, x^2) are decided on the stated grids only',
    'starting vectors are judged as a family: span invariance under the reference ODE (necessary and sufficient for '
    'r0-independence of the Love numbers); a per-vector residual is not asserted because KMN15 vectors are normalised per radius',
    'conditioning domain: Takeuchi (power series truncated after z^10) |k^2 r^2| <= 1; Kamata Re(k^2 r^2) > 0: |k^2 r^2| <= 10 '
    '(below the first zero of j_l), Re <= 0: |k^2 r^2| <= 1e4 (no overflow of j_l(i x)); outside = inadmissible, counted',
    'end-to-end legs asserted only for solves that pass the convergence gate (success at (rtol,atol) and (rtol/100,atol/100), agreement)',
]

G = 6.67430e-11
EPS = 2.220446049250313e-16

KINDS = {  # name: (layer_type, is_static, is_incompressible)
    'solid-static': (0, True, False),
    'solid-dynamic': (0, False, False),
    'solid-dynamic-incompressible': (0, False, True),
    'liquid-dynamic': (1, False, False),
    'liquid-dynamic-incompressible': (1, False, True),
    'liquid-static': (1, True, False),
}
KIND_ORDER = ['solid-static', 'solid-dynamic', 'solid-dynamic-incompressible', 'liquid-static', 'liquid-dynamic',
              'liquid-dynamic-incompressible']
ODE_LS = [2, 3, 5, 8]
ODE_R0F = [1e-2, 1e-3, 1e-4, 5e-2, 0.2, 0.5]
ODE_W = [1e-4, 1e-5, 1e-6, 1e-3]
# core material menu: (name, R [m], rho, mu, K)
BODIES = [
    ('rock', 6.371e6, 5500.0, 7e10 * (1 + 0.01j), 2.0e11),
    ('ice', 2.5e5, 1000.0, 3.3e9 * (1 + 0.05j), 1.0e10),
    ('iron', 3.4e6, 10000.0, 1e11 + 3e10j, 1.0e12),
    ('mush', 1.8e6, 3500.0, 1e8 * (1 + 1j) / math.sqrt(2.0), 1.0e11),
    ('giant', 2.0e7, 8000.0, 5e11 + 0j, 3.0e12),
]
SEED_FACTORS = [1.0, 1.07, 0.93, 1.31, 0.77, 1.19]

H_FD = 5e-4                       # relative stencil step
STENCIL = ((-2, 1.0 / 12.0), (-1, -8.0 / 12.0), (1, 8.0 / 12.0), (2, -1.0 / 12.0))
TOL_ODE = 1e-9                    # span residual, relative (pristine floor of correct vectors: <= 4.2e-11 solids, see report)
TOL_ODE_COND = 10.0               # + TOL_ODE_COND * eps * cond: cancellation inside A y (dynamic liquids at low w: floor 3e-9 at cond 5e7)
TOL_REPAIR = 1e-9                 # "the residual vanishes after the substitution" (measured <= 4.2e-11)

Z_ABS = [1e-4, 1e-3, 1e-2, 0.03, 0.05, 0.07, 0.09, 0.099, 0.0999999, 0.1000001, 0.101, 0.11, 0.15, 0.3, 1.0, 3.0]
Z_ARG = [0.0, -0.02, -0.5, math.pi, 2.5]
Z_TOL = 1e-11
Z_KNOWN_MAX = 1e-5

# end-to-end
FAMILIES = {
    'kamata-static': (True, True, False),
    'kamata-dynamic-compressible': (True, False, False),
    'kamata-dynamic-incompressible': (True, False, True),
    'takeuchi-static': (False, True, False),
    'takeuchi-dynamic': (False, False, False),
}
E_LS = [2, 3, 5, 8]
E_MUT = [1.0, 0.3, 30.0]
E_R0F = [1e-4, 1e-3, 1e-2, 5e-2, 0.2, 0.5]
E_RTOL, E_ATOL = 1e-9, 1e-13
E_GATE = 1e-7
E_TOL = 1e-7                      # relative to max(1, |x|) (k, h, l are O(1))
E_TOL_Y_FACTOR = 10.0             # radial functions at the mantle base / surface (pristine Takeuchi-vs-Kamata up to 4e-8)
E_TOL_INC_FACTOR = 10.0           # Kamata dynamic-incompressible is ill-conditioned at w~2 = 1e-6 (pristine r0-drift up to 4e-8)
E_UNDERFLOW = 1e-15               # Takeuchi starts (not normalised) with (r0/R)^l below this are inadmissible by conditioning
E_GATE_FACTOR = 10.0
E_MAX_STEPS = 200000
E_WALL_BUDGET_S = 30.0
E_W2 = 1e-6
E_W2_FAST = 1e-3
E_CORE_FRAC = 0.6
# known finding (c): drift of the Takeuchi families <= DRIFT_LAW * (r0/Rc)^(2l+1)   (Rc = radius of the uniform region)
DRIFT_LAW = 15.0


# =================================================================================================================
# case lists
# =================================================================================================================
def cases_ode(tier, seed):
    f = SEED_FACTORS[seed % len(SEED_FACTORS)]
    out = []
    for fam in ('kamata', 'takeuchi'):
        for kind in KIND_ORDER:
            for l in ODE_LS:
                for bi in range(len(BODIES)):
                    for w in ODE_W:
                        for r0f in ODE_R0F:
                            out.append(dict(sub='ode', fam=fam, kind=kind, l=l, body=bi, f=f, w=w, r0f=r0f))
    return out


def cases_z(tier, seed):
    f = SEED_FACTORS[seed % len(SEED_FACTORS)]
    out = []
    for l in ODE_LS:
        for ax in Z_ABS:
            for arg in Z_ARG:
                for ch in ('solid-incompressible', 'liquid-compressible'):
                    if ch == 'liquid-compressible' and arg not in (0.0, math.pi):
                        continue
                    # the seed scales the physical realisation (r, rho), never x^2 itself
                    out.append(dict(sub='z', l=l, ax=ax, arg=arg, ch=ch, f=f))
    return out


def cases_r0(tier, seed):
    f = SEED_FACTORS[seed % len(SEED_FACTORS)]
    out = []
    planets = ['uniform', 'core-mantle']
    ls = E_LS if tier == 'thorough' else [2, 3, 8]
    muts = E_MUT if tier == 'thorough' else E_MUT[:2]
    for planet in planets:
        for fam in FAMILIES:
            for l in ls:
                for mt in muts:
                    out.append(dict(sub='r0', planet=planet, fam=fam, l=l, mt=mt * f, td=0.05, w2=E_W2))
                    if fam.startswith('kamata-dynamic'):
                        # a second, non-quasi-static frequency makes the inertial terms of the ODE matter (Kamata only: the
                        # drift law of the known Takeuchi finding is calibrated at w~2 = 1e-6)
                        out.append(dict(sub='r0', planet=planet, fam=fam, l=l, mt=mt * f, td=0.05, w2=E_W2_FAST))
    return out


def cases_xfam(tier, seed):
    f = SEED_FACTORS[seed % len(SEED_FACTORS)]
    out = []
    ls = E_LS if tier == 'thorough' else [2, 3, 8]
    muts = E_MUT if tier == 'thorough' else E_MUT[:2]
    for planet in ('uniform', 'core-mantle'):
        for assumption in ('static', 'dynamic'):
            for l in ls:
                for mt in muts:
                    for r0f in (1e-2, 1e-3, 5e-2):
                        out.append(dict(sub='xfam', planet=planet, assumption=assumption, l=l, mt=mt * f, td=0.05, w2=E_W2, r0f=r0f))
    return out


# =================================================================================================================
# ode sub-lattice
# =================================================================================================================
def body_of(c):
    name, R, rho, mu, K = BODIES[c['body']]
    f = c.get('f', 1.0)
    return name, R, rho, complex(mu) * f, K * f


def dispersion_x2(layer_type, static, incomp, w, r, rho, K, mu, l):
    """k^2 r^2 of the regular solutions (TS72 eq. 99 / KMN15 B13, B31), used only for the conditioning gate."""
    import numpy as np
    gam = 4.0 * math.pi * G * rho / 3.0
    n1 = l * (l + 1.0)
    w2 = 0.0 if static else w * w
    if layer_type == 0:
        b2 = mu / rho
        if incomp:
            return [w2 / b2 * r * r]
        a2 = (K + 4.0 * mu / 3.0) / rho
        p = w2 / b2 + (w2 + 4.0 * gam) / a2
        q = w2 / b2 - (w2 + 4.0 * gam) / a2
        s = np.sqrt(q * q + 4.0 * n1 * gam * gam / (a2 * b2) + 0j)
        return [(p + s) / 2.0 * r * r, (p - s) / 2.0 * r * r]
    if static or incomp:
        return []
    a2 = K / rho
    return [complex((w2 + 4.0 * gam - n1 * gam * gam / w2) / a2 * r * r)]


def conditioning(fam, x2s):
    for x2 in x2s:
        a = abs(x2)
        if fam == 'takeuchi':
            if a > 1.0:
                return 'inadmissible:series-domain'
        else:
            if x2.real > 0 and a > 10.0:
                return 'inadmissible:bessel-pole-domain'
            if x2.real <= 0 and a > 1e4:
                return 'inadmissible:evanescent-overflow'
    return None


def get_start(layer_type, static, incomp, kam, w, r, rho, K, mu, l):
    import numpy as np
    from TidalPy.RadialSolver.starting.driver import find_starting_conditions
    nsol = 3 if layer_type == 0 else (1 if static else 2)
    out = np.full((nsol, 2 * nsol), np.nan, dtype=np.complex128)
    find_starting_conditions(layer_type, static, incomp, kam, float(w), float(r), float(rho), float(K), complex(mu), int(l), G, out)
    return out


def ref_system(layer_type, static, incomp, w, r, rho, K, mu, l):
    """(A, unit): reference matrix and the natural unit of each component for unit displacement."""
    import numpy as np
    from mc.refmodels import ts72
    g = ts72.uniform_gravity(r, rho, G)
    if layer_type == 0:
        A = ts72.solid_matrix(r, rho, mu, K, w, l, g, G, static=static, incompressible=incomp)
        s = max(abs(mu) / r, rho * g)
        unit = np.array([1.0, s, 1.0, s, g, g / r])
    elif not static:
        A = ts72.liquid_dynamic_matrix(r, rho, K, w, l, g, G, incompressible=incomp)
        unit = np.array([1.0, rho * g, g, g / r])
    else:
        A = ts72.liquid_static_matrix(r, rho, l, g, G)
        unit = np.array([1.0, 1.0 / r])
    return A, unit


def span_residuals(ys, A, unit, r, h=H_FD):
    """ys: {k: array(nsol, ny)} at r(1+k h), k=-2..2. Returns list of (residual_i, cond_i)."""
    import numpy as np
    Y = (ys[0] / unit).T
    Q, _ = np.linalg.qr(Y)
    At = (A * unit[None, :]) / unit[:, None] * r
    out = []
    for i in range(ys[0].shape[0]):
        dy = sum(cf * ys[k][i] for k, cf in STENCIL) / h / unit       # r dy/dr in units
        yi = Y[:, i]
        Rv = dy - At @ yi
        perp = Rv - Q @ (Q.conj().T @ Rv)
        ny = float(np.linalg.norm(yi))
        cond = float(np.linalg.norm(np.abs(At) @ np.abs(yi)) + np.linalg.norm(dy)) / ny
        out.append((float(np.linalg.norm(perp)) / ny, cond))
    return out


def repair_takeuchi_y6(y, r, l):
    """y6 <- y6 - (2l+1)/r (y5_other - y5_own) for the two Bessel-type solutions (slots 0 and 1)."""
    y = y.copy()
    d = (2 * l + 1.0) / r
    y5a, y5b = y[0, 4], y[1, 4]
    y[0, 5] = y[0, 5] - d * (y5b - y5a)
    y[1, 5] = y[1, 5] - d * (y5a - y5b)
    return y


def repair_kamata_z(kind, y, r, l, rho, K, mu, w):
    """Replace the code's z_l by the exact continued-fraction value inside Kamata's vectors (they are affine in z:
    KMN15 B1-B12, B17-B28, B29-B37). Returns (repaired y, [x^2 of every repaired solution])."""
    import numpy as np
    from mc.refmodels import ts72
    y = y.copy()
    n1 = l * (l + 1.0)
    x2s = []
    if kind in ('solid-static', 'solid-dynamic'):
        for s in (0, 1):
            zc = r * y[s, 2]
            f = -y[s, 0] / y[s, 2]
            k2 = (y[s, 3] + (2.0 * mu / r ** 2) * (f + 1.0) * zc) / mu
            x2 = k2 * r * r
            dz = ts72.z_continued_fraction(x2, l) - zc
            y[s] = y[s] + dz * np.array([-f / r, (2.0 * mu / r ** 2) * (2.0 * f + n1), 1.0 / r, -(2.0 * mu / r ** 2) * (f + 1.0), 0.0, 0.0])
            x2s.append(x2)
    elif kind == 'solid-dynamic-incompressible':
        zc = r * y[0, 2]
        x2 = w * w * rho * r * r / mu
        dz = ts72.z_continued_fraction(x2, l) - zc
        y[0] = y[0] + dz * np.array([0.0, 2.0 * mu * n1 / r ** 2, 1.0 / r, -2.0 * mu / r ** 2, 0.0, 0.0])
        x2s.append(x2)
    elif kind == 'liquid-dynamic':
        gam = 4.0 * math.pi * G * rho / 3.0
        f = -w * w / gam
        zc = -r * y[0, 0] / f
        x2 = complex((w * w + 4.0 * gam - n1 * gam * gam / (w * w)) * rho / K * r * r)
        dz = ts72.z_continued_fraction(x2, l) - zc
        y[0] = y[0] + dz * np.array([-f / r, 0.0, 0.0, 0.0])
        x2s.append(x2)
    else:
        return None, []
    return y, x2s


def run_ode(c):
    import numpy as np
    fam, kind, l = c['fam'], c['kind'], c['l']
    lt, st, inc = KINDS[kind]
    kam = fam == 'kamata'
    name, R, rho, mu, K = body_of(c)
    w = c['w']
    r = c['r0f'] * R
    site0 = f'C04/{fam}-{kind}'
    x2s = dispersion_x2(lt, st, inc, w, r * (1 + 2 * H_FD), rho, K, mu, l)
    ys = {}
    try:
        for k in (-2, -1, 0, 1, 2):
            ys[k] = get_start(lt, st, inc, kam, w, r * (1 + k * H_FD), rho, K, mu, l)
    except NotImplementedError:
        return dict(status='inadmissible:not-implemented', viol=[], obs=None)
    except Exception as e:  # noqa
        return dict(status='pass', viol=[(f'{site0}/exception/{type(e).__name__}', dict(msg=str(e)[:200]))], obs=None)
    bad = conditioning('takeuchi' if (not kam and not (lt == 1 and st)) else 'kamata', x2s)
    if lt == 1 and st:
        bad = None            # Saito's power solution: no series, no Bessel function
    if bad:
        return dict(status=bad, viol=[], obs=None)
    if not all(np.all(np.isfinite(v.view(np.float64))) for v in ys.values()):
        return dict(status='pass', viol=[(f'{site0}/nonfinite', dict(r=r, body=name))], obs=None)
    A, unit = ref_system(lt, st, inc, w, r, rho, K, mu, l)
    res = span_residuals(ys, A, unit, r)
    worst = max(a for a, _ in res)
    tols = [TOL_ODE + TOL_ODE_COND * EPS * cnd for _, cnd in res]
    over = [a / t for (a, _), t in zip(res, tols)]
    viol = []
    if max(over) > 1.0:
        detail = dict(residual=[a for a, _ in res], tol=tols, body=name, r=r, x2=[complex(x) for x in x2s])
        site = f'{site0}/ode-residual'
        if fam == 'takeuchi' and lt == 0:
            ys2 = {k: repair_takeuchi_y6(v, r * (1 + k * H_FD), l) for k, v in ys.items()}
            res2 = span_residuals(ys2, A, unit, r)
            detail['residual_after_y6_substitution'] = [a for a, _ in res2]
            if max(a for a, _ in res2) <= TOL_REPAIR:
                site = 'C04/takeuchi-solid/y6-slot'
        elif fam == 'kamata':
            rep = {k: repair_kamata_z(kind, v, r * (1 + k * H_FD), l, rho, K, mu, w) for k, v in ys.items()}
            if rep[0][0] is not None:
                ys2 = {k: v[0] for k, v in rep.items()}
                res2 = span_residuals(ys2, A, unit, r)
                xmin = min(abs(x) for v in rep.values() for x in v[1])
                detail['residual_after_exact_z'] = [a for a, _ in res2]
                detail['min_abs_x2_on_stencil'] = xmin
                if max(a / t for (a, _), t in zip(res2, tols)) <= 1.0 and xmin <= 0.1 * (1 + 1e-6):
                    site = 'C04/z-taylor-branch'
        viol.append((site, detail))
    # observable = the returned vectors themselves (scaled to common units, normalised, 6 significant digits)
    yn = (ys[0] / unit)
    yn = yn / np.max(np.abs(yn), axis=1)[:, None]
    obs = tuple(float('%.6g' % v) for v in np.concatenate([yn.real.ravel(), yn.imag.ravel()]))
    return dict(status='pass', viol=viol, obs=obs, worst=worst, over=max(over))


# =================================================================================================================
# z sub-lattice
# =================================================================================================================
def run_z(c):
    import cmath
    import numpy as np
    from mc.refmodels import ts72
    l, ax, arg, f = c['l'], c['ax'], c['arg'], c.get('f', 1.0)
    x2 = cmath.rect(ax, arg)
    rho = 3000.0 * f
    r = 1.0e5 * f
    if c['ch'] == 'solid-incompressible':
        w = 1e-4
        mu = w * w * rho * r * r / x2
        x2_eff = w * w * rho * r * r / mu                       # what the code is handed (rounding included)
        y = get_start(0, False, True, True, w, r, rho, 1e11, mu, l)
        z = r * y[0, 2]
    else:
        # liquid, compressible: x^2 = (w^2 + 4 gam - n1 gam^2/w^2) rho r^2/K, real; choose w for the sign, K for the size
        gam = 4.0 * math.pi * G * rho / 3.0
        n1 = l * (l + 1.0)
        w = math.sqrt(gam) * (10.0 if x2.real > 0 else 0.1)
        num = (w * w + 4.0 * gam - n1 * gam * gam / (w * w))
        K = num * rho * r * r / x2.real
        if K <= 0:
            return dict(status='inadmissible:sign', viol=[], obs=None)
        x2_eff = complex(num * rho / K * r * r)
        y = get_start(1, False, False, True, w, r, rho, K, 0j, l)
        fz = -w * w / gam
        z = -r * y[0, 0] / fz
    ref = ts72.z_mpmath(x2_eff, l)
    rel = abs(z - ref) / abs(ref) if np.isfinite(z.real) and np.isfinite(z.imag) else float('inf')
    viol = []
    if not (rel <= Z_TOL):
        detail = dict(x2=x2_eff, abs_x2=abs(x2_eff), got=z, want=ref, rel=rel)
        if abs(x2_eff) <= 0.1 * (1 + 1e-9) and rel <= Z_KNOWN_MAX:
            viol.append(('C04/z-taylor-branch', detail))
        else:
            viol.append(('C04/z/other', detail))
    return dict(status='pass', viol=viol, obs=(l, ax, arg, c['ch'], round(ref.real, 12), round(ref.imag, 12)), rel=rel)


# =================================================================================================================
# end-to-end sub-lattices
# =================================================================================================================
E_BODY = (6.0e6, 5000.0)


def e_physical(c):
    R, rho = E_BODY
    g = 4.0 / 3.0 * math.pi * G * rho * R
    pgr = rho * g * R
    amu = c['mt'] * pgr
    mu = amu * complex(1.0, c['td']) / math.hypot(1.0, c['td'])
    K = 1e4 * amu
    omega = math.sqrt(c['w2'] * g / R)
    return dict(R=R, rho=rho, g=g, mu=mu, K=K, omega=omega)


def e_planet(c, p, r0f):
    from mc import rs
    if c['planet'] == 'uniform':
        arrs, bulk, tops = rs.uniform_planet(p['R'], p['rho'], p['mu'], p['K'], N=60, r0_frac=r0f)
        return arrs, bulk, tops, 1, 0
    # uniform core (where the start radius moves) + lighter, stiffer mantle
    layers = [(E_CORE_FRAC * p['R'], p['rho'], p['mu'], p['K']), (p['R'], 0.6 * p['rho'], 2.5 * p['mu'], 2.0 * p['K'])]
    arrs, bulk, tops = rs.layered_planet(layers, N=40, r0_frac=r0f, tight=True)
    return arrs, bulk, tops, 2, 40


def e_solve(c, p, fam, r0f):
    """Gate pair at one r0. Returns (status, love, mantle_y, gate)."""
    import numpy as np
    from mc import rs
    kam, st, inc = FAMILIES[fam]
    out = []
    if (not kam) and r0f ** c['l'] < E_UNDERFLOW:
        return 'start-underflow', None, None, None
    for div in (1.0, 100.0):
        arrs, bulk, tops, nl, ncore = e_planet(c, p, r0f)
        t0 = time.time()
        s = rs.solve(arrs, p['omega'], bulk, ('solid',) * nl, (st,) * nl, (inc,) * nl, tops, degree_l=c['l'],
                     solve_for=('tidal',), use_kamata=kam, integration_method='DOP853', integration_rtol=E_RTOL / div,
                     integration_atol=E_ATOL / div, nondimensionalize=True, max_num_steps=E_MAX_STEPS, warnings=False)
        if time.time() - t0 > E_WALL_BUDGET_S:
            return 'timeout', None, None, None
        if s['status'] == 'exc':
            return 'exc:' + s['exc'], None, None, None
        if s['status'] != 'ok':
            return 'solver-fail', None, None, None
        lv = np.array(s['love'][0])
        if not np.all(np.isfinite(lv.view(np.float64))):
            return 'nonfinite', None, None, None
        # radial functions "above that region": the mantle base (first slice of the upper layer) and the surface slice.
        # (Interior slices are filled by the integrator's low-order dense output and do not converge with rtol --
        #  measured 1e-3 between rtol 1e-9 and 1e-11 -- so they cannot be gated and are not compared.)
        out.append((lv, np.array(s['result'][:6, [ncore, -1]]) if ncore else None))
    gate = float(np.max(np.abs(out[0][0] - out[1][0]) / np.maximum(1.0, np.abs(out[1][0]))))
    if ncore:
        gate = max(gate, _rel_y(out[0][1], out[1][1]))
    if not gate <= E_GATE:
        return 'gate', None, None, gate
    return 'ok', out[1][0], out[1][1], gate


def e_tol(fam):
    return E_TOL * (E_TOL_INC_FACTOR if FAMILIES[fam][2] else 1.0)


def _rel(a, b):
    import numpy as np
    return float(np.max(np.abs(a - b) / np.maximum(1.0, np.maximum(np.abs(a), np.abs(b)))))


def _rel_y(a, b):
    """radial functions (6 x slices): per component, relative to the component's largest modulus over the compared slices."""
    import numpy as np
    sc = np.maximum(np.max(np.abs(a), axis=1), np.max(np.abs(b), axis=1))
    sc = np.where(sc > 0, sc, 1.0)
    return float(np.max(np.max(np.abs(a - b), axis=1) / sc))


def run_r0(c):
    fam, l = c['fam'], c['l']
    p = e_physical(c)
    sols = {}
    stat = {}
    viol = []
    for r0f in E_R0F:
        s, lv, ym, gate = e_solve(c, p, fam, r0f)
        stat[r0f] = s
        if s == 'ok':
            sols[r0f] = (lv, ym, gate)
        elif s.startswith('exc:'):
            viol.append((f'C04/{fam}/exception/{s[4:]}', dict(r0f=r0f)))
        elif s == 'nonfinite':
            viol.append((f'C04/{fam}/nonfinite-love-with-success', dict(r0f=r0f)))
    if len(sols) < 2:
        return dict(status='pass' if viol else 'inadmissible:fewer-than-2-admitted-start-radii', viol=viol, obs=None, stat=stat)
    rc = 1.0 if c['planet'] == 'uniform' else E_CORE_FRAC
    keys = sorted(sols)
    worst = {}          # site -> (excess, detail)
    drift_tab = {}
    margin = 0.0
    for i, a in enumerate(keys):
        for b in keys[i + 1:]:
            la, ya, ga = sols[a]
            lb, yb, gb = sols[b]
            tol = e_tol(fam) + E_GATE_FACTOR * max(ga, gb)
            d_love = _rel(la, lb)
            d_y = _rel_y(ya, yb) if ya is not None else 0.0
            drift_tab[f'{a:g}-{b:g}'] = (d_love, d_y)
            law = DRIFT_LAW * (b / rc) ** (2 * l + 1)
            for what, d, fac in (('r0-drift', d_love, 1.0), ('r0-drift-radial-functions', d_y, E_TOL_Y_FACTOR)):
                if d <= tol * fac:
                    margin = max(margin, d / (tol * fac))
                if d > tol * fac:
                    if fam.startswith('takeuchi') and d <= law:
                        site = 'C04/takeuchi/r0-drift-y6'
                    else:
                        site = f'C04/{fam}/{what}'
                    det = dict(pair=(a, b), drift=d, tol=tol, law_bound=law, love_a=la, love_b=lb)
                    if site not in worst or d / tol > worst[site][0]:
                        worst[site] = (d / tol, det)
    for site, (_, det) in worst.items():
        viol.append((site, det))
    ref = sols[keys[0]][0]
    obs = (c['planet'], fam, l, round(c['mt'], 6), tuple(round(float(x), 9) for x in (ref[0].real, ref[0].imag, ref[1].real)))
    return dict(status='pass', viol=viol, obs=obs, drift=drift_tab, stat=stat, margin=margin)


def run_xfam(c):
    p = e_physical(c)
    pair = {'static': ('takeuchi-static', 'kamata-static'), 'dynamic': ('takeuchi-dynamic', 'kamata-dynamic-compressible')}[c['assumption']]
    got = []
    for fam in pair:
        s, lv, ym, gate = e_solve(c, p, fam, c['r0f'])
        if s.startswith('exc:'):
            return dict(status='pass', viol=[(f'C04/{fam}/exception/{s[4:]}', dict(r0f=c['r0f']))], obs=None)
        if s != 'ok':
            return dict(status=f'inadmissible:{fam}:{s}', viol=[], obs=None)
        got.append((lv, ym, gate))
    tol = E_TOL + E_GATE_FACTOR * max(got[0][2], got[1][2])
    d_love = _rel(got[0][0], got[1][0])
    d_y = _rel_y(got[0][1], got[1][1]) if got[0][1] is not None else 0.0
    viol = []
    rc = 1.0 if c['planet'] == 'uniform' else E_CORE_FRAC
    law = DRIFT_LAW * (c['r0f'] / rc) ** (2 * c['l'] + 1)
    for what, d, fac in (('takeuchi-vs-kamata', d_love, 1.0), ('takeuchi-vs-kamata-radial-functions', d_y, E_TOL_Y_FACTOR)):
        if d > tol * fac:
            site = 'C04/takeuchi/r0-drift-y6' if d <= law else f'C04/{c["assumption"]}/{what}'
            viol.append((site, dict(diff=d, tol=tol, takeuchi=got[0][0], kamata=got[1][0], law_bound=law)))
    lv = got[1][0]
    obs = (c['planet'], c['assumption'], c['l'], round(c['mt'], 6), c['r0f'], round(float(lv[0].real), 9), round(float(lv[0].imag), 9))
    return dict(status='pass', viol=viol, obs=obs, d_love=d_love, d_y=d_y,
                margin=max([d / (tol * fac) for d, fac in ((d_love, 1.0), (d_y, E_TOL_Y_FACTOR)) if d <= tol * fac] or [0.0]))


# =================================================================================================================
def run_case(c):
    from mc import env
    env.tidalpy()
    return {'ode': run_ode, 'z': run_z, 'r0': run_r0, 'xfam': run_xfam}[c['sub']](c)


def replay(case):
    return run_case(case)['viol']


def cases(tier, seed):
    return cases_ode(tier, seed) + cases_z(tier, seed) + cases_r0(tier, seed) + cases_xfam(tier, seed)


def run(ctx):
    from mc.core import run_lattice, HarnessError
    from mc.refmodels import ts72
    ok, W = ts72.selftest_ok()
    if not ok:
        raise HarnessError(f'reference model self-test failed: {W}')
    ctx.coverage['refmodel_selftest'] = {k: float('%.3g' % v) for k, v in W.items()}
    t, s = ctx.tier, ctx.seed
    res_ode = res = run_lattice(ctx, 'mc.props.C04:run_case', cases_ode(t, s),
                      rule='ode: family{Takeuchi,Kamata} x layer kind(6) x l{2,3,5,8} x core material(5) x omega(4) x r0/R(6): '
                           'span-invariance residual of the starting vectors under the TS72/S74/KMN15 reference matrices; '
                           'distinct = distinct returned starting-vector sets (scaled, normalised, 6 digits)', exhaustive=False, chunk=64)
    # vacuity: every implemented (family, kind) block must have admitted cases
    blocks = {}
    for c, r in zip(cases_ode(t, s), res):
        b = blocks.setdefault((c['fam'], c['kind']), [0, 0, 0])
        b[1] += 1
        st = r.get('status', 'pass')
        if st == 'inadmissible:not-implemented':
            b[2] += 1
        elif not st.startswith('inadmissible'):
            b[0] += 1
    ctx.coverage['ode_admitted_by_block'] = {f'{k[0]}/{k[1]}': f'{v[0]}/{v[1]}' for k, v in sorted(blocks.items())}
    short = []
    for k, (adm, tot, ni) in sorted(blocks.items()):
        if ni == tot:
            continue
        if adm < 0.15 * tot:
            short.append(f'ode block {k} admits only {adm}/{tot}')
    resz = run_lattice(ctx, 'mc.props.C04:run_case', cases_z(t, s),
                rule='z: l{2,3,5,8} x |x^2|(16 values straddling 0.1) x arg x^2(5) x observation channel(2) vs mpmath '
                     'x j_{l+1}(x)/j_l(x); distinct = distinct reference values', exhaustive=False)
    r0c = cases_r0(t, s)
    res = run_lattice(ctx, 'mc.props.C04:run_case', r0c,
                      rule='r0: planet{uniform, uniform core+mantle} x family(5) x l x mu~ ; each case = 6 start radii r0/R in '
                           '{1e-4..0.5} x 2 gate solves, pairwise agreement of Love numbers and mantle radial functions; '
                           'distinct = distinct Love numbers', exhaustive=False, chunk=1)
    mg = {}
    for c, r in zip(r0c, res):
        if 'margin' in r:
            mg[c['fam']] = max(mg.get(c['fam'], 0.0), r['margin'])
    ctx.coverage['r0_worst_passing_drift_over_tol_by_family'] = {k: float('%.3g' % v) for k, v in sorted(mg.items())}
    n_adm = sum(1 for r in res for v in (r.get('stat') or {}).values() if v == 'ok')
    ctx.coverage['r0_admitted_solves'] = f'{n_adm}/{len(r0c) * len(E_R0F)}'
    resx = run_lattice(ctx, 'mc.props.C04:run_case', cases_xfam(t, s),
                rule='xfam: planet x {static, dynamic} x l x mu~ x r0/R{1e-3,1e-2,5e-2}: Takeuchi vs Kamata Love numbers / mantle radial functions',
                exhaustive=False, chunk=1)
    ctx.coverage['xfam_worst_passing_diff_over_tol'] = float('%.3g' % max([r.get('margin', 0.0) for r in resx] or [0.0]))
    ctx.coverage['z_worst_passing_rel'] = float('%.3g' % max([r.get('rel', 0.0) for r in resz if not r.get('viol')] or [0.0]))
    ode_m = {}
    for c, r in zip(cases_ode(t, s), res_ode):
        if 'over' in r and not r.get('viol'):
            k = c['fam'] + '/' + c['kind']
            ode_m[k] = max(ode_m.get(k, 0.0), r['over'])
    ctx.coverage['ode_worst_passing_residual_over_tol'] = {k: float('%.3g' % v) for k, v in sorted(ode_m.items())}
    for name, rr, need in (('z', resz, 0.8), ('r0', res, 0.6), ('xfam', resx, 0.4)):
        adm = sum(1 for r in rr if not r.get('status', 'pass').startswith('inadmissible'))
        if adm < need * len(rr):
            short.append(f'{name} sub-lattice admits only {adm}/{len(rr)} (< {need:.0%})')
    from mc.props.C01 import vacuity_guard
    vacuity_guard(ctx, short)
    ctx.coverage['tolerance'] = dict(ode=TOL_ODE, ode_cond=TOL_ODE_COND, repair=TOL_REPAIR, z=Z_TOL, z_known_max=Z_KNOWN_MAX,
                                     e_tol=E_TOL, e_gate=E_GATE, e_rtol=E_RTOL, e_atol=E_ATOL, drift_law=DRIFT_LAW)
