"""C10 -- mode-summed tidal heating / potential derivatives: identities, limits, sign, and an ungrouped reference.

E1 lattice.  A *configuration* is (entry point, rheology, orbit a/R, l_max, eccentricity truncation, obliquity slot); inside a
configuration the complete physical grid spin/n x e is executed with scalar inputs and again through every array / mixed
scalar-array input form.  The worker pool is fed one bundle (entry, rheology, orbit) per task, which runs the whole
l_max x truncation x obliquity sub-lattice (compliance helpers of TidalPy cannot be cached by numba; bundling along the rheology
keeps the JIT cost per worker small).  Real code: `quick_tidal_dissipation` (entry 'quick') and `calculate_terms` +
`collapse_modes` fed by hand (entry 'direct', with tidal_scale = 0.6 and a hand-computed susceptibility).

Oracles (sites in brackets; every comparison is relative to the sum of |mode terms| of the reference):
 (i)   heating == M_host (n dU/dM - spin dU/dOmega)                                   [identity]
 (ii)  e = 0, spin == n, obliquity None: heating and the three derivatives are exactly 0; obliquity 0.0 through the general
       inclination tables: |.| <= 1e-12 of the full-amplitude scale (3/2) G M^2 R^5 / a^6 * n    [rest-state]
 (iii) spin == n, truncation 2, l_max 2, obliquity 0/None: heating == (21/2)(-Im k2) G M^2 R^5 n e^2 / a^6, with
       -Im k2(n) from the closed form and (when n is the only forcing frequency) from the returned negative_imk_by_orderl
                                                                                         [classical-limit]
 (iv)  heating >= 0 for passive rheologies wherever every tabulated G^2 (and F^2) entry is non-negative on [0, e]
       (the tables are evaluated, nothing is assumed about them)                         [heating-negative]
 (v)   ungrouped reference (mc.refmodels.mode_sum): plain flat sum over every (l, m, p, q) of the same tables with the
       universal coefficient from factorials, (R/a)^(2l+1), -Im k_l(|w|) sgn w from the closed-form Love number;
       heating and the three derivatives [ungrouped/*]; for the direct entry also the set of unique frequency
       signatures, their values, and every grouped (signature, l) term tuple [unique-frequencies/*, grouped-terms]
 (vi)  array and mixed scalar/array calls equal the element-wise scalar calls             [array-vs-scalar]
Exceptions of the code under test are violations [<entry>/exception/<Type>]; two defects of the pinned tree have narrow sites
of their own (see _classify_exception).
"""
import math

LEVEL = 'exploration'
ASSUMPTIONS = [
    'continuous parameters (n via a/R, spin/n, e, obliquity, viscosity) are decided on the stated grid only; the seed '
    'rescales the physical menu, the configuration lattice is complete in both tiers',
    'F^2 / G^2 values are read from the tables under test (C08 / C09 decide them); complex compliances from the legacy '
    'compliance functions (.py_func; C07 decides them); the Love number is the homogeneous closed form (C12)',
    'heating >= 0 is asserted only where every G^2 entry of the truncation is non-negative on a 0.005-grid of [0, e] and at e',
    'CPL / CTL use the same fixed k2 (and Q or dt) for every degree l, as TidalPy defines these models',
]

G = 6.6743e-11
TOL = 1e-10            # identity / reference / classical limit, relative to the sum of |terms|
TOL_ARR = 1e-11        # array vs scalar
HOST_MASS, RADIUS, MASS, MOI_FACTOR = 1.898e27, 1.82e6, 8.93e22, 0.378
SHEAR = 6.0e10

RHEOS = {'maxwell': (), 'andrade': (0.3, 1.0), 'burgers': (0.2, 0.02), 'sundberg': (0.2, 0.02, 0.3, 1.0),
         'voigt': (0.2, 0.02), 'newton': (), 'elastic': (), 'off': (), 'cpl': (), 'ctl': ()}
LMAX = [2, 3, 4, 5, 6, 7]
TRUNC = [2, 4, 6, 10, 20]                        # + 22 for l_max = 2
A_OVER_R = [2.2, 12.0, 231.0]                    # close (every l visible in the totals), intermediate, Io-like
SPIN_RATIOS = [1.0, 0.0, 0.5, 1.5, 2.0, 3.0, -0.5, -1.5, -3.0, 1.0 + 1e-9, 0.7312, -1.37]
SPIN_QUICK = [1.0, 0.0, 0.5, 2.0, -1.5, 1.0 + 1e-9, 0.7312]
ECC = [0.0, 0.01, 0.1, 0.3, 0.5]
ECC_QUICK = [0.0, 0.1, 0.5]
OBLIQ = [None, 0.0, 0.1, 0.7, math.pi / 2]
OBLIQ_QUICK = [None, 0.0, 0.7]
VISC_RATIO = [1.0, 0.1, 10.0, 0.01, 100.0]       # eta = mu * x / n (Maxwell time in units of 1/n); rotated by the seed
SEED_FACTOR = [1.0, 1.07, 0.93, 1.31, 0.77, 1.9]


def configs(tier):
    """The complete configuration sub-lattice executed inside one case: l_max x truncation x obliquity slot."""
    obls = OBLIQ if tier == 'thorough' else OBLIQ_QUICK
    return [dict(lmax=lmax, N=N, obl=ob) for lmax in LMAX for N in TRUNC + ([22] if lmax == 2 else []) for ob in obls]


def cases(tier, seed):
    """One case = (entry point, rheology, orbit).  A case runs the whole l_max x truncation x obliquity sub-lattice (and, inside every
    configuration, the physical grid and all input forms).  Cases are cut along the rheology on purpose: TidalPy's compliance
    helpers are numba functions that cannot be cached on disk, so every worker process pays ~5 s of JIT per rheology it meets."""
    f = SEED_FACTOR[seed % len(SEED_FACTOR)]
    x = VISC_RATIO[seed % len(VISC_RATIO)]
    orbits = A_OVER_R if tier == 'thorough' else A_OVER_R[:1]
    return [dict(entry=entry, rheo=rheo, a_over_R=aor * f, x=x, f=f, tier=tier)
            for aor in orbits for entry in ('quick', 'direct') for rheo in RHEOS]


# ------------------------------------------------------------------------------------------------------------------
def _phys(c):
    f = c['f']
    R = RADIUS
    m = MASS * f
    Mh = HOST_MASS
    rho = m / (4.0 / 3.0 * math.pi * R ** 3)
    g = G * m / R ** 2
    a = c['a_over_R'] * R
    n = math.sqrt(G * (Mh + m) / a ** 3)
    mu = SHEAR * f
    eta = mu * c['x'] / n
    return dict(R=R, m=m, Mh=Mh, rho=rho, g=g, a=a, n=n, mu=mu, eta=eta, moi=MOI_FACTOR * m * R * R)


def _kepler_a(n, Mh, m):
    return (G * (Mh + m) / n ** 2) ** (1.0 / 3.0)


_VALID = {}


def _valid_e(lmax, N):
    """Largest grid eccentricity e_v such that every G^2 entry (l <= lmax, truncation N) is >= 0 on the grid [0, e_v]."""
    key = (lmax, N)
    if key not in _VALID:
        import numpy as np
        from TidalPy.tides.modes.mode_manipulation import find_mode_manipulators
        ef = find_mode_manipulators(lmax, N, False)[2]
        grid = np.linspace(0.0, 0.6, 121)
        res = ef(grid)
        ok = np.ones(len(grid), dtype=bool)
        for l in range(2, lmax + 1):
            for p in res[l]:
                for q, v in res[l][p].items():
                    ok &= np.asarray(v) >= 0.0
        bad = np.nonzero(~ok)[0]
        _VALID[key] = float(grid[bad[0] - 1]) if len(bad) and bad[0] > 0 else (0.6 if not len(bad) else -1.0)
    return _VALID[key]


class _Viol:
    """Collect violations: one record per site (first detail + count)."""

    def __init__(self):
        self.d = {}

    def add(self, site, detail):
        if site in self.d:
            self.d[site]['count'] += 1
        else:
            detail = dict(detail)
            detail['count'] = 1
            self.d[site] = detail

    def list(self):
        return [(s, d) for s, d in self.d.items()]


def _is_arr(x):
    import numpy as np
    return isinstance(x, np.ndarray)


def _classify_exception(ex, entry, rheo, scalar_love, zero_mode_kept):
    """Narrow sites for the two known defects; everything else is a generic exception site."""
    t = type(ex).__name__
    msg = str(ex)
    if (t == 'ZeroDivisionError' and msg.strip() == 'division by zero' and rheo in ('elastic', 'off') and scalar_love):
        # collapse_modes, float Love numbers (spin, n, viscosity, shear all floats): every mode has -Im k == 0 -> every
        # effective Q is "bad" -> the per-degree average divides by N - bad_qs == 0
        return 'C10/collapse_modes/exception/ZeroDivisionError/lossless-body-float-love-number'
    if t == 'ZeroDivisionError' and 'complex division by zero' in msg and rheo == 'newton' and zero_mode_kept:
        # newton compliance returns J = 0 at zero frequency -> complex_love_general divides by J*mu == 0
        return 'C10/complex_love/exception/ZeroDivisionError/newton-zero-frequency-mode'
    return f'C10/{entry}/exception/{t}'


# ------------------------------------------------------------------------------------------------------------------
def _run_config(c):
    import numpy as np
    from mc.refmodels import mode_sum as ms
    from TidalPy.tides.modes.mode_manipulation import find_mode_manipulators
    from TidalPy.toolbox.quick_tides import quick_tidal_dissipation

    P = _phys(c)
    entry, rheo, lmax, N, obl = c['entry'], c['rheo'], c['lmax'], c['N'], c['obl']
    quick_tier = c.get('tier', 'quick') == 'quick'
    SR = SPIN_QUICK if quick_tier else SPIN_RATIOS
    EE = ECC_QUICK if quick_tier else ECC
    if 'only' in c:                       # hand-made replay reductions
        SR, EE = [c['only'][0]], [c['only'][1]]
    n, a, R, Mh, mu, eta = P['n'], P['a'], P['R'], P['Mh'], P['mu'], P['eta']
    use_obl = obl is not None
    obl_val = obl if use_obl else 0.0
    tidal_scale = 1.0 if entry == 'quick' else 0.6
    fixed_k2, fixed_q = 0.3, 100.0
    fixed_dt = (1.0 / fixed_q) * (1.0 / n)
    args = RHEOS[rheo]
    V = _Viol()
    stats = dict(calls=0, worst_identity=0.0, worst_ref=0.0, worst_classical=0.0, worst_array=0.0, worst_group=0.0,
                 sign_admitted=0, sign_outside=0, exceptions=0, skipped_on_known_defect=0, transient_exceptions=0)

    calc_terms, collapse, efunc, ifunc = find_mode_manipulators(lmax, N, use_obl)
    inc_tab = ifunc(obl_val)

    def love_for(mu_, eta_, n_):
        return ms.LoveModel(rheo, mu_, eta_, P['rho'], P['g'], R, args=args, tidal_scale=tidal_scale,
                            fixed_k2=fixed_k2, fixed_q=fixed_q, fixed_dt=(1.0 / fixed_q) * (1.0 / n_))

    love = love_for(mu, eta, n)
    tabs = {}

    def table(e, ob=None):
        key = (e, ob)
        if key not in tabs:
            it = inc_tab if ob is None else ifunc(ob)
            tabs[key] = ms.ModeTable(efunc(float(e)), it, lmax)
        return tabs[key]

    # ---- the two entry points -----------------------------------------------------------------------------------
    def call_quick(spin, e, n_=n, ob=obl, eta_=eta, mu_=mu):
        r = quick_tidal_dissipation(Mh, R, P['m'], P['g'], P['rho'], P['moi'], viscosity=eta_, shear_modulus=mu_,
                                    rheology=rheo, complex_compliance_inputs=args, eccentricity=e, obliquity=ob,
                                    orbital_frequency=n_, spin_frequency=spin, max_tidal_order_l=lmax,
                                    eccentricity_truncation_lvl=N, tidal_scale=tidal_scale, fixed_k2=fixed_k2,
                                    fixed_q=fixed_q)
        return dict(H=r['tidal_heating'], dUdM=r['dUdM'], dUdw=r['dUdw'], dUdO=r['dUdO'],
                    negimk=r['negative_imk_by_orderl'], torque=r['tidal_torque'])

    def call_direct(spin, e, n_=n, ob=obl, eta_=eta, mu_=mu, want_terms=False):
        from TidalPy.rheology.complex_compliance import known_models
        from TidalPy.rheology.complex_compliance.complex_compliance import compliance_dict_helper
        from TidalPy.tides.ctl_funcs import linear_dt
        from TidalPy.tides.methods.global_approx import cpl_neg_imk_helper_func, ctl_neg_imk_helper_func
        if spin is None:
            spin = n_                                               # the very same object: "spin-locked for sure"
        arrs = [x for x in (spin, n_, e, ob, eta_, mu_) if _is_arr(x)]
        if arrs:                                                   # orbit / state vectors must share a shape
            one = np.ones_like(arrs[0], dtype=float)
            if _is_arr(spin) or _is_arr(n_):
                same = spin is n_
                n_ = n_ * one if not _is_arr(n_) else n_
                spin = n_ if same else (spin * one if not _is_arr(spin) else spin)
        if _is_arr(eta_) and not _is_arr(mu_):                      # compliance_dict_helper sizes its result by the compliance
            mu_ = mu_ * np.ones_like(eta_)
        a_ = (G * (Mh + P['m']) / n_ ** 2) ** (1.0 / 3.0)
        ecc = efunc(e)
        inc = ifunc(ob if ob is not None else 0.0)
        uf, terms = calc_terms(spin, n_, a_, R, ecc, inc, multiply_modes_by_sign=True)
        if rheo == 'cpl':
            cc = cpl_neg_imk_helper_func(uf, fixed_k2, fixed_q)
        elif rheo == 'ctl':
            cc = ctl_neg_imk_helper_func(uf, fixed_k2, linear_dt, ((1.0 / fixed_q) * (1.0 / n_),))
        else:
            cc = compliance_dict_helper(uf, known_models[rheo], (mu_ ** (-1), eta_), args)
        sus = 1.5 * G * Mh ** 2 * R ** 5 / a_ ** 6
        is_cpl = rheo in ('cpl', 'ctl')
        out = collapse(P['g'], R, P['rho'], 1.0 if is_cpl else mu_, tidal_scale, Mh, sus, cc, terms, lmax, is_cpl)
        d = dict(H=out[0], dUdM=out[1], dUdw=out[2], dUdO=out[3], negimk=out[5], torque=None)
        if want_terms:
            d['uf'] = {(int(k[0]), int(k[1])): v for k, v in uf.items()}
            d['terms'] = {(int(k[0]), int(k[1])): {int(l): tuple(t) for l, t in v.items()} for k, v in terms.items()}
            d['a'] = a_
        return d

    call = call_quick if entry == 'quick' else call_direct

    def zero_mode_kept(tab, n_, s_, same_object):
        w = tab.ncoef * n_ - tab.m * s_
        z = (w == 0.0) & ~((tab.m == 0) & (tab.ncoef == 0))
        if same_object:
            z &= ~(tab.ncoef == tab.m)
        return bool(z.any())

    def predict_known_defect(spin, e, kw):
        """Which of the two known defects (if any) the inputs of this call lie on: 'lossless' | 'newton' | None."""
        n_ = kw.get('n_', n)
        if rheo in ('elastic', 'off'):
            scalar_love = not any(_is_arr(x) for x in (spin, n_, kw.get('eta_'), kw.get('mu_')))
            return 'lossless' if scalar_love else None
        if rheo != 'newton':
            return None
        same_obj = spin is None or ((not _is_arr(spin)) and (not _is_arr(n_)) and spin == n_)
        s_ = n_ if spin is None else spin
        ee = np.atleast_1d(np.asarray(e if e is not None else 0.0, dtype=float))
        nn = np.atleast_1d(np.asarray(n_, dtype=float))
        ss = np.atleast_1d(np.asarray(s_, dtype=float))
        ob_k = kw.get('ob', obl)
        oo = np.atleast_1d(np.asarray(ob_k if ob_k is not None else 0.0, dtype=float))
        for i in range(max(len(ee), len(nn), len(ss), len(oo))):
            ob_i = float(oo[i % len(oo)])
            tb = table(float(ee[i % len(ee)]), None if (ob_k is None or ob_i == obl_val) else ob_i)
            if zero_mode_kept(tb, float(nn[i % len(nn)]), float(ss[i % len(ss)]), same_obj):
                return 'newton'
        return None

    known_hits = {'lossless': 0, 'newton': 0}
    MAX_KNOWN_HITS = 2          # numba leaks every structure allocated before a raise (~0.1 MB per raising call here): once a known
    #                             defect has been re-derived this often in a configuration, further calls *on the same defect's
    #                             input family* are not executed (counted in skipped_on_known_defect); nothing is skipped otherwise

    def guarded(form, spin, e, **kw):
        """Call the code under test; an exception becomes a violation (narrowly classified) and returns None."""
        pred = predict_known_defect(spin, e, kw)
        if pred is not None and known_hits[pred] >= MAX_KNOWN_HITS:
            stats['skipped_on_known_defect'] += 1
            return None
        stats['calls'] += 1
        try:
            return call(spin, e, **kw)
        except Exception as ex:            # noqa: BLE001 -- exceptions of the code under test are the subject
            n_ = kw.get('n_', n)
            s_ = n_ if spin is None else spin
            site = _classify_exception(ex, entry, rheo, pred == 'lossless', pred == 'newton')
            if site.startswith(f'C10/{entry}/exception/'):
                # not one of the two known signatures: a deterministic defect raises again; a transient infrastructure hiccup
                # (seen once: AssertionError while 16 processes were filling a cold numba cache) does not
                try:
                    r = call(spin, e, **kw)
                    stats['transient_exceptions'] += 1
                    return r
                except Exception as ex2:   # noqa: BLE001
                    ex = ex2
                    site = _classify_exception(ex, entry, rheo, pred == 'lossless', pred == 'newton')
            stats['exceptions'] += 1
            if site.endswith(('lossless-body-float-love-number', 'newton-zero-frequency-mode')):
                known_hits[pred] += 1
            V.add(site, dict(form=form, spin_over_n=_ratio(s_, n_), e=e, msg=str(ex)[:200]))
            return None

    def _ratio(s_, n_):
        try:
            return (np.asarray(s_, dtype=float) / np.asarray(n_, dtype=float)).tolist()
        except Exception:       # pragma: no cover
            return None

    def check_scalar(res, sr, s_, e, n_=n, love_=love, ob=None, form='scalar', a_=None):
        """Oracles (i)-(v) on one scalar result."""
        a_ = a if a_ is None else a_
        tab = table(e, ob)
        ref = ms.mode_sum(tab, love_, n_, s_, a_, R, Mh)
        H, dM, dw, dO = (float(res[k]) for k in ('H', 'dUdM', 'dUdw', 'dUdO'))
        where = dict(form=form, spin_over_n=sr, e=e, n=n_)
        if not all(math.isfinite(v) for v in (H, dM, dw, dO)):
            V.add(f'C10/{entry}/nonfinite', dict(where, H=H, dUdM=dM, dUdw=dw, dUdO=dO))
            return ref
        # (i) identity
        lhs = Mh * (n_ * dM - s_ * dO)
        sc = Mh * (abs(n_) * ref['sM'] + abs(s_) * ref['sO']) + ref['sH']
        d = abs(H - lhs)
        if d > TOL * sc:
            V.add(f'C10/{entry}/identity', dict(where, heating=H, from_derivatives=lhs, scale=sc))
        if sc > 0:
            stats['worst_identity'] = max(stats['worst_identity'], d / sc)
        # (v) ungrouped reference
        for key, sk, got in (('H', 'sH', H), ('dUdM', 'sM', dM), ('dUdw', 'sw', dw), ('dUdO', 'sO', dO)):
            d = abs(got - ref[key])
            if d > TOL * ref[sk]:
                V.add(f'C10/{entry}/ungrouped/{key}', dict(where, got=got, want=ref[key], scale=ref[sk]))
            if ref[sk] > 0:
                stats['worst_ref'] = max(stats['worst_ref'], d / ref[sk])
        # (ii) rest state.  Obliquity None: F^2 are exact constants and G^2(0) = 0 exactly -> exact zeros.  Obliquity 0.0 through
        # the general inclination tables: entries that vanish at I = 0 are evaluated as trigonometric polynomials and may leave
        # ~1e-33 residues, so "vanishes" is relative to the full-amplitude scale  (3/2) G M^2 R^5 / a^6 * n.
        if e == 0.0 and s_ == n_ and (ob if ob is not None else obl_val) == 0.0:
            sus = 1.5 * G * Mh ** 2 * R ** 5 / a_ ** 6
            tolH, tolD = (0.0, 0.0) if not use_obl else (1e-12 * sus * abs(n_), 1e-12 * sus / Mh)
            if not (abs(H) <= tolH and abs(dM) <= tolD and abs(dw) <= tolD and abs(dO) <= tolD):
                V.add(f'C10/{entry}/rest-state', dict(where, H=H, dUdM=dM, dUdw=dw, dUdO=dO, allowed_H=tolH, allowed_dU=tolD))
        # (iii) classical limit
        if s_ == n_ and N == 2 and lmax == 2 and (ob if ob is not None else obl_val) == 0.0:
            base = 10.5 * G * Mh ** 2 * R ** 5 * n_ * e * e / a_ ** 6
            k2 = float(love_.neg_imk(np.array([2]), np.array([abs(n_)]))[0])
            want = base * k2
            d = abs(H - want)
            if d > TOL * abs(want):
                V.add(f'C10/{entry}/classical-limit', dict(where, got=H, want=want, neg_imk2=k2))
            if want != 0:
                stats['worst_classical'] = max(stats['worst_classical'], d / abs(want))
            if form in ('scalar', 'spin-none') and not use_obl:   # only then is n the single forcing frequency kept, so that the
                # returned (frequency-averaged) negative_imk_by_orderl[2] is -Im k2(n)
                k2r = float(res['negimk'][2])
                want_r = base * k2r
                if abs(H - want_r) > TOL * abs(want_r) or abs(k2r - k2) > TOL * abs(k2):
                    V.add(f'C10/{entry}/classical-limit', dict(where, got=H, want=want_r, returned_neg_imk2=k2r, neg_imk2=k2))
        # (iv) sign
        ev = _valid_e(lmax, N)
        if e <= ev and tab.min_g2() >= 0.0 and tab.min_f2() >= 0.0 and ref['min_negimk'] >= 0.0:
            stats['sign_admitted'] += 1
            if H < -1e-13 * ref['sH']:
                V.add(f'C10/{entry}/heating-negative', dict(where, H=H, scale=ref['sH'], e_valid=ev))
        else:
            stats['sign_outside'] += 1
        return ref

    def cmp_elem(form, got, want, scale, where):
        """array element vs scalar call"""
        for k in ('H', 'dUdM', 'dUdw', 'dUdO'):
            g_, w_ = float(got[k]), float(want[k])
            sc = scale[{'H': 'sH', 'dUdM': 'sM', 'dUdw': 'sw', 'dUdO': 'sO'}[k]]
            if not math.isfinite(g_) or abs(g_ - w_) > TOL_ARR * sc:
                V.add(f'C10/{entry}/array-vs-scalar', dict(where, form=form, quantity=k, array_value=g_, scalar_value=w_, scale=sc))
                return
            if sc > 0:
                stats['worst_array'] = max(stats['worst_array'], abs(g_ - w_) / sc)

    def elem(res, i):
        out = {}
        for k in ('H', 'dUdM', 'dUdw', 'dUdO'):
            v = res[k]
            out[k] = v[i] if _is_arr(v) else v
        return out

    def shape_ok(form, res, L, where):
        for k in ('H', 'dUdM', 'dUdw', 'dUdO'):
            if not (_is_arr(res[k]) and res[k].shape == (L,)):
                V.add(f'C10/{entry}/array-vs-scalar', dict(where, form=form, quantity=k, problem='result is not an array of the input length',
                                                           got_type=type(res[k]).__name__, got_shape=getattr(res[k], 'shape', None)))
                return False
        return True

    # ---- 1. scalar grid -------------------------------------------------------------------------------------------
    S, REF = {}, {}
    obs = []
    for sr in SR:
        s_ = sr * n
        for e in EE:
            r = guarded('scalar', s_, e)
            if r is None:
                continue
            REF[(sr, e)] = check_scalar(r, sr, s_, e)
            S[(sr, e)] = r
            obs.append('%.9e' % float(r['H']))

    # ---- 1b. direct entry: frequency signatures and grouped terms --------------------------------------------------
    if entry == 'direct':
        for sr in SR:
            s_ = sr * n
            for e in (EE[-1:] if len(EE) > 1 else EE):          # key structure does not depend on e; values checked at the largest e
                if predict_known_defect(s_, e, {}) is not None:
                    continue                                      # reported by the scalar grid
                stats['calls'] += 1
                try:
                    d = call_direct(s_, e, want_terms=True)
                except Exception:
                    continue                                      # already reported by the scalar grid
                tab = table(e)
                refg = ms.grouped_terms(tab, n, s_, a, R)
                uf, terms = d['uf'], d['terms']
                where = dict(spin_over_n=sr, e=e)
                if set(uf) != set(terms):
                    V.add('C10/direct/unique-frequencies/keys', dict(where, problem='unique_frequencies and results_by_frequency keys differ',
                                                                      only_freq=sorted(set(uf) - set(terms))[:5], only_terms=sorted(set(terms) - set(uf))[:5]))
                for sig, val in uf.items():
                    want = abs(sig[0] * n + sig[1] * s_)
                    sc = abs(sig[0] * n) + abs(sig[1] * s_)
                    if abs(float(val) - want) > 1e-14 * sc:
                        V.add('C10/direct/unique-frequencies/value', dict(where, sig=sig, got=float(val), want=want))
                lib = {}
                dup = False
                for sig, byl in terms.items():
                    ns = ms.normalise_library_sig(sig)
                    for l, t in byl.items():
                        if (ns, l) in lib:
                            dup = True
                        lib[(ns, l)] = t
                if dup:
                    V.add('C10/direct/unique-frequencies/keys', dict(where, problem='two library signatures denote the same mode family'))
                ref_nonzero = {k for k, v in refg.items() if v[5] != 0.0}
                ref_zero = {k for k, v in refg.items() if v[5] == 0.0}
                missing = ref_nonzero - set(lib)
                extra = set(lib) - ref_nonzero - ref_zero
                if missing or extra:
                    V.add('C10/direct/unique-frequencies/keys', dict(where, missing=sorted(missing)[:5], extra=sorted(extra)[:5],
                                                                      n_missing=len(missing), n_extra=len(extra)))
                for key, t in lib.items():
                    rv = refg.get(key)
                    if rv is None:
                        continue
                    pairs = ((float(t[0]), rv[0], rv[6]), (float(t[1]), rv[1], rv[4]), (float(t[2]), rv[2], rv[4]), (float(t[3]), rv[3], rv[4]))
                    for qi, (g_, w_, sc) in enumerate(pairs):
                        dd = abs(g_ - w_)
                        if not math.isfinite(g_) or dd > TOL * sc:
                            V.add('C10/direct/grouped-terms', dict(where, sig=key[0], l=key[1], quantity=('heating', 'dUdM', 'dUdw', 'dUdO')[qi],
                                                                     got=g_, want=w_, scale=sc))
                            break
                        if sc > 0:
                            stats['worst_group'] = max(stats['worst_group'], dd / sc)

    # ---- 2. array / mixed forms -------------------------------------------------------------------------------------
    grid = [(sr, e) for sr in SR for e in EE]
    if len(grid) > 1:
        L = len(grid)
        A = lambda v: np.full(L, float(v))                       # noqa: E731
        spin_arr = np.array([sr * n for sr, _ in grid])
        e_arr = np.array([e for _, e in grid])
        forms = [('all-array', dict(spin=spin_arr, e=e_arr, n_=A(n), eta_=A(eta), mu_=A(mu), **({'ob': A(obl)} if use_obl else {}))),
                 ('spin+e-array', dict(spin=spin_arr, e=e_arr))]
        for form, kw in forms:
            kw = dict(kw)
            spin_ = kw.pop('spin'); e_ = kw.pop('e')
            r = guarded(form, spin_, e_, **kw)
            if r is None or not shape_ok(form, r, L, {}):
                continue
            for i, key in enumerate(grid):
                if key in S:
                    cmp_elem(form, elem(r, i), S[key], REF[key], dict(spin_over_n=key[0], e=key[1]))
        # e-array per spin, spin-array per e
        for sr in SR:
            r = guarded('e-array', sr * n, np.array(EE))
            if r is None or not shape_ok('e-array', r, len(EE), dict(spin_over_n=sr)):
                continue
            for i, e in enumerate(EE):
                if (sr, e) in S:
                    cmp_elem('e-array', elem(r, i), S[(sr, e)], REF[(sr, e)], dict(spin_over_n=sr, e=e))
        for e in EE:
            r = guarded('spin-array', np.array([sr * n for sr in SR]), e)
            if r is None or not shape_ok('spin-array', r, len(SR), dict(e=e)):
                continue
            for i, sr in enumerate(SR):
                if (sr, e) in S:
                    cmp_elem('spin-array', elem(r, i), S[(sr, e)], REF[(sr, e)], dict(spin_over_n=sr, e=e))
        # spin omitted (spin is the very same object as n)
        for e in EE:
            r = guarded('spin-none', None, e)
            if r is not None:
                ref = check_scalar(r, 1.0, n, e, form='spin-none')
                if (1.0, e) in S:
                    cmp_elem('spin-none', elem(r, 0), S[(1.0, e)], ref, dict(spin_over_n=1.0, e=e))
            r = guarded('spin-none+n-array', None, e, n_=np.array([n, n]))
            if r is not None and shape_ok('spin-none+n-array', r, 2, dict(e=e)) and (1.0, e) in S:
                for i in (0, 1):
                    cmp_elem('spin-none+n-array', elem(r, i), S[(1.0, e)], REF[(1.0, e)], dict(spin_over_n=1.0, e=e))
        if 0.0 in EE and entry == 'quick':
            for sr in SR:
                r = guarded('e-none', sr * n, None)
                if r is not None and (sr, 0.0) in S:
                    cmp_elem('e-none', elem(r, 0), S[(sr, 0.0)], REF[(sr, 0.0)], dict(spin_over_n=sr, e=None))
        # one-argument arrays with two different values; the second value needs its own scalar call (+ all scalar oracles)
        pick = grid[(lmax * 7 + N + len(rheo)) % len(grid)]
        pick2 = grid[(lmax * 5 + N * 3 + len(rheo) + 3) % len(grid)]
        for (sr, e) in {pick, pick2}:
            s_ = sr * n
            if (sr, e) not in S:
                continue
            one_arg = [('n-array', dict(n_=np.array([n, 1.3 * n])), dict(n_=1.3 * n)),
                       ('visc-array', dict(eta_=np.array([eta, 2.7 * eta])), dict(eta_=2.7 * eta)),
                       ('shear-array', dict(mu_=np.array([mu, 0.6 * mu])), dict(mu_=0.6 * mu))]
            if use_obl:
                ob2 = obl_val * 0.5 + 0.3
                one_arg.append(('obliquity-array', dict(ob=np.array([obl_val, ob2])), dict(ob=ob2)))
            for form, kw_arr, kw_sc in one_arg:
                if rheo in ('cpl', 'ctl') and form in ('visc-array', 'shear-array'):
                    continue                      # CPL / CTL ignore viscosity and shear: the result stays scalar by design
                ra = guarded(form, s_, e, **kw_arr)
                rs = guarded(form + '/scalar-twin', s_, e, **kw_sc)
                if ra is None or rs is None or not shape_ok(form, ra, 2, dict(spin_over_n=sr, e=e)):
                    continue
                n2 = kw_sc.get('n_', n)
                love2 = love_for(kw_sc.get('mu_', mu), kw_sc.get('eta_', eta), n2)
                ref2 = check_scalar(rs, s_ / n2, s_, e, n_=n2, love_=love2, ob=kw_sc.get('ob'), form=form + '/scalar-twin',
                                    a_=_kepler_a(n2, Mh, P['m']))
                cmp_elem(form, elem(ra, 0), S[(sr, e)], REF[(sr, e)], dict(spin_over_n=sr, e=e, element=0))
                cmp_elem(form, elem(ra, 1), rs, ref2, dict(spin_over_n=sr, e=e, element=1))

    nontrivial = [o for o in obs if float(o) != 0.0]
    return dict(status='pass', viol=V.list(), obs=tuple(obs) if nontrivial else None, stats=stats)


def run_case(c):
    """c: dict(entry, rheo, a_over_R, x, f, tier [, only_config=dict(lmax, N, obl)] [, only=(spin ratio, e)])."""
    from mc import env
    env.tidalpy()
    cfgs = [c['only_config']] if c.get('only_config') else configs(c.get('tier', 'quick'))
    viol, stats, sub_obs = {}, {}, []
    for cfg in cfgs:
        flat = dict(c)
        flat.pop('only_config', None)
        flat.update(cfg)
        r = _run_config(flat)
        for site, detail in r['viol']:
            if site in viol:
                viol[site]['count'] += detail.get('count', 1)
                viol[site]['configs_with_this_site'] += 1
            else:
                d = dict(detail)
                d['config'] = dict(cfg)
                d['configs_with_this_site'] = 1
                viol[site] = d
        for k, v in r['stats'].items():
            stats[k] = max(stats.get(k, 0.0), v) if k.startswith('worst') else stats.get(k, 0) + v
        sub_obs.append(r['obs'])
    return dict(status='pass', viol=list(viol.items()), obs=(c['entry'], c['rheo'], tuple(sub_obs)), stats=stats,
                n_configs=len(cfgs), sub_obs=sub_obs)


def replay(case):
    return run_case(case)['viol']


def run(ctx):
    from mc.core import run_lattice, stable_hash
    cs = cases(ctx.tier, ctx.seed)
    ncfg = len(configs(ctx.tier))
    res = run_lattice(
        ctx, 'mc.props.C10:run_case', cs, chunk=1,
        rule='full product entry{quick_tidal_dissipation, calculate_terms+collapse_modes} x l_max 2..7 x truncation {2,4,6,10,20; 22 at l_max=2} '
             'x rheology {maxwell, andrade, burgers, sundberg, voigt, newton, elastic, off, cpl, ctl} x obliquity slot (None + values) x orbit a/R '
             '(evaluations = configurations; the pool is fed one (entry, rheology, orbit) bundle per task); inside each configuration the full '
             'grid spin/n x e with scalar inputs plus all-array, spin+e-array, e-array, spin-array, spin omitted, e omitted, and one-argument '
             '(n, viscosity, shear, obliquity) array forms; distinct = distinct non-zero tuples of returned heating values per configuration',
        exhaustive=True)
    # the pool was fed bundles; report configurations
    distinct = set()
    agg = {}
    for r in res:
        for o in r.get('sub_obs') or []:
            if o is not None:                       # configurations whose every call raised or returned exact zeros are trivial
                distinct.add(stable_hash(o))
        for k, v in (r.get('stats') or {}).items():
            agg[k] = max(agg.get(k, 0.0), v) if k.startswith('worst') else agg.get(k, 0) + v
    ctx.coverage['evaluations'] = ctx.coverage['evaluations'] - len(cs) + len(cs) * ncfg
    ctx.coverage['distinct_nontrivial'] = len(distinct)
    ctx.coverage['samples'] = [dict(c, only_config=configs(ctx.tier)[i * 7 % ncfg]) for i, c in enumerate(cs[::max(1, len(cs) // 3)][:3])]
    # replay files should hold the smallest reproducer: narrow every violation to the first configuration that showed it
    for v in ctx.violations:
        cfg = (v.get('detail') or {}).get('config')
        if cfg and 'only_config' not in v['case']:
            v['case'] = dict(v['case'], only_config=cfg)
    ctx.coverage.update(real_calls=agg.get('calls', 0), calls_raising=agg.get('exceptions', 0),
                        calls_not_executed_after_known_defect_rederived=agg.get('skipped_on_known_defect', 0),
                        transient_exceptions_gone_on_retry=agg.get('transient_exceptions', 0), bundles=len(cs), configurations_per_bundle=ncfg,
                        worst_identity_residual=agg.get('worst_identity'), worst_reference_residual=agg.get('worst_ref'),
                        worst_classical_limit_residual=agg.get('worst_classical'), worst_array_vs_scalar=agg.get('worst_array'),
                        worst_grouped_term_residual=agg.get('worst_group'), tolerance=TOL, tolerance_array=TOL_ARR,
                        sign_oracle_admitted=agg.get('sign_admitted', 0), sign_oracle_outside_validity=agg.get('sign_outside', 0))
    ctx.note('configurations={n} calls={calls} raising={exceptions} not executed on a re-derived known defect={skipped_on_known_defect} worst: identity {worst_identity:.1e} reference {worst_ref:.1e} classical '
             '{worst_classical:.1e} array {worst_array:.1e} grouped {worst_group:.1e}; sign oracle admitted {sign_admitted} / outside validity '
             '{sign_outside}'.format(n=len(cs) * ncfg, **agg))
