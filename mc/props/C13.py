"""C13 -- object-oriented world/orbit state is history-independent (E2, model checking on the real objects).

System: real build_from_world + PhysicsOrbit objects in several tidal configurations.  A history is a sequence of
setter / set_state calls (alphabet below).  After *every* history the invariant compares the observables with
 (m) the boring logical-state model (last written value per field, Kepler III, spin follows n on a spin-locked world),
 (a) a freshly built world + orbit placed directly in the same logical state by batched calls (differential oracle),
 (b) the functional API evaluated at that state (quick_tidal_dissipation for CPL/CTL; calculate_terms+collapse_modes
     fed with each layer's own inputs for layered worlds; dynamics.* for the orbital / spin derivatives).
"""
import math
import os

import numpy as np

from mc import histories

LEVEL = 'model_checking'
ASSUMPTIONS = ['histories over the stated alphabet and values only; bounded depth (see coverage)',
               'a state is merged with another only when logical state and the deep fingerprint of every reachable '
               'instance attribute (floats to 12 significant digits) coincide',
               'oracle (b) uses the library\'s own mode tables / compliance functions (checked by C08/C09/C07/C10)']

G = 6.67430e-11
RTOL = 1e-9

# ------------------------------------------------------------------------------------------------------------------
# configurations
# ------------------------------------------------------------------------------------------------------------------
def _ga(sync, ctl, obl=True):
    return dict(base='earth_simple', kind='ga', new_config={
        'force_spin_sync': sync, 'type': 'simple_tidal', 'mass': 5.972e24, 'slices': 100,
        'tides': {'model': 'global_approx', 'fixed_q': 125.0, 'fixed_dt': 120.0, 'use_ctl': ctl,
                  'eccentricity_truncation_lvl': 4, 'max_tidal_order_l': 2, 'obliquity_tides_on': obl}})


CONFIGS = {
    'cpl-free': _ga(False, False),
    'cpl-sync': _ga(True, False),
    'ctl-free': _ga(False, True),
    'cpl-free-noobl': _ga(False, False, obl=False),
    'lay-io-free': dict(base='io_simple', kind='layered', new_config={
        'force_spin_sync': False, 'type': 'layered',
        'tides': {'model': 'layered', 'eccentricity_truncation_lvl': 4, 'max_tidal_order_l': 3, 'obliquity_tides_on': True},
        'layers': {'Core': {'is_tidal': False}, 'Mantle': {'is_tidal': True}}}),
    'lay-io-sync': dict(base='io_simple', kind='layered', new_config={
        'force_spin_sync': True, 'type': 'layered',
        'tides': {'model': 'layered', 'eccentricity_truncation_lvl': 2, 'max_tidal_order_l': 2, 'obliquity_tides_on': True},
        'layers': {'Core': {'is_tidal': False}, 'Mantle': {'is_tidal': True}}}),
    # dual-body: Jupiter-like host with CPL tides raised by the target (host_tide_raiser), layered spin-locked Io-like target
    'dual-io': dict(base='io_simple', kind='layered', host='jupiter', host_config={
        'tides_on': True, 'force_spin_sync': False,
        'tides': {'model': 'global_approx', 'fixed_q': 8000., 'static_k2': 0.38, 'use_ctl': False,
                  'eccentricity_truncation_lvl': 2, 'max_tidal_order_l': 2, 'obliquity_tides_on': True}},
        new_config={
        'force_spin_sync': True, 'type': 'layered',
        'tides': {'model': 'layered', 'eccentricity_truncation_lvl': 2, 'max_tidal_order_l': 2, 'obliquity_tides_on': True},
        'layers': {'Core': {'is_tidal': False}, 'Mantle': {'is_tidal': True}}}),
    'lay-earth': dict(base='earth_simple', kind='layered', new_config={
        'force_spin_sync': False,
        'tides': {'model': 'layered', 'eccentricity_truncation_lvl': 2, 'max_tidal_order_l': 2, 'obliquity_tides_on': True}}),
}

# layer -> (initial temperature, value 1, value 2) [K]; all below the solidus so that the layers are solid
LAYER_T = {'Mantle': (1500., 1400., 1600.), 'Lower_Mantle': (1550., 1450., 1650.), 'Upper_Mantle': (1500., 1400., 1600.)}
ARR_E = [0.05, 0.1, 0.2]
ARR_S = [4.0, 9.0, 30.0]


def _ops(cfgname):
    """name -> (callable(w, o), logical update dict). Logical fields: orb, e, ob, spin, q, dt, time, T:<layer>."""
    kind = CONFIGS[cfgname]['kind']
    ops = {}

    def add(name, fn, **upd):
        ops[name] = (fn, upd)
    # --- orbit size, three representations x several access paths x 2 values
    add('P10:w.set_state', lambda w, o: w.set_state(orbital_period=10.), orb=('P', 10.))
    add('P50:w.prop', lambda w, o: setattr(w, 'orbital_period', 50.), orb=('P', 50.))
    add('P10:o.set_state', lambda w, o: o.set_state(w, orbital_period=10.), orb=('P', 10.))
    add('P50:o.setter', lambda w, o: o.set_orbital_period(w, 50.), orb=('P', 50.))
    add('a3e10:w.set_state', lambda w, o: w.set_state(semi_major_axis=3e10), orb=('a', 3e10))
    add('a5e10:w.prop', lambda w, o: setattr(w, 'semi_major_axis', 5e10), orb=('a', 5e10))
    add('a3e10:o.setter', lambda w, o: o.set_semi_major_axis(w, 3e10), orb=('a', 3e10))
    add('a5e10:o.set_state', lambda w, o: o.set_state(w, semi_major_axis=5e10), orb=('a', 5e10))
    add('n2e-6:w.set_state', lambda w, o: w.set_state(orbital_frequency=2e-6), orb=('n', 2e-6))
    add('n7e-6:w.prop', lambda w, o: setattr(w, 'orbital_frequency', 7e-6), orb=('n', 7e-6))
    add('n2e-6:o.setter', lambda w, o: o.set_orbital_frequency(w, 2e-6), orb=('n', 2e-6))
    add('n7e-6:o.set_state', lambda w, o: o.set_state(w, orbital_frequency=7e-6), orb=('n', 7e-6))
    # --- eccentricity
    add('e.1:w.set_state', lambda w, o: w.set_state(eccentricity=0.1), e=0.1)
    add('e.2:w.prop', lambda w, o: setattr(w, 'eccentricity', 0.2), e=0.2)
    add('e.1:o.setter', lambda w, o: o.set_eccentricity(w, 0.1), e=0.1)
    add('e.2:o.set_state', lambda w, o: o.set_state(w, eccentricity=0.2), e=0.2)
    add('eARR:w.set_state', lambda w, o: w.set_state(eccentricity=np.array(ARR_E)), e=ARR_E)
    # --- obliquity
    add('ob.1:w.set_state', lambda w, o: w.set_state(obliquity=0.1), ob=0.1)
    add('ob.3:w.prop', lambda w, o: setattr(w, 'obliquity', 0.3), ob=0.3)
    add('ob.1:w.setter', lambda w, o: w.set_obliquity(0.1), ob=0.1)
    # --- spin
    add('s5d:w.set_state', lambda w, o: w.set_state(spin_period=5.), spin=('P', 5.))
    add('s20d:w.prop', lambda w, o: setattr(w, 'spin_period', 20.), spin=('P', 20.))
    add('s3e-6:w.set_state', lambda w, o: w.set_state(spin_frequency=3e-6), spin=('f', 3e-6))
    add('s9e-6:w.prop', lambda w, o: setattr(w, 'spin_frequency', 9e-6), spin=('f', 9e-6))
    add('s3e-6:w.setter', lambda w, o: w.set_spin_frequency(3e-6), spin=('f', 3e-6))
    add('sARR:w.set_state', lambda w, o: w.set_state(spin_period=np.array(ARR_S)), spin=('P', ARR_S))
    # --- time (orbit level)
    add('t100:o.prop', lambda w, o: setattr(o, 'time', 100.), time=100.)
    # --- batched
    add('B:e.15+P20:w', lambda w, o: w.set_state(eccentricity=0.15, orbital_period=20.), e=0.15, orb=('P', 20.))
    add('B:P30+s8d:w', lambda w, o: w.set_state(orbital_period=30., spin_period=8.), orb=('P', 30.), spin=('P', 8.), _spin_before_orb=True)
    add('B:e.25+ob.2+s12d:w', lambda w, o: w.set_state(eccentricity=0.25, obliquity=0.2, spin_period=12.), e=0.25, ob=0.2, spin=('P', 12.))
    add('B:e.05+P15:o', lambda w, o: o.set_state(w, eccentricity=0.05, orbital_period=15.), e=0.05, orb=('P', 15.))
    if 'host' in CONFIGS[cfgname]:
        # dual-body: the orbit is that of a moon (periods of days, a ~ 4e8..1e9 m around a Jupiter-mass host)
        for k in [k for k in ops if k.startswith(('a3e10', 'a5e10', 'n2e-6', 'n7e-6'))]:
            del ops[k]
        add('a4e8:w.set_state', lambda w, o: w.set_state(semi_major_axis=4.2e8), orb=('a', 4.2e8))
        add('a9e8:o.setter', lambda w, o: o.set_semi_major_axis(w, 9e8), orb=('a', 9e8))
        add('n4e-5:w.prop', lambda w, o: setattr(w, 'orbital_frequency', 4e-5), orb=('n', 4e-5))
        add('n2e-5:o.set_state', lambda w, o: o.set_state(w, orbital_frequency=2e-5), orb=('n', 2e-5))
        add('hs.4d:h.set_state', lambda w, o: o.tidal_host.set_state(spin_period=0.41), hspin=('P', 0.41))
        add('hs.9d:h.prop', lambda w, o: setattr(o.tidal_host, 'spin_period', 0.9), hspin=('P', 0.9))
        add('hs2e-4:h.setter', lambda w, o: o.tidal_host.set_spin_frequency(2e-4), hspin=('f', 2e-4))
        add('hob.05:h.set_state', lambda w, o: o.tidal_host.set_state(obliquity=0.05), hob=0.05)
        add('hob.2:h.prop', lambda w, o: setattr(o.tidal_host, 'obliquity', 0.2), hob=0.2)
        add('hq5000:h.setter', lambda w, o: o.tidal_host.set_fixed_q(5000.), hq=5000.)
        add('hq300:h.prop', lambda w, o: setattr(o.tidal_host, 'fixed_q', 300.), hq=300.)
    if kind == 'ga':
        if CONFIGS[cfgname]['new_config']['tides']['use_ctl']:
            add('dt50:w.setter', lambda w, o: w.set_fixed_dt(50.), dt=50.)
            add('dt300:w.prop', lambda w, o: setattr(w, 'fixed_dt', 300.), dt=300.)
            add('dt50:tides.set_state', lambda w, o: w.tides.set_state(fixed_dt=50.), dt=50.)
        else:
            add('q50:w.setter', lambda w, o: w.set_fixed_q(50.), q=50.)
            add('q80:w.prop', lambda w, o: setattr(w, 'fixed_q', 80.), q=80.)
            add('q50:tides.set_state', lambda w, o: w.tides.set_state(fixed_q=50.), q=50.)
    else:
        for ln in _tidal_layer_names(cfgname):
            lo, hi = LAYER_T[ln][1], LAYER_T[ln][2]
            add(f'T{int(lo)}:{ln}.set_state', (lambda ln, v: lambda w, o: _layer(w, ln).set_state(temperature=v))(ln, lo), **{f'T:{ln}': lo})
            add(f'T{int(hi)}:{ln}.prop', (lambda ln, v: lambda w, o: setattr(_layer(w, ln), 'temperature', v))(ln, hi), **{f'T:{ln}': hi})
            add(f'T{int(lo)}:{ln}.setter', (lambda ln, v: lambda w, o: _layer(w, ln).set_temperature(v))(ln, lo), **{f'T:{ln}': lo})
    return ops


def _tidal_layer_names(cfgname):
    return {'lay-io-free': ['Mantle'], 'lay-io-sync': ['Mantle'], 'dual-io': ['Mantle'],
            'lay-earth': ['Lower_Mantle', 'Upper_Mantle']}[cfgname]


def _layer(w, name):
    for L in w:
        if L.name == name:
            return L
    raise KeyError(name)


_OPS_CACHE = {}


def ops_for(cfgname):
    if cfgname not in _OPS_CACHE:
        _OPS_CACHE[cfgname] = _ops(cfgname)
    return _OPS_CACHE[cfgname]


def op_names(cfgname, tier='quick'):
    return list(ops_for(cfgname))


# ------------------------------------------------------------------------------------------------------------------
# building, logical model, direct placement
# ------------------------------------------------------------------------------------------------------------------
_base = {}


def fresh(cfgname):
    from mc import env
    env.tidalpy()
    from TidalPy.structures import build_world, build_from_world
    from TidalPy.structures.orbit import PhysicsOrbit
    c = CONFIGS[cfgname]
    if c['base'] not in _base:
        _base[c['base']] = build_world(c['base'])
    import copy
    w = build_from_world(_base[c['base']], new_config=copy.deepcopy(c['new_config']))
    if 'host' in c:
        if c['host'] not in _base:
            _base[c['host']] = build_world(c['host'])
        sun = build_world('sol')
        star = build_from_world(_base[c['host']], new_config=copy.deepcopy(c['host_config']))   # the tidal host
        o = PhysicsOrbit(sun, tidal_host=star, tidal_bodies=w, host_tide_raiser=w)
    else:
        star = build_world('55cnc')                   # a fresh host for every replay (keeps a back-reference to its orbit)
        o = PhysicsOrbit(star, tidal_host=star, tidal_bodies=w)
    if c['kind'] == 'layered':
        # initial state of the layered systems: every tidal layer has a temperature (otherwise no viscosity, no tides)
        for ln in _tidal_layer_names(cfgname):
            _layer(w, ln).set_state(temperature=LAYER_T[ln][0])
    return star, w, o


def logical(cfgname, history):
    """Boring reference model: last written value per field; on a spin-locked world an orbit-size change re-locks the spin."""
    sync = CONFIGS[cfgname]['new_config']['force_spin_sync']
    ops = ops_for(cfgname)
    s = {}
    for name in history:
        upd = ops[name][1]
        orb_changed = 'orb' in upd
        for k, v in upd.items():
            if not k.startswith('_'):
                s[k] = v
        if sync and orb_changed:
            s['spin'] = 'locked'        # spin := n  (also when the same batched call carried a spin value)
    return s


def place_directly(cfgname, s):
    """Fresh objects put into logical state s by the canonical, batched sequence of world-level calls."""
    star, w, o = fresh(cfgname)
    if 'q' in s:
        w.set_fixed_q(s['q'])
    if 'dt' in s:
        w.set_fixed_dt(s['dt'])
    for k, v in s.items():
        if k.startswith('T:'):
            _layer(w, k[2:]).set_state(temperature=v)
    if 'time' in s:
        o.time = s['time']
    if 'hq' in s:
        star.set_fixed_q(s['hq'])
    hkw = {}
    if 'hspin' in s:
        hkw[{'P': 'spin_period', 'f': 'spin_frequency'}[s['hspin'][0]]] = s['hspin'][1]
    if 'hob' in s:
        hkw['obliquity'] = s['hob']
    if hkw:
        star.set_state(**hkw)
    kw = {}
    if 'orb' in s:
        kw[{'P': 'orbital_period', 'a': 'semi_major_axis', 'n': 'orbital_frequency'}[s['orb'][0]]] = s['orb'][1]
    if 'e' in s:
        kw['eccentricity'] = _val(s['e'])
    if 'ob' in s:
        kw['obliquity'] = s['ob']
    spin_kw = {}
    if 'spin' in s and s['spin'] != 'locked':
        spin_kw[{'P': 'spin_period', 'f': 'spin_frequency'}[s['spin'][0]]] = _val(s['spin'][1])
    sync = CONFIGS[cfgname]['new_config']['force_spin_sync']
    if sync and spin_kw and 'orb' in s:
        w.set_state(**kw)           # orbit first (re-locks the spin) ...
        w.set_state(**spin_kw)      # ... then the explicitly written spin
    else:
        kw.update(spin_kw)
        if kw:
            w.set_state(**kw)
    return star, w, o


def _val(v):
    return np.array(v) if isinstance(v, list) else v


# ------------------------------------------------------------------------------------------------------------------
# observation and oracles
# ------------------------------------------------------------------------------------------------------------------
def _get(f):
    try:
        return f()
    except Exception as e:
        return 'EXC:' + type(e).__name__


def _dict(d):
    if d is None or isinstance(d, str):
        return d
    return {repr(k): (np.array(v) if not isinstance(v, (tuple, list)) else [np.array(x) for x in v]) for k, v in d.items()}


def observe(w, o):
    ob = dict(
        a=_get(lambda: w.semi_major_axis), n=_get(lambda: w.orbital_frequency), P=_get(lambda: w.orbital_period),
        e=_get(lambda: w.eccentricity), obliquity=_get(lambda: w.obliquity),
        spin=_get(lambda: w.spin_frequency), spin_period=_get(lambda: w.spin_period),
        a_orbit=_get(lambda: o.get_semi_major_axis(w)), n_orbit=_get(lambda: o.get_orbital_frequency(w)),
        P_orbit=_get(lambda: o.get_orbital_period(w)), e_orbit=_get(lambda: o.get_eccentricity(w)),
        freqs=_get(lambda: _dict(w.unique_tidal_frequencies)),
        heat=_get(lambda: w.tidal_heating_global), dUdM=_get(lambda: w.dUdM), dUdw=_get(lambda: w.dUdw), dUdO=_get(lambda: w.dUdO),
        love=_get(lambda: _dict(w.global_love_by_orderl)), negimk=_get(lambda: _dict(w.global_negative_imk_by_orderl)),
        dadt=_get(lambda: o.get_semi_major_axis_time_derivative(w)), dedt=_get(lambda: o.get_eccentricity_time_derivative(w)),
        dndt=_get(lambda: o.get_orbital_motion_time_derivative(w)),
        dsdt=_get(lambda: w.calc_spin_derivative()), torque=_get(lambda: w.tidal_polar_torque),
    )
    if hasattr(w, 'layers'):
        for L in w:
            ob['layer_heat:' + L.name] = _get(lambda: L.tidal_heating)
    h = o.tidal_host
    if getattr(h, 'tides', None) is not None:
        ob.update(h_heat=_get(lambda: h.tidal_heating_global), h_dUdM=_get(lambda: h.dUdM), h_dUdw=_get(lambda: h.dUdw),
                  h_dUdO=_get(lambda: h.dUdO), h_spin=_get(lambda: h.spin_frequency), h_obliquity=_get(lambda: h.obliquity),
                  h_freqs=_get(lambda: _dict(h.unique_tidal_frequencies)), h_love=_get(lambda: _dict(h.global_love_by_orderl)),
                  h_dsdt=_get(lambda: h.calc_spin_derivative()), h_n=_get(lambda: h.orbital_frequency), h_e=_get(lambda: h.eccentricity))
    return ob


def _close(x, y, rtol=RTOL):
    """None==None, exception tag == exception tag, dicts key-wise, numbers/arrays to rtol (relative to max |.| of the pair)."""
    if x is None or y is None:
        return x is None and y is None
    if isinstance(x, str) or isinstance(y, str):
        return isinstance(x, str) and isinstance(y, str) and x == y
    if isinstance(x, dict) or isinstance(y, dict):
        if not (isinstance(x, dict) and isinstance(y, dict)) or sorted(x) != sorted(y):
            return False
        return all(_close(x[k], y[k], rtol) for k in x)
    if isinstance(x, list) or isinstance(y, list):
        return isinstance(x, list) and isinstance(y, list) and len(x) == len(y) and all(_close(a, b, rtol) for a, b in zip(x, y))
    xa, ya = np.asarray(x), np.asarray(y)
    try:
        xb, yb = np.broadcast_arrays(xa, ya)
    except ValueError:
        return False
    if xa.shape != ya.shape and (xa.ndim and ya.ndim):
        return False
    scale = np.maximum(np.abs(xb), np.abs(yb))
    with np.errstate(invalid='ignore'):
        ok = (np.abs(xb - yb) <= rtol * scale) | (xb == yb) | (np.isnan(xb) & np.isnan(yb))
    return bool(np.all(ok))


def _short(v):
    if isinstance(v, dict):
        return {k: _short(x) for k, x in list(v.items())[:4]}
    if isinstance(v, list):
        return [_short(x) for x in v[:4]]
    if isinstance(v, np.ndarray):
        return v.tolist() if v.size <= 4 else v.ravel()[:4].tolist()
    return v


def model_check(cfgname, s, star, w, ob):
    """(m): reported basic state vs the logical model."""
    out = []
    M = star.mass + w.mass
    if 'orb' in s:
        kind, v = s['orb']
        if kind == 'P':
            n = 2 * math.pi / (v * 86400.); a = (G * M / n ** 2) ** (1 / 3)
        elif kind == 'n':
            n = v; a = (G * M / n ** 2) ** (1 / 3)
        else:
            a = v; n = math.sqrt(G * M / a ** 3)
        want = dict(a=a, n=n, P=2 * math.pi / n / 86400., a_orbit=a, n_orbit=n, P_orbit=2 * math.pi / n / 86400.)
        for k, x in want.items():
            if not _close(ob[k], x, 1e-9):
                out.append((k, ob[k], x))
        if s.get('spin') == 'locked':
            if not _close(ob['spin'], n, 1e-9):
                out.append(('spin(locked)', ob['spin'], n))
    if 'e' in s:
        for k in ('e', 'e_orbit'):
            if not _close(ob[k], _val(s['e']), 1e-15):
                out.append((k, ob[k], s['e']))
    if 'ob' in s and not _close(ob['obliquity'], s['ob'], 1e-15):
        out.append(('obliquity', ob['obliquity'], s['ob']))
    if 'hspin' in s:
        kind, v = s['hspin']
        f = 2 * math.pi / (v * 86400.) if kind == 'P' else v
        if not _close(ob.get('h_spin'), f, 1e-12):
            out.append(('h_spin', ob.get('h_spin'), f))
    if 'hob' in s and not _close(ob.get('h_obliquity'), s['hob'], 1e-15):
        out.append(('h_obliquity', ob.get('h_obliquity'), s['hob']))
    if 'host' in CONFIGS[cfgname]:
        # the host experiences the tide raiser's orbit
        for k_host, k_w in (('h_n', 'n'), ('h_e', 'e')):
            if not _close(ob.get(k_host), ob.get(k_w), 1e-12):
                out.append((k_host, ob.get(k_host), ob.get(k_w)))
    if 'spin' in s and s['spin'] != 'locked':
        kind, v = s['spin']
        f = 2 * math.pi / (np.asarray(_val(v)) * 86400.) if kind == 'P' else v
        if not _close(ob['spin'], f, 1e-12):
            out.append(('spin', ob['spin'], f))
    return out


def functional(cfgname, star, w, o, ob):
    """(b): functional API at the reported state -> dict of expected observables (or None when the state is incomplete)."""
    c = CONFIGS[cfgname]
    e, n, spin, obl, a = w.eccentricity, w.orbital_frequency, w.spin_frequency, w.obliquity, w.semi_major_axis
    if any(x is None for x in (e, n, spin, a)):
        return None
    tcfg = c['new_config']['tides']
    use_obl = tcfg['obliquity_tides_on']
    if use_obl and obl is None:
        return None
    lmax, trunc = tcfg['max_tidal_order_l'], tcfg['eccentricity_truncation_lvl']
    from TidalPy.dynamics import semia_eccen_derivatives, spin_rate_derivative
    exp = {}
    if c['kind'] == 'ga':
        from TidalPy.toolbox.quick_tides import quick_tidal_dissipation
        res = quick_tidal_dissipation(
            star.mass, w.radius, w.mass, w.gravity_surface, w.density_bulk, w.moi,
            rheology='ctl' if tcfg['use_ctl'] else 'cpl', eccentricity=e, obliquity=(obl if use_obl else None),
            orbital_frequency=n, spin_frequency=spin, max_tidal_order_l=lmax, eccentricity_truncation_lvl=trunc,
            use_obliquity=use_obl, tidal_scale=w.tidal_scale, fixed_k2=w.tides.fixed_k2, fixed_q=w.tides.fixed_q,
            fixed_dt=w.tides.fixed_dt, calculate_orbit_spin_derivatives=False)
        exp.update(heat=res['tidal_heating'], dUdM=res['dUdM'], dUdw=res['dUdw'], dUdO=res['dUdO'],
                   love=_dict(res['love_number_by_orderl']), negimk=_dict(res['negative_imk_by_orderl']))
    else:
        from TidalPy.tides.modes.mode_manipulation import find_mode_manipulators
        from TidalPy.tides.dissipation import calc_tidal_susceptibility
        from TidalPy.rheology.complex_compliance import known_models
        from TidalPy.rheology.complex_compliance.complex_compliance import compliance_dict_helper
        calc, collapse, ef, of = find_mode_manipulators(lmax, trunc, use_obl)
        er = ef(e)
        orr = of(obl if use_obl else (np.zeros_like(e) if isinstance(e, np.ndarray) else 0.))
        freqs, terms = calc(spin, n, a, w.radius, er, orr, True)
        sus = calc_tidal_susceptibility(star.mass, w.radius, a)
        use_planet = w.tides.config['use_planet_params_for_love_calc']
        tot = None
        loves, negs = {}, {}
        for L in w:
            if not L.is_tidal:
                exp['layer_heat:' + L.name] = 'skip'
                continue
            if L.shear_modulus is None or L.viscosity is None:
                return None
            m = L.rheology.complex_compliance_model
            cc = compliance_dict_helper(freqs, known_models[m.model], (L.shear_modulus ** (-1), L.viscosity), tuple(m.inputs))
            geom = (w.gravity_surface, w.radius, w.density_bulk) if use_planet else (L.gravity_surface, L.radius, L.density_bulk)
            out = collapse(geom[0], geom[1], geom[2], L.shear_modulus, L.tidal_scale, star.mass, sus, cc, terms, lmax, False)
            exp['layer_heat:' + L.name] = out[0]
            part = [out[0], out[1], out[2], out[3]]
            tot = part if tot is None else [x + y for x, y in zip(tot, part)]
            for l in range(2, lmax + 1):
                loves[l] = loves.get(l, 0) + out[4][l]
                negs[l] = negs.get(l, 0) + out[5][l]
        exp.update(heat=tot[0], dUdM=tot[1], dUdw=tot[2], dUdO=tot[3], love=_dict(loves), negimk=_dict(negs))
        exp['freqs'] = _dict(freqs)
    host_active = False
    if 'host' in c:
        hs, hob_ = star.spin_frequency, star.obliquity
        ht = c['host_config']['tides']
        if hs is not None and (hob_ is not None or not ht['obliquity_tides_on']):
            from TidalPy.toolbox.quick_tides import quick_tidal_dissipation
            hres = quick_tidal_dissipation(
                w.mass, star.radius, star.mass, star.gravity_surface, star.density_bulk, star.moi,
                rheology='cpl', eccentricity=e, obliquity=(hob_ if ht['obliquity_tides_on'] else None),
                orbital_frequency=n, spin_frequency=hs, max_tidal_order_l=ht['max_tidal_order_l'],
                eccentricity_truncation_lvl=ht['eccentricity_truncation_lvl'], use_obliquity=ht['obliquity_tides_on'],
                tidal_scale=star.tidal_scale, fixed_k2=star.tides.fixed_k2, fixed_q=star.tides.fixed_q)
            # quick_tidal_dissipation derives a from (n, host_mass, target_mass) -- the same two masses, so the same a
            exp.update(h_heat=hres['tidal_heating'], h_dUdM=hres['dUdM'], h_dUdw=hres['dUdw'], h_dUdO=hres['dUdO'],
                       h_love=_dict(hres['love_number_by_orderl']))
            exp['h_dsdt'] = spin_rate_derivative(hres['dUdO'], star.moi, w.mass)
            host_active = True
    # orbital / spin derivatives from the functional dynamics module, fed with the expected potential derivatives
    if host_active:
        from TidalPy.dynamics import semia_eccen_derivatives_dual
        da, de = semia_eccen_derivatives_dual(a, n, e, star.mass, exp['h_dUdM'], exp['h_dUdw'], w.mass, exp['dUdM'], exp['dUdw'])
    else:
        da, de = semia_eccen_derivatives(a, n, e, w.mass, exp['dUdM'], exp['dUdw'], star.mass)
    exp['dadt'], exp['dedt'] = da, de
    exp['dndt'] = -(3. / 2.) * (n / a) * da
    exp['dsdt'] = spin_rate_derivative(exp['dUdO'], w.moi, star.mass)
    exp['torque'] = star.mass * exp['dUdO']
    return exp


SKIP_ATTRS = ('_config', '_old_config', 'default_config', '_replacement_config', 'pyname', '_user_config', '_world_config')


def explore(task):
    cfgname, history = task['config'], task['history']
    ops = ops_for(cfgname)
    star, w, o = fresh(cfgname)
    viol = []
    exc = None
    for i, name in enumerate(history):
        try:
            ops[name][0](w, o)
        except Exception as e:
            exc = (i, type(e).__name__, str(e)[:160])
            break
    s = logical(cfgname, history)
    tag = _class_of(history)
    if exc is not None:
        # does the same logical state work when placed directly?  then the exception is history-dependent.
        try:
            place_directly(cfgname, s)
            direct_ok = True
        except Exception as e2:
            direct_ok = False
        if direct_ok:
            viol.append((f'C13/{cfgname}/op-raises/{exc[1]}/last={_opclass(history[exc[0]])}', dict(exc=exc, logical=s)))
        return dict(key=None, viol=viol, obs=('exc', exc[1], _opclass(history[exc[0]])), exc=exc)
    ob = observe(w, o)
    # (m)
    bad = model_check(cfgname, s, star, w, ob)
    if bad:
        viol.append((f'C13/{cfgname}/model/{tag}', dict(observables=[k for k, _, _ in bad], got=_short(bad[0][1]),
                                                     want=_short(bad[0][2]), logical=s)))
    # (a)
    try:
        star2, w2, o2 = place_directly(cfgname, s)
        ob2 = observe(w2, o2)
        bad = [k for k in ob if not _close(ob[k], ob2[k])]
        if bad:
            k = 'heat' if 'heat' in bad else bad[0]
            viol.append((f'C13/{cfgname}/fresh/{tag}', dict(observables=bad, shown=k, history_value=_short(ob[k]),
                                                            fresh_value=_short(ob2[k]), logical=s)))
    except Exception as e:
        viol.append((f'C13/{cfgname}/fresh/direct-placement-raises/{type(e).__name__}', dict(msg=str(e)[:200], logical=s)))
    # (b)
    try:
        exp = functional(cfgname, star, w, o, ob)
    except Exception as e:
        exp = None
        viol.append((f'C13/{cfgname}/functional/raises/{type(e).__name__}', dict(msg=str(e)[:200], logical=s)))
    if exp is not None:
        bad = [k for k, want in exp.items() if not (isinstance(want, str) and want == 'skip') and not _close(ob[k], want, 1e-9)]
        if bad:
            k = 'heat' if 'heat' in bad else bad[0]
            viol.append((f'C13/{cfgname}/functional/{tag}', dict(observables=bad, shown=k, oop=_short(ob[k]),
                                                                 functional=_short(exp[k]), logical=s)))
    fp = histories.fingerprint((w, o, star), skip_attrs=SKIP_ATTRS)
    key = histories.digest((sorted((k, repr(v)) for k, v in s.items()), fp))
    heat = ob.get('heat')
    summary = (tuple(sorted((k, repr(v)) for k, v in s.items())), repr(_short(heat)) if heat is not None else None)
    return dict(key=key, viol=viol, obs=summary, exc=None)


def _opclass(name):
    """operation class = field(s) written + access path, values dropped: 'e.1:w.set_state' -> 'e:w.set_state'"""
    head, _, path = name.partition(':')
    if head == 'B':
        return 'B:' + path
    fld = ''.join(ch for ch in head if ch.isalpha())[:2]
    return f'{fld}:{path}'


def _class_of(history):
    """site tag: which *fields* the last operation wrote (that is what the stale-cache defects depend on)."""
    if not history:
        return 'initial'
    return 'last=' + _opclass(history[-1])


def replay(case):
    return explore(case)['viol']


def warm():
    for c in CONFIGS:
        explore(dict(config=c, history=[op_names(c)[0], 'e.1:w.set_state', 'ob.1:w.set_state', 's5d:w.set_state']))


def run(ctx):
    tot = dict(states=0, transitions=0, executions=0)
    depth_full, depth_canon = (2, 3) if not ctx.thorough else (3, 4)
    cfgs = [c for c in CONFIGS if c in os.environ.get('VERIF_C13_CONFIGS', ','.join(CONFIGS)).split(',')]
    if not ctx.thorough and 'VERIF_C13_CONFIGS' not in os.environ:
        cfgs = [c for c in cfgs if c not in ('cpl-free-noobl', 'lay-io-free')]     # quick: 6 of the 8 configurations
    per_cfg = {}
    samples = []
    warm()
    for c in cfgs:
        ops = op_names(c)
        r = histories.bfs(ctx, 'mc.props.C13:explore', c, ops, depth_full, depth_canon,
                          max_frontier=(150 if not ctx.thorough else 2000))
        per_cfg[c] = {k: v for k, v in r.items() if k != 'samples'}
        per_cfg[c]['alphabet'] = len(ops)
        for k in tot:
            tot[k] += r[k]
        samples.extend(dict(config=c, history=h) for h in r['samples'][:1])
        ctx.note(f'{c}: alphabet={len(ops)} {per_cfg[c]}')
    ctx.coverage.update(states=tot['states'], transitions=tot['transitions'],
                        traces_validated_against_impl=tot['executions'], samples=samples,
                        per_configuration=per_cfg, depth_full=depth_full, depth_canonical=depth_canon,
                        exhaustive=not any(v['frontier_capped'] for v in per_cfg.values()),
                        rule='all histories over the alphabet to depth_full, then canonical-state BFS to depth_canonical / fixpoint; '
                             'every history executed on real objects (states = distinct (logical state, deep fingerprint))')
