"""C15 -- 3-D tidal strain / stress / heating are consistent with the radial functions.

E1 lattice: radial functions x moduli x degree l x potential family, on grids with DISTINCT axis lengths
(radius 3 (7 for solver outputs) x longitude 4 x colatitude 5 x time 2) so that an axis mix-up cannot hide.

Radial functions
  solver-*  three real TidalPy.RadialSolver.radial_solver outputs (1, 2 and 3 solid layers, dynamic, compressible,
            complex shear), sub-sampled at 7 radii incl. the surface and both sides of an interface;
  arb-*     synthetic complex (y1..y4) with independent magnitudes and phases (y2, y4 NOT tied to y1, y3);
  real      purely real y (with real moduli: elastic body, heating must be exactly 0);
  pow-*     analytic power laws y1 = A r^p, y3 = B r^q with y2, y4 from the Takeuchi-Saito constitutive relations.
Potentials: degree-l surface harmonics P_l^m(cos t) {cos, sin}(m phi + w t + phase) for l in {2, 3}, all m <= l, built by
  exact polynomial algebra in (cos t, sin t) (so the degree-l Laplace identity holds to rounding -- asserted as a harness
  self-check); and for l = 2 every mode of the 8 shipped tidal potentials (both use_static values).

Oracles (all on natural scales: strains relative to the largest reference strain component at that radius, stresses
relative to (|lambda| + 2|mu|) times that, heating relative to (|lambda| + 2|mu|) strain^2):
  strain  each of the 6 returned components equals the strain of the displacement field u_r = y1 U, u_t = y3 U_t,
          u_p = y3 U_p / sin t (Takeuchi & Saito 1972), where dy1/dr (and for rt, rp: dy3/dr) are expressed through
          y1..y4 by the constitutive relations; for the pow-* functions the strain is computed from the analytic radial
          derivatives of the displacement field itself (no y2, y4 involved);
  hooke   returned stress = 2 mu eps + lambda tr(eps) I component-wise on the returned strain, lambda = K - 2 mu / 3;
  stress  returned stress equals the Hooke stress of the reference strain;
  traction  s_rr = y2 U (needs the degree-l Laplace identity), s_rt = y4 U_t, s_rp = y4 U_p / sin t;
  heating calculate_volumetric_heating is real, >= 0, exactly 0 for real moduli and real y, equals an independent einsum
          |Im(sigma_ij conj(eps_ij))| over all 9 tensor entries (off-diagonals twice) and equals the closed form
          |2 Im(mu) |dev eps|^2 + Im(K) |tr eps|^2| of the reference strain;
  displacements  calculate_displacements returns (y1 U, y3 U_t, y3 U_p / sin t).
"""
import math

LEVEL = 'exploration'
ASSUMPTIONS = [
    'continuous inputs (y, moduli, radii, angles) are decided on the stated menus only',
    'Takeuchi & Saito (1972) conventions: u_r = y1 U, u_theta = y3 dU/dtheta, u_phi = y3 dU/dphi / sin(theta); '
    'y2 = (lambda + 2 mu) dy1/dr + (lambda / r)(2 y1 - l(l+1) y3); y4 = mu (dy3/dr - y3/r + y1/r); strain components are '
    'tensor components (off-diagonals carry the factor 1/2)',
    'heating convention asserted: calculate_volumetric_heating(stress, strain) returns |Im(sigma_ij conj(eps_ij))| summed over '
    'the full symmetric tensor, WITHOUT any frequency factor; the physical time-averaged dissipation per unit volume for '
    'fields ~ exp(i w t) is (w/2) times that (the caller applies the frequency scaling)',
    'colatitudes strictly inside (0, pi); solid material (mu != 0) only -- the function divides by the shear modulus',
    'the shipped potentials are used only as degree-2 harmonics with consistent derivatives (C14 checks them)',
]

TOL = 1e-12              # relative to the natural scales above (measured pristine worst 3.3e-15 over thorough, seeds 0..4)
TOL_LAPLACE_SELF = 1e-12  # harness self-check of the analytic harmonics

LON = [0.1, 1.7, 3.3, 5.2]
COL = [0.3, 0.9, 1.4, 2.1, 2.8]
TIM = [0.0, 1.3e4]
RAD3 = [1.0e6, 1.5e6, 2.0e6]

# moduli menu: per-radius (mu, K) as functions of the radius index; complex
MODULI = {
    'elastic': lambda i: (5e10 * (1 + 0.2 * i), 1.2e11 * (1 + 0.1 * i)),
    'maxwell-mu': lambda i: (5e10 * (1 + 0.2 * i) * (1 + 0.05j), 1.2e11),
    'both-complex': lambda i: (3e10 * (1 + 0.3j) * (1 + 0.1 * i), 9e10 * (1 + 0.02j)),
    'near-incompressible': lambda i: (4e9 * (1 + 0.01j), 4e12 * (1 + 0.3 * i)),
    'soft-lossy': lambda i: (1e6 * (1 + 1j) * (1 + i), 1e10),
    'stiff-low-loss': lambda i: (2e11 * (1 + 1e-6j), 3e11 * (1 + 1e-7j)),
}

# synthetic y menus: rows y1..y4 at the three radii (y5, y6 filled with harmless values)
def _ph(mag, deg):
    return mag * complex(math.cos(math.radians(deg)), math.sin(math.radians(deg)))


YSYN = {
    'arb-0': [[_ph(1.3e-3, 10), _ph(0.9e-3, -40), _ph(2.1e-3, 75)], [_ph(2.0e3, 130), _ph(0.7e3, 20), _ph(1.0e1, -95)],
              [_ph(0.4e-3, -160), _ph(1.1e-3, 33), _ph(0.8e-3, 110)], [_ph(3.0e2, 66), _ph(1.5e2, -12), _ph(0.5e1, 170)]],
    'arb-1': [[_ph(5.0e-2, 91), _ph(7.0e-2, 92), _ph(1.0e-1, 93)], [_ph(4.0e5, -3), _ph(1.0e5, -2), _ph(2.0e2, -1)],
              [_ph(1.0e-4, 45), _ph(2.0e-2, 46), _ph(6.0e-2, 47)], [_ph(1.0e4, 179), _ph(3.0e4, -179), _ph(5.0e0, 0.5)]],
    'arb-2': [[_ph(1.0e-6, 0), _ph(1.0e-3, 90), _ph(1.0, 180)], [_ph(1.0, 5), _ph(1.0e3, 5), _ph(1.0e6, 5)],
              [_ph(2.0e-3, -90), _ph(2.0e-6, 0), _ph(0.5, 60)], [_ph(3.0e3, 15), _ph(2.0, 25), _ph(7.0e5, 35)]],
    'real': [[1.3e-3, 0.9e-3, 2.1e-3], [2.0e3, -0.7e3, 1.0e1], [-0.4e-3, 1.1e-3, 0.8e-3], [3.0e2, 1.5e2, -0.5e1]],
}
POW = {'pow-0': (_ph(2.0e-9, 20), 1.0, _ph(0.7e-9, -35), 1.0), 'pow-1': (_ph(3.0e-18, 100), 2.5, _ph(1.5, 10), -0.5)}

SOLVER = {
    'solver-1layer': dict(layers=[(1.8e6, 3300.0, 5e10 * (1 + 0.02j), 1.2e11)], w=4.1e-5),
    'solver-2layer': dict(layers=[(0.9e6, 8000.0, 8e10 * (1 + 0.01j), 2.0e11), (1.8e6, 3300.0, 5e10 * (1 + 0.05j), 1.2e11)],
                          w=4.1e-5),
    'solver-3layer': dict(layers=[(2.0e6, 9000.0, 1.0e11 * (1 + 0.001j), 3.0e11), (5.0e6, 4500.0, 7e10 * (1 + 0.02j), 2.0e11),
                                  (6.0e6, 3000.0, 1e9 * (1 + 0.5j), 5.0e10)], w=2.0e-6),
}

SHIPPED = ['sync', 'nsr', 'nsr_modes', 'obl', 'obl_modes', 'gen', 'gen_modes', 'gen_lowe_modes']


# ---------------------------------------------------------------------------------------------------------------
# analytic surface harmonics by exact polynomial algebra in (c, s) = (cos t, sin t)
# ---------------------------------------------------------------------------------------------------------------
PLM = {  # {(a, b): coef} meaning sum coef * c^a * s^b   (Condon-Shortley phase as in the shipped potentials)
    (2, 0): {(2, 0): 1.5, (0, 0): -0.5}, (2, 1): {(1, 1): -3.0}, (2, 2): {(0, 2): 3.0},
    (3, 0): {(3, 0): 2.5, (1, 0): -1.5}, (3, 1): {(2, 1): -7.5, (0, 1): 1.5}, (3, 2): {(1, 2): 15.0}, (3, 3): {(0, 3): -15.0},
}


def pdiff(p):
    out = {}
    for (a, b), cf in p.items():
        if a:
            out[(a - 1, b + 1)] = out.get((a - 1, b + 1), 0.0) - a * cf
        if b:
            out[(a + 1, b - 1)] = out.get((a + 1, b - 1), 0.0) + b * cf
    return out


def peval(p, th):
    import numpy as np
    c, s = np.cos(th), np.sin(th)
    return sum(cf * c ** a * s ** b for (a, b), cf in p.items()) + 0 * th


def harmonic(l, m, fam, w, phase):
    """(U, U_t, U_p, U_tt, U_pp, U_tp), each (nlon, ncol, nt)."""
    import numpy as np
    th = np.asarray(COL)[None, :, None]
    ph = np.asarray(LON)[:, None, None]
    t = np.asarray(TIM)[None, None, :]
    p0 = PLM[(l, m)]
    p1 = pdiff(p0)
    p2 = pdiff(p1)
    P, P1, P2 = peval(p0, th), peval(p1, th), peval(p2, th)
    ang = m * ph + w * t + phase
    if fam == 'cos':
        A, Ap, App = np.cos(ang), -m * np.sin(ang), -m * m * np.cos(ang)
    else:
        A, Ap, App = np.sin(ang), m * np.cos(ang), -m * m * np.sin(ang)
    amp = 3.7    # m^2 s^-2, arbitrary
    return tuple(np.ascontiguousarray(amp * x) for x in (P * A, P1 * A, P * Ap, P2 * A, P * App, P1 * Ap))


def shipped_modes(impl, static):
    """{mode: 6 arrays (nlon, ncol, nt)} of one shipped implementation on the C15 grid (physical units)."""
    import numpy as np
    from TidalPy.tides import potential as P
    from mc.props.C14 import IMPL, jit_call
    spec = IMPL[impl]
    L, C, T = [np.ascontiguousarray(x) for x in np.meshgrid(np.asarray(LON), np.asarray(COL), np.asarray(TIM), indexing='ij')]
    R, a, Mh, n = 1.8216e6, 4.217e8, 1.898e27, 4.11e-5
    f = getattr(P, spec['fn'])
    if spec['kind'] == 'sync':
        out = jit_call(f, R, L, C, T, n, 0.1, Mh, a)
    elif spec['kind'] == 'noobl':
        out = jit_call(f, R, L, C, T, n, 1.5 * n, 0.1, Mh, a, bool(static))
    else:
        out = jit_call(f, R, L, C, T, n, 1.5 * n, 0.1, 0.3, Mh, a, bool(static))
    return {str(k): tuple(np.ascontiguousarray(np.asarray(x)) for x in v) for k, v in out[2].items()}


# ---------------------------------------------------------------------------------------------------------------
# radial functions
# ---------------------------------------------------------------------------------------------------------------
_SOLVED = {}


def radial_source(ysrc, modname, l):
    """-> (radius (nr,), y (6, nr) complex, mu (nr,), K (nr,), extra) or ('inadmissible', why)."""
    import numpy as np
    if ysrc.startswith('solver'):
        key = (ysrc, l)
        if key not in _SOLVED:
            from mc import rs
            spec = SOLVER[ysrc]
            nl = len(spec['layers'])
            if nl == 1:
                R, rho, mu, K = spec['layers'][0]
                arrs, bulk, tops = rs.uniform_planet(R, rho, mu, K.real if isinstance(K, complex) else K, N=60)
            else:
                arrs, bulk, tops = rs.layered_planet(spec['layers'], N=40)
            r = rs.solve(arrs, spec['w'], bulk, ('solid',) * nl, (False,) * nl, (False,) * nl, tops, degree_l=l)
            _SOLVED[key] = (r, arrs)
        r, arrs = _SOLVED[key]
        if r['status'] != 'ok':
            return ('inadmissible', f"solver-{r['status']}")
        y = np.asarray(r['result'])[:6]
        if not np.all(np.isfinite(y)):
            return ('inadmissible', 'solver-nonfinite')
        N = y.shape[1]
        nl = len(SOLVER[ysrc]['layers'])
        # 7 radii: innermost, surface, both sides of the first interface (when there is one), and three spread
        idx = sorted({0, N - 1, N // 5, (2 * N) // 5, (3 * N) // 5, (N // nl) - 1 if nl > 1 else (4 * N) // 5,
                      (N // nl) if nl > 1 else N - 2})
        while len(idx) < 7:
            idx = sorted(set(idx) | {max(set(range(N)) - set(idx))})
        idx = idx[:7]
        rad = np.ascontiguousarray(np.asarray(arrs[0])[idx])
        mu = np.ascontiguousarray(np.asarray(arrs[4])[idx].astype(np.complex128))
        K = np.ascontiguousarray(np.asarray(arrs[3])[idx].astype(np.complex128))
        return rad, np.ascontiguousarray(y[:, idx].astype(np.complex128)), mu, K, {}
    rad = np.asarray(RAD3, dtype=float)
    mk = [MODULI[modname](i) for i in range(3)]
    mu = np.array([complex(m) for m, _ in mk])
    K = np.array([complex(k) for _, k in mk])
    if ysrc in YSYN:
        y = np.zeros((6, 3), dtype=np.complex128)
        y[:4] = np.array(YSYN[ysrc], dtype=np.complex128)
        y[4] = 1.0
        y[5] = 1e-6
        return rad, y, mu, K, {}
    A, p, B, q = POW[ysrc]
    lam = K - 2.0 * mu / 3.0
    y1, y3 = A * rad ** p, B * rad ** q
    dy1, dy3 = A * p * rad ** (p - 1), B * q * rad ** (q - 1)
    y = np.zeros((6, 3), dtype=np.complex128)
    y[0], y[2] = y1, y3
    y[1] = (lam + 2 * mu) * dy1 + (lam / rad) * (2 * y1 - l * (l + 1) * y3)
    y[3] = mu * (dy3 - y3 / rad + y1 / rad)
    y[4] = 1.0
    return rad, y, mu, K, dict(dy1=dy1, dy3=dy3)


# ---------------------------------------------------------------------------------------------------------------
# reference model (plain numpy, explicit axes: r, lon, col, t)
# ---------------------------------------------------------------------------------------------------------------
def reference(pot, rad, y, mu, K, l, extra):
    import numpy as np
    U, Ut, Up, Utt, Upp, Utp = (np.asarray(x)[None, :, :, :] for x in pot)
    th = np.asarray(COL)[None, None, :, None]
    sn, ct = np.sin(th), np.cos(th) / np.sin(th)
    r = rad[:, None, None, None]
    y1, y2, y3, y4 = (y[i][:, None, None, None] for i in range(4))
    m = mu[:, None, None, None]
    lam = (K - 2.0 * mu / 3.0)[:, None, None, None]
    if 'dy1' in extra:     # strain straight from the displacement field (analytic radial derivatives)
        dy1 = extra['dy1'][:, None, None, None]
        dy3 = extra['dy3'][:, None, None, None]
        shear_fac = 0.5 * (dy3 - y3 / r + y1 / r)
    else:                  # dy1/dr, dy3/dr eliminated with the constitutive relations
        dy1 = (y2 - (lam / r) * (2 * y1 - l * (l + 1) * y3)) / (lam + 2 * m)
        shear_fac = 0.5 * y4 / m
    eps = np.stack(np.broadcast_arrays(
        dy1 * U,
        (y3 * Utt + y1 * U) / r,
        (y3 * (Upp / sn ** 2 + ct * Ut) + y1 * U) / r,
        shear_fac * Ut,
        shear_fac * Up / sn,
        (y3 / r) * (Utp - ct * Up) / sn))
    tr = eps[0] + eps[1] + eps[2]
    sig = 2 * m[None] * eps
    sig[:3] = sig[:3] + (lam * tr)[None]
    trac = np.stack(np.broadcast_arrays(y2 * U, y4 * Ut, y4 * Up / sn))
    dev2 = (np.abs(eps[0] - tr / 3) ** 2 + np.abs(eps[1] - tr / 3) ** 2 + np.abs(eps[2] - tr / 3) ** 2
            + 2 * (np.abs(eps[3]) ** 2 + np.abs(eps[4]) ** 2 + np.abs(eps[5]) ** 2))
    heat = np.abs(2 * np.imag(m) * dev2 + np.imag(K)[:, None, None, None] * np.abs(tr) ** 2)
    disp = np.stack(np.broadcast_arrays(y1 * U, y3 * Ut, y3 * Up / sn))
    return eps, sig, trac, heat, disp


COMP = ['rr', 'tt', 'pp', 'rt', 'rp', 'tp']


def check_one(pot, rad, y, mu, K, l, extra, w, elastic_real, viol, worst, label):
    import numpy as np
    from TidalPy.tides.multilayer.stress_strain import calculate_strain_stress
    from TidalPy.tides.heating import calculate_volumetric_heating
    from TidalPy.tides.multilayer.displacements import calculate_displacements
    from mc.props.C14 import jit_call
    lon, col, tim = np.asarray(LON), np.asarray(COL), np.asarray(TIM)
    nr = len(rad)
    shape = (6, nr, len(lon), len(col), len(tim))

    def add(site, err, **d):
        viol.append((site, dict(err=float(err) if err is not None else None, tol=TOL, where=label, **d)))

    try:
        strains, stresses = jit_call(calculate_strain_stress, *pot, y, lon, col, tim, rad, mu, K, float(w), int(l))
    except Exception as ex:
        viol.append((f'C15/calculate_strain_stress/exception/{type(ex).__name__}', dict(msg=str(ex)[:300], where=label)))
        return
    strains, stresses = np.asarray(strains), np.asarray(stresses)
    if strains.shape != shape or stresses.shape != shape or strains.dtype != np.complex128 or stresses.dtype != np.complex128:
        add('C15/calculate_strain_stress/shape-dtype', None, got=[list(strains.shape), str(strains.dtype)], want=list(shape))
        return
    if not (np.all(np.isfinite(strains)) and np.all(np.isfinite(stresses))):
        add('C15/calculate_strain_stress/non-finite', None)
        return
    eps, sig, trac, heat_ref, disp = reference(pot, rad, y, mu, K, l, extra)
    lam = K - 2.0 * mu / 3.0
    S_eps = np.max(np.abs(eps), axis=(0, 2, 3, 4))                 # per radius
    S_eps = np.where(S_eps > 0, S_eps, 1.0)
    S_sig = (np.abs(lam) + 2 * np.abs(mu)) * S_eps
    se = S_eps[None, :, None, None, None]
    ss = S_sig[None, :, None, None, None]

    def rel(a, scale):
        return np.max(np.abs(a) / scale, axis=tuple(range(1, a.ndim)))

    def judge(key, errs, names, site):
        for nm, e in zip(names, errs):
            worst[key] = max(worst.get(key, 0.0), float(e))
            if not e <= TOL:
                add(f'{site}/{nm}', e)

    judge('strain', rel(strains - eps, se), COMP, 'C15/strain')
    trc = strains[0] + strains[1] + strains[2]
    hooke = 2 * mu[None, :, None, None, None] * strains
    hooke[:3] = hooke[:3] + (lam[:, None, None, None] * trc)[None]
    judge('hooke', rel(stresses - hooke, ss), COMP, 'C15/hooke')
    judge('stress', rel(stresses - sig, ss), COMP, 'C15/stress')
    judge('traction', rel(np.stack([stresses[0], stresses[3], stresses[4]]) - trac, ss), ['s_rr', 's_rt', 's_rp'],
          'C15/traction')

    # heating
    try:
        H = np.asarray(jit_call(calculate_volumetric_heating, stresses, strains))
    except Exception as ex:
        viol.append((f'C15/calculate_volumetric_heating/exception/{type(ex).__name__}', dict(msg=str(ex)[:300], where=label)))
        H = None
    if H is not None:
        S_h = (S_sig * S_eps)[:, None, None, None]
        if H.shape != shape[1:] or np.iscomplexobj(H):
            add('C15/heating/shape-or-complex', None, got=[list(H.shape), str(H.dtype)])
        else:
            if not np.all(np.isfinite(H)) or np.min(H) < 0:
                add('C15/heating/negative-or-nonfinite', float(np.min(H)))
            w9 = np.array([1, 1, 1, 2, 2, 2.0])
            ind = np.abs(np.einsum('k,krlct->rlct', w9, np.imag(stresses * np.conj(strains))))
            e1 = float(np.max(np.abs(H - ind) / S_h))
            e2 = float(np.max(np.abs(H - heat_ref) / S_h))
            worst['heating-einsum'] = max(worst.get('heating-einsum', 0.0), e1)
            worst['heating-closed-form'] = max(worst.get('heating-closed-form', 0.0), e2)
            if not e1 <= TOL:
                add('C15/heating/vs-independent-einsum', e1)
            if not e2 <= TOL:
                add('C15/heating/vs-closed-form-ImMu-ImK', e2)
            if elastic_real and np.max(np.abs(H)) != 0.0:
                add('C15/heating/elastic-not-exactly-zero', float(np.max(np.abs(H))))

    # displacements
    try:
        C3 = np.ascontiguousarray(np.broadcast_to(col[None, :, None], pot[0].shape))
        d = jit_call(calculate_displacements, pot[0], pot[1], pot[2], y, C3)
        d = np.stack([np.asarray(x) for x in d])
        if d.shape != (3,) + shape[1:]:
            add('C15/displacements/shape', None, got=list(d.shape))
        else:
            S_d = np.max(np.abs(disp), axis=(0, 2, 3, 4))
            S_d = np.where(S_d > 0, S_d, 1.0)[None, :, None, None, None]
            judge('displacement', rel(d - disp, S_d), ['u_r', 'u_t', 'u_p'], 'C15/displacements')
    except Exception as ex:
        viol.append((f'C15/calculate_displacements/exception/{type(ex).__name__}', dict(msg=str(ex)[:300], where=label)))


def run_case(c):
    from mc import env
    env.tidalpy()
    import numpy as np
    if c.get('kind') == 'warm':     # compile once per tree (numba on-disk cache then serves every worker)
        if c.get('impl'):
            shipped_modes(c['impl'], True)
            return dict(status='pass', viol=[], obs=None)
        c = dict(ysrc='arb-0', moduli='elastic', l=2, pot='ylm-cos', seed=0)
    l, ysrc, modname = c['l'], c['ysrc'], c['moduli']
    src = radial_source(ysrc, modname, l)
    if isinstance(src[0], str):
        return dict(status=f'inadmissible:{src[1]}', viol=[], obs=None)
    rad, y, mu, K, extra = src
    rot = 0.17 * (c.get('seed', 0) % 7)
    w = 4.1e-5
    elastic_real = bool(np.all(np.imag(mu) == 0) and np.all(np.imag(K) == 0) and np.all(np.imag(y[:4]) == 0))
    viol, worst = [], {}
    members = []
    if c['pot'].startswith('ylm'):
        fam = c['pot'].split('-')[1]
        for m in range(l + 1):
            pot = harmonic(l, m, fam, w, 0.4 + rot)
            U, Ut, Up, Utt, Upp, Utp = pot
            th = np.asarray(COL)[None, :, None]
            lap = np.max(np.abs(Utt + Ut / np.tan(th) + Upp / np.sin(th) ** 2 + l * (l + 1) * U)) / max(np.max(np.abs(U)), 1e-300)
            if np.max(np.abs(U)) > 0 and lap > TOL_LAPLACE_SELF:
                raise AssertionError(f'harness self-check: analytic harmonic l={l} m={m} violates the Laplace identity ({lap:.2e})')
            members.append((f'Y{l}{m}-{fam}', pot))
    else:
        _, impl, st = c['pot'].split(':')
        try:
            modes = shipped_modes(impl, st == 'T')
        except Exception as ex:   # C14's subject; here the potential is only an input
            return dict(status=f'inadmissible:potential-{type(ex).__name__}', viol=[], obs=None)
        members = [(f'{impl}:{k}', v) for k, v in modes.items()]
    sig = []
    for label, pot in members:
        check_one(pot, rad, y, mu, K, l, extra, w, elastic_real, viol, worst, label)
        sig.append(round(float(np.max(np.abs(pot[0]))), 9))
    # one site per (oracle, component): keep the first occurrence of each site in this case
    seen, out = set(), []
    for s, d in viol:
        if s not in seen:
            seen.add(s)
            out.append((s, d))
    obs = [ysrc, modname, l, c['pot'], sig[:4], len(members)]
    return dict(status='pass', viol=out, obs=obs, worst=worst)


def replay(case):
    return run_case(case)['viol']


def cases(tier, seed):
    thorough = tier == 'thorough'
    mods = list(MODULI) if thorough else ['elastic', 'maxwell-mu', 'near-incompressible']
    rotate = seed % len(mods)
    mods = mods[rotate:] + mods[:rotate]
    syn = (list(YSYN) + list(POW)) if thorough else ['arb-0', 'arb-2', 'real', 'pow-1']
    pots2 = ['ylm-cos', 'ylm-sin'] + [f'shipped:{i}:{s}' for i in SHIPPED for s in (('F', 'T') if i != 'sync' else ('F',))]
    pots3 = ['ylm-cos', 'ylm-sin']
    out = []
    for l in (2, 3):
        for ysrc in list(SOLVER):
            for pot in (pots2 if l == 2 else pots3):
                out.append(dict(ysrc=ysrc, moduli='own', l=l, pot=pot, seed=seed))
        for ysrc in syn:
            for mod in mods:
                for pot in (pots2 if l == 2 else pots3):
                    out.append(dict(ysrc=ysrc, moduli=mod, l=l, pot=pot, seed=seed))
    return out


def run(ctx):
    from mc.core import run_lattice
    ctx.map('mc.props.C15:run_case', [dict(kind='warm')] + [dict(kind='warm', impl=i) for i in SHIPPED], chunk=1)
    cs = cases(ctx.tier, ctx.seed)
    res = run_lattice(
        ctx, 'mc.props.C15:run_case', cs, chunk=4, min_admitted_frac=0.9,
        rule='full product radial-function source (3 radial_solver outputs + synthetic complex/real/power-law menus) x '
             'moduli menu x l in {2,3} x potential family (all Y_lm cos / sin, m <= l; for l=2 every mode of the 8 shipped '
             'potentials with both use_static values); each case runs every member of the family on a 3(7)x4x5x2 grid; '
             'distinct = distinct (source, moduli, l, family, max|U| of the first members)',
        exhaustive=True)
    worst = {}
    for r in res:
        for k, v in (r.get('worst') or {}).items():
            worst[k] = max(worst.get(k, 0.0), v)
    ctx.coverage['worst_observed_relative_error'] = {k: float(f'{v:.3e}') for k, v in sorted(worst.items())}
    ctx.coverage['grid'] = dict(radius='3 (synthetic) / 7 (solver)', longitude=len(LON), colatitude=len(COL), time=len(TIM))
