"""C11 scale-argument leg: the da_dt / de_dt / dspin_dt scale arguments of the quick entry points multiply exactly their own rate
(added after the seeded change C11-1 -- da/dt multiplied by de_dt_scale in the dual entry -- was missed: no case used non-default scales)."""
import math

G = 6.67430e-11
SCALES = dict(da_dt_scale=2.0, de_dt_scale=3.0, dspin_dt_scale=5.0)


def cases(tier):
    out = []
    for rheo in ('maxwell', 'andrade', 'cpl'):
        for pair in ((1.0e27, 8.9e22), (6.0e24, 7.3e22)):
            for lmax in (2, 3):
                out.append(dict(kind='scales', rheo=rheo, m1=pair[0], m2=pair[1], lmax=lmax))
    return out


def _body(m, rho):
    R = (3 * m / (4 * math.pi * rho)) ** (1 / 3)
    return dict(R=R, g=G * m / R ** 2, rho=rho, C=0.35 * m * R * R)


def run_case(c):
    from mc import env
    env.tidalpy()
    import numpy as np
    from TidalPy.toolbox.quick_tides import quick_dual_body_tidal_dissipation, quick_tidal_dissipation
    viol = []
    b1, b2 = _body(c['m1'], 1300.0), _body(c['m2'], 3500.0)
    n = 4.0e-5
    args = dict(maxwell=(), andrade=(0.3, 1.0), cpl=())[c['rheo']]

    def dual(**kw):
        return quick_dual_body_tidal_dissipation(
            radii=(b1['R'], b2['R']), masses=(c['m1'], c['m2']), gravities=(b1['g'], b2['g']), densities=(b1['rho'], b2['rho']),
            mois=(b1['C'], b2['C']), viscosities=(1e17, 1e16), shear_moduli=(4e9, 5e10), rheologies=(c['rheo'], c['rheo']),
            complex_compliance_inputs=(args, args), obliquities=(0.1, 0.2), spin_frequencies=(2.7e-5, 6.1e-5), eccentricity=0.05,
            orbital_frequency=n, max_tidal_order_l=c['lmax'], eccentricity_truncation_lvl=4, **kw)

    def single(**kw):
        return quick_tidal_dissipation(c['m1'], b2['R'], c['m2'], b2['g'], b2['rho'], b2['C'], viscosity=1e16, shear_modulus=5e10,
                                       rheology=c['rheo'], complex_compliance_inputs=args, eccentricity=0.05, obliquity=0.2,
                                       orbital_frequency=n, spin_frequency=6.1e-5, max_tidal_order_l=c['lmax'],
                                       eccentricity_truncation_lvl=4, calculate_orbit_spin_derivatives=True, **kw)

    def rel(a, b):
        a, b = float(a), float(b)
        return abs(a - b) / max(abs(a), abs(b), 1e-300)
    obs = []
    try:
        d0, d1 = dual(), dual(**SCALES)
        pairs = [('semi_major_axis_derivative', d0['semi_major_axis_derivative'], d1['semi_major_axis_derivative'], SCALES['da_dt_scale']),
                 ('eccentricity_derivative', d0['eccentricity_derivative'], d1['eccentricity_derivative'], SCALES['de_dt_scale'])]
        for w in ('host', 'secondary'):
            pairs.append((f'{w}/spin_rate_derivative', d0[w]['spin_rate_derivative'], d1[w]['spin_rate_derivative'], SCALES['dspin_dt_scale']))
            pairs.append((f'{w}/tidal_heating', d0[w]['tidal_heating'], d1[w]['tidal_heating'], 1.0))
        for name, x0, x1, f in pairs:
            obs.append(round(float(x0), 30))
            if not rel(x1, f * x0) <= 1e-13:
                viol.append((f'C11/dual/scale-arguments/{name.split("/")[-1]}', dict(quantity=name, unscaled=float(x0), scaled=float(x1), expected_factor=f)))
        s0, s1 = single(), single(**SCALES)
        for name, f in (('semi_major_axis_derivative', SCALES['da_dt_scale']), ('eccentricity_derivative', SCALES['de_dt_scale']),
                        ('spin_rate_derivative', SCALES['dspin_dt_scale']), ('tidal_heating', 1.0)):
            if not rel(s1[name], f * s0[name]) <= 1e-13:
                viol.append((f'C11/single/scale-arguments/{name}', dict(quantity=name, unscaled=float(s0[name]), scaled=float(s1[name]), expected_factor=f)))
    except Exception as e:
        viol.append((f'C11/scale-arguments/exception/{type(e).__name__}', dict(msg=str(e)[:200])))
    return dict(status='pass', viol=viol, obs=(c['rheo'], c['lmax'], c['m1'], obs[:2]))


def replay(case):
    return run_case(case)['viol']


def run(ctx):
    from mc.core import run_lattice
    run_lattice(ctx, 'mc.props.C11_scales:run_case', cases(ctx.tier), chunk=1,
                rule='scale-argument leg: rheology{maxwell,andrade,cpl} x mass pair x l_max{2,3}, dual and single quick entry points called with '
                     'default and with (da,de,dspin) scales (2,3,5): each rate multiplied by exactly its own factor, heating unchanged')
