"""C03 -- Love numbers are invariant under changes of representation, and obey Saito-Molodensky reciprocity.

E1 lattice: planet menu x l x frequency x transformation.  One case = one (planet, l, frequency, transformation): a base run of
the real `radial_solver` (tight grid, DOP853, rtol 1e-9, solve_for=('tidal','loading')), its convergence-gate run (rtol/100,
atol/100; this is the qualifier "numerically converged" of the property statement), and the transformed run(s):

  nondim          nondimensionalize True <-> False
  rescale         exactly rescaled copy: lengths x a, moduli x a^2, gravity x a, same densities and frequency,
                  a in {1e-2, 0.1, 10, 1e2}, solved with nondimensionalize True and False
  solve_for       ('tidal',) / ('loading',) alone, superset ('tidal','loading','free'), permutations ('loading','tidal'),
                  ('loading','free','tidal'), ('free','tidal'); and solve_for=None (documented default = tidal)
  integrator      RK45 and RK23 against DOP853 (each integrator must pass its own rtol -> rtol/100 gate at the rtol it is run with)
  rtol            a further 100x tightening of the gate run (rtol/100 -> rtol/10^4) changes nothing
  grid-tight      tight grid N -> 2N slices per layer
  grid-natural    natural grid (linspace per layer, first slice of an upper layer one step above the interface) N -> 2N -> 4N
  start-family    Kamata <-> Takeuchi starting vectors (planets with a static compressible solid core, where both are defined and
                  the known Takeuchi defects of C04 contaminate by < 1e-6)
  saito-molodensky  k_load = k_tidal - h_tidal on the base run (also asserted on every other admitted run that solved both)

Oracle: metamorphic -- equality of (k, h, l) of the two real runs (|dx| / max(1,|x|), per relation tolerance calibrated on the
pristine tree), and the Saito-Molodensky identity.

Known finding re-derived here (Cython, solver.pyx): on NATURAL grids every multi-layer result depends on the grid at first
order (upper layers are started at their first slice, one step above the interface, with the interface values).  Classifier:
site `C03/grid-refinement/natural-grid-first-order` iff the planet has >= 2 layers, the N->2N and 2N->4N differences have
ratio 2 +- 0.3, the N->2N difference is below 5e-2 and the SAME planet on the tight grid passes the tight-grid relation (N->2N
difference <= 3e-4, 4x below the smallest natural-grid difference seen);
every other refinement failure (single layer, tight grid, other ratio) gets a different site and is a fresh violation.
"""
import math
import os

LEVEL = 'exploration'
ASSUMPTIONS = [
    'continuous parameters (densities, moduli, layer radii, frequency, scale factor a) are decided on the stated menu only '
    '(5 planets x 2 material profiles x l{2,3,4} x frequency{1e-5,1e-4,1e-3} x a{1e-2,0.1,10,1e2}; the seed rotates a factor on the material profile)',
    'asserted only for numerically converged solves: every run of a pair must succeed and the base run (and, for the integrator '
    'relation, the other integrator\'s run) must be stable under rtol/100, atol/100 to 1e-6; the rest is counted as inadmissible',
    'the planet with a dynamic liquid layer is enumerated at omega >= 1e-3 only (dynamic liquid layers at low frequency are '
    'documented as unstable; at 1e-4 every relation incl. rtol/100 fails by O(1) and the gate removes it)',
    'Kamata <-> Takeuchi only for planets whose innermost layer is a static compressible solid (both families defined; the Takeuchi '
    'dynamic family carries the known C01/C04 y6-slot defect)',
    'all planets on the tight grid of mc/rs.py except in the grid-natural relation',
    'max_num_steps is capped (200000 per integration); exhaustion = solver failure = inadmissible, never a verdict',
]

G = 6.67430e-11
N_BASE = 40
RTOL, ATOL = 1e-9, 1e-12
ATOL_FLOOR = 1e-14           # atol 1e-16 is unreachable for l = 4 (step budget exhausted); the gate run uses (rtol/100, atol/100)
MAX_STEPS = 200000
SEED_FACTORS = [1.0, 1.07, 0.93, 1.31, 0.77, 1.19]

# ---- tolerances (pristine worst cases over the thorough lattice, seeds 0..4, are listed in the builder's report) ---------
GATE = 1e-6                 # admission: |x(rtol) - x(rtol/100)| / max(1,|x|) over all six Love numbers of the run
TOL = {
    'nondim': 1e-5,
    'nondim-result': 1e-4,     # layer-edge radial functions nd=T vs nd=F, relative to the row maximum (calibrated: see DESIGN 8.9)
    'rescale': 1e-5,
    'solve_for': 1e-13,
    'integrator': 3e-5,
    'rtol': 3e-6,
    'grid-tight': 3e-4,
    'grid-natural': 1e-4,
    'start-family': 1e-5,
    'saito-molodensky': 1e-5,
}
RTOL_BY_METHOD = {'DOP853': 1e-9, 'RK45': 1e-9, 'RK23': 1e-7}

# planet menu, two material profiles per planet: layers (r_top/R, rho, mu, K, kind) kind = S/L + s/d (static/dynamic) + c/i
PLANETS_A = {
    'uniform': [(1.0, 5000., 6e10 + 6e8j, 2e11, 'Sdc')],
    'ss': [(0.5, 8000., 8e10 + 8e8j, 3e11, 'Ssc'), (1.0, 4000., 5e10 + 1e9j, 1.5e11, 'Sdc')],
    'sLs-static': [(1 / 3., 9000., 1e11 + 1e9j, 3e11, 'Ssc'), (2 / 3., 7000., 0j, 2e11, 'Lsc'), (1.0, 3500., 5e10 + 5e8j, 1e11, 'Sdc')],
    'sLs-dynamic': [(1 / 3., 9000., 1e11 + 1e9j, 3e11, 'Sdc'), (2 / 3., 7000., 0j, 2e11, 'Ldc'), (1.0, 3500., 5e10 + 5e8j, 1e11, 'Sdc')],
    '4layer': [(0.25, 10000., 1e11 + 1e9j, 3e11, 'Ssc'), (0.5, 8000., 0j, 2.5e11, 'Lsc'), (0.75, 5000., 7e10 + 7e8j, 2e11, 'Sdi'),
               (1.0, 3000., 3e10 + 3e9j, 1e11, 'Ssc')],
}
# profile B: small body (R = 2e6 m), strong contrasts, soft lossy outer shells, other static/dynamic/incompressible choices
PLANETS_B = {
    'uniform': [(1.0, 3000., 4e9 + 2e9j, 8e10, 'Ssc')],
    'ss': [(0.6, 7000., 1.5e11 + 1e9j, 4e11, 'Sdc'), (1.0, 1500., 3e9 + 1e9j, 4e10, 'Ssc')],
    'sLs-static': [(0.4, 8000., 1e11 + 1e8j, 3e11, 'Ssc'), (0.9, 1100., 0j, 2.5e9, 'Lsi'), (1.0, 950., 3.5e9 + 1e8j, 1e10, 'Ssc')],
    'sLs-dynamic': [(0.5, 6000., 9e10 + 2e9j, 3e11, 'Ssc'), (0.8, 3000., 0j, 1e11, 'Ldi'), (1.0, 2500., 2e10 + 2e9j, 8e10, 'Sdc')],
    '4layer': [(0.3, 8000., 9e10 + 9e8j, 3e11, 'Sdi'), (0.55, 5000., 0j, 1.5e11, 'Lsc'), (0.8, 3300., 6e10 + 3e9j, 1.2e11, 'Sdc'),
               (1.0, 1000., 3e9 + 3e8j, 1e10, 'Ssi')],
}
PROFILES = {'A': (6.0e6, PLANETS_A), 'B': (2.0e6, PLANETS_B)}
PLANET_ORDER = ['uniform', 'ss', 'sLs-static', 'sLs-dynamic', '4layer']
LS = [2, 3, 4]
FREQS = [1e-3, 1e-4, 1e-5]
SCALES = [1e-2, 0.1, 10., 1e2]
SOLVE_FOR = [('tidal',), ('loading',), ('tidal', 'loading', 'free'), ('loading', 'tidal'), ('loading', 'free', 'tidal'),
             ('free', 'tidal'), None]


def cases(tier, seed):
    sd = seed % len(SEED_FACTORS)
    out = []
    quick = tier == 'quick'
    ls = [2, 3] if quick else LS
    for prof, p, l, w in [(a, b, c, d) for a in ('A', 'B') for b in PLANET_ORDER for c in ls for d in FREQS]:
        if p == 'sLs-dynamic' and w < 1e-3:
            continue
        base = dict(planet=p, prof=prof, l=l, w=w, seed=sd)
        spec = PROFILES[prof][1][p]

        def add(rel, **kw):
            out.append(dict(base, rel=rel, **kw))

        add('saito-molodensky')
        add('nondim')
        for a in (SCALES[1:3] if quick else SCALES):
            for nd in ([True] if quick else [True, False]):
                add('rescale', a=a, nd=nd)
        for sf in (SOLVE_FOR[:1] + SOLVE_FOR[2:5] if quick else SOLVE_FOR):
            add('solve_for', sf=list(sf) if sf is not None else None)
        add('integrator', method='RK45')
        if not quick:
            add('integrator', method='RK23')
        add('rtol')
        add('grid-tight')
        add('grid-natural')
        if spec[0][4] == 'Ssc' or p == 'uniform':
            add('start-family')
    return out


# ---- runs --------------------------------------------------------------------------------------------------------
def _run(case, N=N_BASE, tight=True, scale=1.0, nd=True, method='DOP853', solve_for=('tidal', 'loading'), rtol=RTOL, atol=None,
         kamata=True, core_static=False):
    """one real solver run; returns dict(status, love{name: (k,h,l)}, msg)"""
    from mc import rs
    import numpy as np
    f = SEED_FACTORS[case['seed']]
    R0, menu = PROFILES[case['prof']]
    spec = menu[case['planet']]
    layers = [(R0 * x * scale, rho * f, mu * f * scale ** 2, K * f * scale ** 2) for (x, rho, mu, K, kind) in spec]
    kinds = [s[4] for s in spec]
    if core_static:
        kinds[0] = kinds[0][0] + 's' + kinds[0][2]
    arrs, rhob, tops = rs.layered_planet(layers, N=N, tight=tight)
    types = tuple('solid' if k[0] == 'S' else 'liquid' for k in kinds)
    stat = tuple(k[1] == 's' for k in kinds)
    inc = tuple(k[2] == 'i' for k in kinds)
    if atol is None:
        atol = max(rtol * (ATOL / RTOL), ATOL_FLOOR)
    kw = dict(degree_l=case['l'], use_kamata=kamata, integration_method=method, integration_rtol=rtol, integration_atol=atol,
              nondimensionalize=nd, max_num_steps=MAX_STEPS)
    if solve_for is not None:
        kw['solve_for'] = tuple(solve_for)
    s = rs.solve(arrs, case['w'], rhob, types, stat, inc, tops, **kw)
    if s['status'] != 'ok':
        return dict(status=s['status'], msg=s.get('exc', '') + ':' + s.get('message', ''), exc=s.get('exc'))
    names = ('tidal',) if solve_for is None else tuple(solve_for)
    love = {nm: np.array(s['love'][i]) for i, nm in enumerate(names)}
    if s['love'].shape != (len(names), 3):
        return dict(status='shape', msg=str(s['love'].shape))
    # radial functions at the first and last slice of every layer (interior slices carry dense-output noise, see C04 notes)
    edges = sorted({i * N for i in range(len(layers))} | {(i + 1) * N - 1 for i in range(len(layers))})
    return dict(status='ok', love=love, edge_result=np.array(s['result'])[:, edges])


def _diff(la, lb, names=None):
    """max over requested names and (k,h,l) of |a-b|/max(1,|a|); inf on NaN"""
    import numpy as np
    worst = 0.0
    for nm in (names or la.keys()):
        a, b = la[nm], lb[nm]
        d = np.abs(a - b) / np.maximum(1.0, np.abs(a))
        if not np.all(np.isfinite(d)):
            return float('inf')
        worst = max(worst, float(d.max()))
    return worst


def _sm(love):
    """Saito-Molodensky residual |k_load - (k_tidal - h_tidal)| / max(1, |k_tidal|, |h_tidal|)"""
    kt, ht = love['tidal'][0], love['tidal'][1]
    kl = love['loading'][0]
    d = abs(kl - (kt - ht)) / max(1.0, abs(kt), abs(ht))
    return float(d) if d == d else float('inf')


def run_case(case):
    from mc import env
    env.tidalpy()
    rel = case['rel']
    viol, meas = [], {}
    nlayers = len(PROFILES[case['prof']][1][case['planet']])

    def done(status='pass', obs=None):
        out = dict(status=status, viol=viol, obs=obs)
        if os.environ.get('VERIF_CALIB'):
            out['meas'] = meas
        return out

    def V(site, **d):
        viol.append((site, d))

    def exc_or_inadmissible(r, which):
        """a raised exception on an input the property covers is a violation; a reported failure is inadmissible"""
        if r['status'] == 'exc':
            V(f"C03/{rel}/exception/{r.get('exc')}", which=which, msg=r['msg'])
            return done('pass', obs=('exc', case['planet'], case['prof'], rel))
        return done(f"inadmissible:{which}-{r['status']}")

    core_static = rel == 'start-family' and case['planet'] == 'uniform'
    tight = rel != 'grid-natural'
    bkw = dict(tight=tight, core_static=core_static)
    base = _run(case, **bkw)
    if base['status'] != 'ok':
        return exc_or_inadmissible(base, 'base')
    gate_run = _run(case, rtol=RTOL / 100., **bkw)
    if gate_run['status'] != 'ok':
        return exc_or_inadmissible(gate_run, 'gate')
    g = _diff(base['love'], gate_run['love'])
    meas['gate'] = g
    if not g <= GATE:
        return done('inadmissible:gate')
    B = base['love']
    tol = TOL[rel]

    def check_sm(love, which):
        if 'tidal' in love and 'loading' in love:
            r = _sm(love)
            meas['sm'] = max(meas.get('sm', 0.0), r)
            if not r <= TOL['saito-molodensky']:
                V('C03/saito-molodensky', run=which, k_load=complex(love['loading'][0]), k_tidal=complex(love['tidal'][0]),
                  h_tidal=complex(love['tidal'][1]), residual=r)

    def compare(other, names, site, which, tolerance=None):
        d = _diff(B, other['love'], names)
        meas[rel] = max(meas.get(rel, 0.0), d)
        if not d <= (tol if tolerance is None else tolerance):
            V(site, run=which, diff=d, base={k: v for k, v in B.items() if k in names},
              other={k: v for k, v in other['love'].items() if k in names})
        return d

    kobs = [round(float(B['tidal'][0].real), 9), round(float(B['tidal'][0].imag), 9), round(float(B['loading'][1].real), 9)]
    obs = (case['planet'], case['prof'], case['l'], case['w'], rel, str({k: v for k, v in case.items() if k in ('a', 'nd', 'sf', 'method')}), kobs)

    if rel == 'saito-molodensky':
        check_sm(B, 'base')
        check_sm(gate_run['love'], 'gate')
    elif rel == 'nondim':
        o = _run(case, nd=False)
        if o['status'] != 'ok':
            return exc_or_inadmissible(o, 'transformed')
        compare(o, ('tidal', 'loading'), 'C03/nondimensionalize/T-vs-F', 'nd=False')
        check_sm(o['love'], 'nd=False')
        # the returned radial functions are in physical units either way: same values at every layer edge, per component
        import numpy as np
        ra, rb = base['edge_result'], o['edge_result']
        worst = 0.0
        if ra.shape != rb.shape or not np.array_equal(np.isnan(ra), np.isnan(rb)):
            V('C03/nondimensionalize/radial-functions/nan-pattern-or-shape', shape_T=list(ra.shape), shape_F=list(rb.shape))
        else:
            for row in range(ra.shape[0]):
                a, b = ra[row], rb[row]
                ok = ~np.isnan(a)
                if ok.any():
                    sc = max(float(np.max(np.abs(a[ok]))), float(np.max(np.abs(b[ok]))))
                    if sc > 0:
                        worst = max(worst, float(np.max(np.abs(a[ok] - b[ok])) / sc))
            meas['nondim-result'] = worst
            if not worst <= TOL['nondim-result']:
                V('C03/nondimensionalize/radial-functions/T-vs-F', worst_relative_difference=worst)
    elif rel == 'rescale':
        o = _run(case, scale=case['a'], nd=case['nd'])
        if o['status'] != 'ok':
            return exc_or_inadmissible(o, 'transformed')
        compare(o, ('tidal', 'loading'), 'C03/rescale/love-changed', f"a={case['a']} nd={case['nd']}")
        check_sm(o['love'], 'rescaled')
    elif rel == 'solve_for':
        sf = case['sf']
        o = _run(case, solve_for=sf)
        if o['status'] != 'ok':
            return exc_or_inadmissible(o, 'transformed')
        names = [n for n in (('tidal',) if sf is None else sf) if n in B]
        compare(o, names, 'C03/solve_for/love-depends-on-companions', f'solve_for={sf}')
        if sf is not None and 'free' in sf:
            import numpy as np
            fl = o['love']['free']
            # free surface: y = 0, so (k,h,l) = (y5-1, y1 g, y3 g) = (-1, 0, 0)
            if not np.allclose(fl, [-1.0, 0.0, 0.0], rtol=0, atol=1e-12):
                V('C03/solve_for/free-love-not-trivial', love=fl)
        check_sm(o['love'], 'solve_for')
    elif rel == 'integrator':
        meth = case['method']
        rt = RTOL_BY_METHOD[meth]
        o = _run(case, method=meth, rtol=rt)
        if o['status'] != 'ok':
            return exc_or_inadmissible(o, 'transformed')
        o2 = _run(case, method=meth, rtol=rt / 100.)
        if o2['status'] != 'ok':
            return exc_or_inadmissible(o2, 'transformed-gate')
        g2 = _diff(o['love'], o2['love'])
        meas['gate-' + meth] = g2
        if not g2 <= GATE:
            return done(f'inadmissible:gate-{meth}')
        compare(o, ('tidal', 'loading'), f'C03/integrator/{meth}-vs-DOP853', meth)
        check_sm(o['love'], meth)
    elif rel == 'rtol':
        o = _run(case, rtol=RTOL / 1e4)
        if o['status'] != 'ok':
            return exc_or_inadmissible(o, 'transformed')
        d = _diff(gate_run['love'], o['love'])
        meas[rel] = d
        if not d <= tol:
            V('C03/rtol/tighter-tolerance-moves-converged-result', diff=d, at_rtol_100=gate_run['love'], at_rtol_1e4=o['love'])
    elif rel == 'grid-tight':
        o = _run(case, N=2 * N_BASE)
        if o['status'] != 'ok':
            return exc_or_inadmissible(o, 'transformed')
        compare(o, ('tidal', 'loading'), 'C03/grid-refinement/tight-grid', 'N->2N tight')
        check_sm(o['love'], '2N')
    elif rel == 'grid-natural':
        o2 = _run(case, N=2 * N_BASE, tight=False)
        if o2['status'] != 'ok':
            return exc_or_inadmissible(o2, 'transformed')
        d1 = _diff(B, o2['love'], ('tidal', 'loading'))
        meas['grid-natural-' + ('multi' if nlayers > 1 else 'single')] = d1
        if nlayers > 1 and d1 > 0:
            meas['grid-natural-multi-inverse'] = 1.0 / d1
        if not d1 <= tol:
            # classify: first-order gap signature?
            o4 = _run(case, N=4 * N_BASE, tight=False)
            t1 = _run(case, N=N_BASE, tight=True)
            t2 = _run(case, N=2 * N_BASE, tight=True)
            sig = dict(d_N_2N=d1)
            known = False
            if nlayers >= 2 and o4['status'] == 'ok' and t1['status'] == 'ok' and t2['status'] == 'ok':
                d2 = _diff(o2['love'], o4['love'], ('tidal', 'loading'))
                dt = _diff(t1['love'], t2['love'], ('tidal', 'loading'))
                ratio = d1 / d2 if d2 > 0 else float('inf')
                sig.update(d_2N_4N=d2, ratio=ratio, tight_N_2N=dt)
                meas['natural-ratio-dev'] = abs(ratio - 2.0)
                meas['natural-tight-d'] = dt
                known = abs(ratio - 2.0) <= 0.3 and dt <= TOL['grid-tight'] and d1 < 5e-2
            V('C03/grid-refinement/natural-grid-first-order' if known else 'C03/grid-refinement/natural-grid/other',
              planet=case['planet'], **sig)
    elif rel == 'start-family':
        o = _run(case, kamata=False, core_static=core_static)
        if o['status'] != 'ok':
            return exc_or_inadmissible(o, 'transformed')
        compare(o, ('tidal', 'loading'), 'C03/start-family/kamata-vs-takeuchi', 'takeuchi')
        check_sm(o['love'], 'takeuchi')
    else:
        raise ValueError(rel)
    return done('pass', obs)


def replay(case):
    return run_case(case)['viol']


def run(ctx):
    from mc.core import run_lattice
    cs = cases(ctx.tier, ctx.seed)
    rule = ('profile{A,B} x planet{uniform, solid/solid, solid/static-liquid/solid, solid/dynamic-liquid/solid (omega=1e-3 only), 4-layer with static '
            'liquid and an incompressible layer} x l' + ('{2,3}' if ctx.tier == 'quick' else '{2,3,4}') + ' x frequency{1e-3,1e-4,1e-5} x transformation{'
            'saito-molodensky, nondim T/F, rescale a' + ('{0.1,10}' if ctx.tier == 'quick' else '{1e-2,0.1,10,1e2} x nd{T,F}') +
            ', solve_for variants x' + ('4' if ctx.tier == 'quick' else '7') + ', integrator RK45' + ('' if ctx.tier == 'quick' else '/RK23') +
            ' vs DOP853, rtol/100->rtol/1e4, tight grid N->2N, natural grid N->2N(->4N), Kamata<->Takeuchi}; each case = 3..6 real solver '
            'runs incl. the convergence gate; distinct = distinct (planet, l, frequency, transformation, parameters, base k/h rounded to 1e-9)')
    res = run_lattice(ctx, 'mc.props.C03:run_case', cs, rule=rule, exhaustive=False, min_admitted_frac=0.6)
    calib = os.environ.get('VERIF_CALIB')
    if calib:
        import json
        worst, rej = {}, {}
        for c, r_ in zip(cs, res):
            for k, v in (r_.get('meas') or {}).items():
                if v > worst.get(k, (-1.0, None))[0]:
                    worst[k] = (v, f"{c['planet']}-{c['prof']} l={c['l']} w={c['w']} {c['rel']} " + str({k2: c[k2] for k2 in c if k2 in ('a', 'nd', 'sf', 'method')}))
            if r_['status'].startswith('inadmissible'):
                key = f"{r_['status']} {c['planet']}-{c['prof']} w={c['w']} {c['rel']} {c.get('method', '')}"
                rej[key] = rej.get(key, 0) + 1
        with open(calib, 'w') as fh:
            json.dump(dict(worst=worst, rejected=rej), fh, indent=1, default=str)
