"""C17 -- unit / orbital conversions are mutual inverses and agree across implementations; an orbit object always
reports (a, n, P) that satisfy Kepler's third law for the current masses.

Part 1 (E1 lattice): 61 log-spaced positive values over 30 decades (1e-15 .. 1e15, mantissa rotated by the seed) plus
  8 range-edge values (smallest normal double, 2.3e-308, 1e-300, 1e-200, 1e200, 1e300, 1.7e308, largest double)
  x {scalar, length-3 array} x the 4 conversion pairs (period/frequency, metres/AU, seconds/Myr, semi-major axis/mean
  motion; the Kepler pair with 9 (host, target) mass pairs) x implementations {numba dispatcher and its interpreted
  py_func in conversions.py, Cython conversions_x}.
  Oracles: round trip g(f(x)) == x, f(x) == closed form evaluated in mpmath (60 digits), interpreted == compiled,
  array element == scalar result.  Errors are measured in units in the last place of the expected double.
  A case is admitted when every quantity of the closed-form expression tree (inputs, products, quotients, results) lies in
  [1e-300, 1e300] (no overflow / gradual underflow); the range-edge values exist to exercise that gate from both sides.

Part 2 (E2 history BFS on real PhysicsOrbit objects): operations set orbital period / orbital frequency / semi-major axis
  (2 scalar values and one length-3 array each) through the world property setter, world.set_state, orbit.set_state and the
  dedicated orbit setter, plus one eccentricity write; systems {star host, planet-mass host orbiting a star} x 2 target masses.
  Invariant in every state, through every accessor (world properties, orbit getters, the orbit's per-world lists, the host's
  view of its tide raiser): n^2 a^3 = G (M + m), P = 2 pi / n / 86400 (1e-12), the written quantity is reported bit for bit
  and the two derived ones equal the boring reference model (last written value + Kepler III in plain floats) to 1e-12.
"""
import math

import numpy as np

from mc import histories

LEVEL = 'model_checking'
ASSUMPTIONS = [
    'conversions: decided on the stated value grid only; admitted = every node of the closed-form expression lies in '
    '[1e-300, 1e300]; ulp tolerances 32 (simple pairs) / 512 (cube-root pair, whose interpreted version computes x**(1/3) '
    'with the double nearest to 1/3 and is measured at up to 27 ulp)',
    'the AU / Myr constants themselves are conventions: each implementation is compared with the closed form using its own '
    'constant (Au2m(1), myr2sec(1)); that the constants agree across implementations is asserted by the interpreted == compiled leg',
    'orbit histories over the stated alphabet and values only; bounded depth (see coverage); a state is merged with another '
    'only when the logical state and the deep fingerprint of every reachable instance attribute coincide',
]

G = 6.67430e-11
TOL_SIMPLE = 32.0      # ulp; measured pristine worst 2
TOL_CBRT = 512.0       # ulp; measured pristine worst 27 (interpreted), 5 (compiled)
TOL_ORBIT = 1e-12      # relative; measured pristine worst 1.4e-15
LO, HI = 1e-300, 1e300

MANT = (1.0, 1.37, 2.9, 7.3, 0.51, 4.4)
EDGE = (2.2250738585072014e-308, 2.3e-308, 1e-300, 1e-200, 1e200, 1e300, 1.7e308, 1.7976931348623157e308)
HOSTS = (1.989e30, 1.898e27, 5.972e24)
TARGETS = (0.0, 8.93e22, 5.972e24)
SEEDF = (1.0, 1.07, 0.93, 1.31, 0.77, 1.9)

# pair -> (forward function, backward function, uses masses, tolerance)
PAIRS = {
    'period-frequency': ('days2rads', 'rads2days', False, TOL_SIMPLE),
    'metres-AU': ('m2Au', 'Au2m', False, TOL_SIMPLE),
    'seconds-Myr': ('sec2myr', 'myr2sec', False, TOL_SIMPLE),
    'semi_a-mean_motion': ('semi_a2orbital_motion', 'orbital_motion2semi_a', True, TOL_CBRT),
}
AU_PY, AU_CY = 1.496e11, 149597870700.0


def values(tier, seed):
    mants = [MANT[seed % len(MANT)]] if tier != 'thorough' else [MANT[(seed + j) % len(MANT)] for j in (0, 2, 4)]
    out = []
    for m in mants:
        out.extend(('grid', float(m * 10.0 ** (-15 + k / 2.0))) for k in range(61))
    out.extend(('edge', v) for v in EDGE)
    return out


def conv_cases(tier, seed):
    f = SEEDF[seed % len(SEEDF)]
    out = []
    for pair, (_, _, use_mass, _) in PAIRS.items():
        mp_list = [(M * f, m * f) for M in HOSTS for m in TARGETS] if use_mass else [None]
        for mm in mp_list:
            for kind, x in values(tier, seed):
                for form in ('scalar', 'array'):
                    out.append(dict(kind='conv', pair=pair, masses=mm, vkind=kind, x=x, form=form))
    return out


def _impls():
    from TidalPy.utilities.conversions import conversions as cp
    from TidalPy.utilities.conversions import conversions_x as cx

    class NS:
        pass
    py = NS()
    for n in ('m2Au', 'Au2m', 'rads2days', 'days2rads', 'sec2myr', 'myr2sec', 'orbital_motion2semi_a', 'semi_a2orbital_motion'):
        fn = getattr(cp, n)
        setattr(py, n, getattr(fn, 'py_func', fn))
    return {'numba': cp, 'py': py, 'cy': cx}


def _ulps(got, want):
    """|got - want| in ulps of want (want is a finite double inside the admitted range)"""
    got, want = float(got), float(want)
    if got == want:
        return 0.0
    if not math.isfinite(got):
        return float('inf')
    return abs(got - want) / math.ulp(want)


def _mp():
    import mpmath
    mpmath.mp.dps = 60
    return mpmath


def _closed(mp, fname, x, masses, const):
    """closed form in mpmath -> (value, [every node of the expression tree])"""
    X = mp.mpf(x)
    if fname == 'days2rads':
        t = X * 86400
        r = 2 * mp.pi / t
        return r, [X, t, r]
    if fname == 'rads2days':
        t = 2 * mp.pi / X
        r = t / 86400
        return r, [X, t, r]
    if fname in ('m2Au', 'sec2myr'):
        r = X / mp.mpf(const)
        return r, [X, r]
    if fname in ('Au2m', 'myr2sec'):
        r = X * mp.mpf(const)
        return r, [X, r]
    GM = mp.mpf(G) * (mp.mpf(masses[0]) + mp.mpf(masses[1]))
    if fname == 'semi_a2orbital_motion':
        c = X ** 3
        q = GM / c
        r = mp.sqrt(q)
        return r, [X, X * X, c, q, r]
    if fname == 'orbital_motion2semi_a':
        s = X ** 2
        q = GM / s
        r = mp.cbrt(q)
        return r, [X, s, q, r]
    raise KeyError(fname)


def _in_range(nodes):
    return all(LO <= abs(float(v)) <= HI for v in nodes)


def run_conv(c):
    from mc import env
    env.tidalpy()
    mp = _mp()
    impls = _impls()
    pair = c['pair']
    fwd, bwd, use_mass, tol = PAIRS[pair]
    masses = tuple(c['masses']) if use_mass else ()
    x = float(c['x'])
    viol = []
    meas = {}

    def rec(key, v):
        if not v <= meas.get(key, 0.0):
            meas[key] = v

    arr_in = np.array([x, 1.5 * x, x / 1.5]) if c['form'] == 'array' else None
    # admission: both directions, all elements
    xs = [x] if arr_in is None else [float(v) for v in arr_in]
    admitted = {}
    for fname, inv in ((fwd, bwd), (bwd, fwd)):
        ok = True
        for xv in xs:
            for impl in ('py', 'cy'):
                const = _const(impls, impl, fname)
                r, nodes = _closed(mp, fname, xv, masses, const)
                ok = ok and _in_range(nodes)
                if ok:
                    _, nodes2 = _closed(mp, inv, float(r), masses, const)
                    ok = ok and _in_range(nodes2)
        admitted[fname] = ok
    if not any(admitted.values()):
        return dict(status='inadmissible:range', viol=[], obs=None)
    obs = []
    for fname, inv in ((fwd, bwd), (bwd, fwd)):
        if not admitted[fname]:
            continue
        res = {}
        for impl, I in impls.items():
            f, g = getattr(I, fname), getattr(I, inv)
            try:
                if arr_in is None:
                    y = f(x, *masses)
                    back = g(y, *masses)
                    if isinstance(y, np.ndarray) and y.ndim > 0:
                        viol.append((f'C17/{fname}/{impl}/scalar-in-not-scalar-out', dict(x=x, type=type(y).__name__)))
                    ys, backs = [float(y)], [float(back)]
                elif impl == 'cy':      # compiled twins take C doubles: the array form is the element-wise call
                    ys = [float(f(float(v), *masses)) for v in arr_in]
                    backs = [float(g(v, *masses)) for v in ys]
                else:
                    a_in = arr_in.copy()
                    y = f(a_in, *masses)
                    if not isinstance(y, np.ndarray) or y.shape != arr_in.shape:
                        viol.append((f'C17/{fname}/{impl}/array-in-not-array-out', dict(x=x, type=type(y).__name__)))
                        continue
                    if not np.array_equal(a_in, arr_in):
                        viol.append((f'C17/{fname}/{impl}/mutates-input-array', dict(x=x)))
                    back = g(y, *masses)
                    ys, backs = [float(v) for v in y], [float(v) for v in back]
                    # array element == scalar call
                    for xv, yv in zip(xs, ys):
                        u = _ulps(yv, float(f(xv, *masses)))
                        rec(f'array-vs-scalar/{pair}', u)
                        if not u <= tol:
                            viol.append((f'C17/{fname}/{impl}/array-vs-scalar', dict(x=xv, array=yv, scalar=float(f(xv, *masses)), ulps=u)))
                            break
            except Exception as e:
                viol.append((f'C17/{fname}/{impl}/exception/{type(e).__name__}', dict(x=x, masses=masses, form=c['form'], msg=str(e)[:200])))
                continue
            res[impl] = ys
            const = _const(impls, impl, fname)
            for xv, yv, bv in zip(xs, ys, backs):
                want = float(_closed(mp, fname, xv, masses, const)[0])
                u = _ulps(yv, want)
                rec(f'reference/{pair}/{"cy" if impl == "cy" else "py"}', u)
                if not u <= tol:
                    viol.append((f'C17/{fname}/{impl}/reference', dict(x=xv, masses=masses, got=yv, want=want, ulps=u)))
                    break
                u = _ulps(bv, xv)
                rec(f'round-trip/{pair}/{"cy" if impl == "cy" else "py"}', u)
                if not u <= tol:
                    viol.append((f'C17/{pair}/{impl}/round-trip', dict(first=fname, x=xv, masses=masses, there=yv, back=bv, ulps=u)))
                    break
        # interpreted == compiled
        for a_, b_ in (('py', 'cy'), ('numba', 'py')):
            if a_ in res and b_ in res:
                for xv, ya, yb in zip(xs, res[a_], res[b_]):
                    u = _ulps(ya, yb)
                    if not u <= tol:
                        site = f'C17/{fname}/{a_}-vs-{b_}'
                        if (a_, b_) == ('py', 'cy') and pair == 'metres-AU':
                            site = f'C17/metres-AU/py-vs-cy/{_classify_au(fname, xv, ya, yb)}'
                        viol.append((site, dict(x=xv, masses=masses, **{a_: ya, b_: yb}, ulps=u, rel=abs(ya - yb) / abs(yb))))
                        break
                    rec(f'{a_}-vs-{b_}/{pair}', u)
        if 'py' in res:
            obs.append((fname, repr(res['py'][0])))
    return dict(status='pass', viol=viol, obs=(pair, masses, tuple(obs)), meas=meas)


def _const(impls, impl, fname):
    """the implementation's own unit constant (exact: x * C with x = 1)"""
    if fname in ('m2Au', 'Au2m'):
        return float(impls[impl].Au2m(1.0))
    if fname in ('sec2myr', 'myr2sec'):
        return float(impls[impl].myr2sec(1.0))
    return None


def _classify_au(fname, x, y_py, y_cy):
    """narrow signature of the known AU-constant discrepancy: the two results differ exactly by the ratio of the two literal
    constants 1.496e11 (conversions.py) and 149597870700.0 (conversions_x.pyx), to 16 ulp."""
    ratio = AU_PY / AU_CY
    want = y_cy * ratio if fname == 'Au2m' else y_cy / ratio
    if _ulps(y_py, want) <= 16.0 and _ulps(y_cy, x * AU_CY if fname == 'Au2m' else x / AU_CY) <= 2.0:
        return 'constant-1.496e11-vs-149597870700'
    return 'other'


# ----------------------------------------------------------------------------------------------------------------
# Part 2: orbit histories
# ----------------------------------------------------------------------------------------------------------------
SYSTEMS = {
    'star-host/earth-mass': dict(host='star', mass=5.972e24, radius=6.371e6),
    'star-host/io-mass': dict(host='star', mass=8.93e22, radius=1.8216e6),
    'planet-host/io-mass': dict(host='planet', mass=8.93e22, radius=1.8216e6),
    'planet-host/earth-mass': dict(host='planet', mass=5.972e24, radius=6.371e6),
}
VALS = {
    'P': {'P7': 7.0, 'P50': 50.0, 'PA': [5.0, 20.0, 365.25]},
    'n': {'n2e-6': 2e-6, 'n7e-5': 7e-5, 'nA': [1e-6, 3e-6, 4e-5]},
    'a': {'a3e9': 3e9, 'a5e10': 5e10, 'aA': [2e9, 6e10, 1.5e11]},
}
FIELD_KW = {'P': 'orbital_period', 'n': 'orbital_frequency', 'a': 'semi_major_axis'}
PATHS = ('w.prop', 'w.set_state', 'o.set_state', 'o.setter')
# the same orbit slot addressed through the tidal HOST instance (pristine behaviour: a host signature resolves to its tide raiser's
# slot, so these are just further access paths); one scalar value per field to keep the alphabet small
HOST_PATHS = ('o.set_state(host)', 'o.setter(host)', 'host.set_state', 'host.prop')
HOST_VALS = {'P': 'P50', 'n': 'n2e-6', 'a': 'a3e9'}
# the planet-mass host's own orbit around the star (separate slot, star mass): written value -> (field, value)
STELLAR_OPS = {
    'SP4000:o.set_state(host,stellar)': ('P', 4000.0), 'Sn2e-8:o.set_state(host,stellar)': ('n', 2e-8),
    'Sa7e11:o.set_state(host,stellar)': ('a', 7e11), 'Sa6e11:o.setter(host,stellar)': ('a', 6e11),
    'SP3000:o.setter(host,stellar)': ('P', 3000.0), 'Sn3e-8:o.setter(host,stellar)': ('n', 3e-8),
    'Sa5e11:o.set_stellar_distance(host)': ('a', 5e11), 'Sa4e11:host.stellar_distance': ('a', 4e11)}
_SEED = [0]


def _value(fld, vname):
    v = VALS[fld][vname]
    f = SEEDF[_SEED[0] % len(SEEDF)]
    return np.array(v, dtype=float) * f if isinstance(v, list) else float(v) * f


def op_names(sysname=None):
    ops = [f'{vn}:{p}' for fld in ('P', 'n', 'a') for vn in VALS[fld] for p in PATHS]
    ops.append('e.1:w.set_state')
    ops += [f'{HOST_VALS[fld]}:{p}' for fld in ('P', 'n', 'a') for p in HOST_PATHS]
    if sysname is not None and SYSTEMS[sysname.split('@')[0]]['host'] == 'planet':
        ops += list(STELLAR_OPS)
    return ops


def _do(name, w, o):
    vn, _, path = name.partition(':')
    if vn == 'e.1':
        w.set_state(eccentricity=0.1)
        return
    host = o.tidal_host
    if name in STELLAR_OPS:
        fld, v = STELLAR_OPS[name]
        v = v * SEEDF[_SEED[0] % len(SEEDF)]
        kw = FIELD_KW[fld]
        if path == 'o.set_state(host,stellar)':
            o.set_state(host, set_stellar_orbit=True, **{kw: v})
        elif path == 'o.setter(host,stellar)':
            getattr(o, 'set_' + kw)(host, v, set_stellar_orbit=True)
        elif path == 'o.set_stellar_distance(host)':
            o.set_stellar_distance(host, v)
        elif path == 'host.stellar_distance':
            host.stellar_distance = v
        else:
            raise KeyError(name)
        return
    fld = vn[0]
    v = _value(fld, vn)
    kw = FIELD_KW[fld]
    if path == 'w.prop':
        setattr(w, kw, v)
    elif path == 'w.set_state':
        w.set_state(**{kw: v})
    elif path == 'o.set_state':
        o.set_state(w, **{kw: v})
    elif path == 'o.setter':
        getattr(o, 'set_' + kw)(w, v)
    elif path == 'o.set_state(host)':
        o.set_state(host, **{kw: v})
    elif path == 'o.setter(host)':
        getattr(o, 'set_' + kw)(host, v)
    elif path == 'host.set_state':
        host.set_state(**{kw: v})
    elif path == 'host.prop':
        setattr(host, kw, v)
    else:
        raise KeyError(name)


_base = {}


def fresh(sysname):
    """every object of a replay is built afresh (a host keeps a back-reference to the last orbit attached to it)"""
    from mc import env
    env.tidalpy()
    from TidalPy.structures import build_world, build_from_world
    from TidalPy.structures.orbit import PhysicsOrbit
    c = SYSTEMS[sysname]
    if 'earth_simple' not in _base:
        _base['earth_simple'] = build_world('earth_simple')
    cfg = {'name': 'target', 'force_spin_sync': False, 'type': 'simple_tidal', 'mass': c['mass'], 'radius': c['radius'], 'slices': 20,
           'tides': {'model': 'global_approx', 'fixed_q': 125.0, 'use_ctl': False, 'eccentricity_truncation_lvl': 2,
                     'max_tidal_order_l': 2, 'obliquity_tides_on': False}}
    w = build_from_world(_base['earth_simple'], new_config=cfg)
    if c['host'] == 'star':
        star = build_world('55cnc')
        host = star
        o = PhysicsOrbit(star, tidal_host=star, tidal_bodies=w)
    else:
        star = build_world('sol')
        host = build_world('jupiter')
        o = PhysicsOrbit(star, tidal_host=host, tidal_bodies=w)
    return star, host, w, o


def logical(history):
    s = {}
    for name in history:
        vn, _, path = name.partition(':')
        if vn == 'e.1':
            s['e'] = 0.1
        elif name in STELLAR_OPS:
            s['stellar'] = name
        else:
            s['orb'] = vn
    return s


def _expected(fld, v, GM):
    v = np.asarray(v, dtype=float)
    if fld == 'P':
        n = 2.0 * math.pi / (v * 86400.0)
        a = np.cbrt(GM / n ** 2)
    elif fld == 'n':
        n = v
        a = np.cbrt(GM / n ** 2)
    else:
        a = v
        n = np.sqrt(GM / a ** 3)
    return dict(a=a, n=n, P=2.0 * math.pi / n / 86400.0)


def _rel(x, y):
    x, y = np.asarray(x, dtype=float), np.asarray(y, dtype=float)
    if x.shape != y.shape:
        return float('inf')
    with np.errstate(all='ignore'):
        d = np.abs(x - y) / np.maximum(np.abs(x), np.abs(y))
    d = np.where(x == y, 0.0, d)
    return float(np.max(d)) if d.size else 0.0


def accessors(host, w, o):
    idx = o.world_signature_to_index(w)
    acc = {
        'world-properties': (lambda: w.semi_major_axis, lambda: w.orbital_frequency, lambda: w.orbital_period),
        'orbit-getters': (lambda: o.get_semi_major_axis(w), lambda: o.get_orbital_frequency(w), lambda: o.get_orbital_period(w)),
        'orbit-getters-by-name': (lambda: o.get_semi_major_axis(w.name), lambda: o.get_orbital_frequency(w.name), lambda: o.get_orbital_period(w.name)),
        'orbit-lists': (lambda: o.semi_major_axes[idx], lambda: o.orbital_frequencies[idx], lambda: o.orbital_periods[idx]),
        'host-view': (lambda: host.semi_major_axis, lambda: host.orbital_frequency, lambda: host.orbital_period),
    }
    out = {}
    for k, fs in acc.items():
        try:
            out[k] = tuple(f() for f in fs)
        except Exception as e:
            out[k] = 'EXC:' + type(e).__name__ + ':' + str(e)[:80]
    return out


SKIP_ATTRS = ('_old_config', 'default_config', '_replacement_config', 'pyname')


def explore(task):
    from mc import env
    env.tidalpy()
    cfg = task['config']
    sysname, seed = cfg.rsplit('@', 1) if '@' in cfg else (cfg, '0')
    _SEED[0] = int(seed)
    history = task['history']
    star, host, w, o = fresh(sysname)
    viol = []
    meas = {}
    for i, name in enumerate(history):
        try:
            _do(name, w, o)
        except Exception as e:
            viol.append((f'C17/orbit/op-raises/{type(e).__name__}/last={_opclass(name)}', dict(step=i, op=name, msg=str(e)[:200], system=sysname)))
            return dict(key=None, viol=viol, obs=('exc', type(e).__name__, _opclass(name)), exc=str(e)[:80])
    s = logical(history)
    tag = 'initial' if not history else 'last=' + _opclass(history[-1])
    GM = G * (float(host.mass) + float(w.mass))
    acc = accessors(host, w, o)
    ref = None
    for aname, trip in acc.items():
        if isinstance(trip, str):
            viol.append((f'C17/orbit/accessor-raises/{tag}', dict(accessor=aname, msg=trip, system=sysname, logical=s)))
            continue
        a, n, P = trip
        if a is None or n is None or P is None:
            if 'orb' in s or not (a is None and n is None and P is None):
                viol.append((f'C17/orbit/value-missing/{tag}', dict(accessor=aname, a=_sh(a), n=_sh(n), P=_sh(P), system=sysname, logical=s)))
            continue
        an, nn, Pn = (np.asarray(v, dtype=float) for v in trip)
        if not (an.shape == nn.shape == Pn.shape):
            viol.append((f'C17/orbit/shapes-differ/{tag}', dict(accessor=aname, shapes=[list(an.shape), list(nn.shape), list(Pn.shape)], system=sysname, logical=s)))
            continue
        k3 = _rel(nn ** 2 * an ** 3, np.full(an.shape, GM))
        pp = _rel(Pn, 2.0 * math.pi / nn / 86400.0)
        meas['kepler'] = max(meas.get('kepler', 0.0), k3)
        meas['period'] = max(meas.get('period', 0.0), pp)
        if not k3 <= TOL_ORBIT:
            viol.append((f'C17/orbit/kepler-III/{tag}', dict(accessor=aname, a=_sh(a), n=_sh(n), GM=GM, rel=k3,
                                                             rel_without_target_mass=_rel(nn ** 2 * an ** 3, np.full(an.shape, G * float(host.mass))),
                                                             system=sysname, logical=s)))
        if not pp <= TOL_ORBIT:
            viol.append((f'C17/orbit/period-vs-frequency/{tag}', dict(accessor=aname, P=_sh(P), n=_sh(n), rel=pp, system=sysname, logical=s)))
        # last written value (reference model)
        if 'orb' in s:
            fld = s['orb'][0]
            v = _value(fld, s['orb'])
            exp = _expected(fld, v, GM)
            got = dict(a=an, n=nn, P=Pn)
            if got[fld].shape != np.shape(v) or not np.array_equal(got[fld], np.asarray(v, dtype=float)):
                viol.append((f'C17/orbit/last-written-not-reported/{tag}', dict(accessor=aname, field=fld, written=_sh(v), reported=_sh(got[fld]),
                                                                              system=sysname, logical=s)))
            for k in 'anP':
                d = _rel(got[k], exp[k])
                meas['model'] = max(meas.get('model', 0.0), d if math.isfinite(d) else 1.0)
                if not d <= TOL_ORBIT:
                    viol.append((f'C17/orbit/differs-from-model/{tag}', dict(accessor=aname, quantity=k, reported=_sh(got[k]), model=_sh(exp[k]),
                                                                         rel=d, system=sysname, logical=s)))
                    break
        if ref is None:
            ref = (aname, an, nn, Pn)
        elif not all(np.array_equal(x, y) for x, y in zip(ref[1:], (an, nn, Pn))):
            viol.append((f'C17/orbit/accessors-disagree/{tag}', dict(accessors=[ref[0], aname], system=sysname, logical=s)))
    # the planet host's own (stellar) orbit must stay Keplerian with the star's mass whatever is done to the satellite
    if SYSTEMS[sysname]['host'] == 'planet':
        try:
            ah, nh, Ph = (o.get_semi_major_axis(host, for_stellar_orbit=True), o.get_orbital_frequency(host, for_stellar_orbit=True),
                          o.get_orbital_period(host, for_stellar_orbit=True))
            GMs = G * (float(star.mass) + float(host.mass))
            k3 = _rel(np.asarray(nh, float) ** 2 * np.asarray(ah, float) ** 3, np.full(np.shape(ah), GMs))
            pp = _rel(Ph, 2.0 * math.pi / np.asarray(nh, float) / 86400.0)
            meas['kepler'] = max(meas.get('kepler', 0.0), k3)
            if not (k3 <= TOL_ORBIT and pp <= TOL_ORBIT):
                viol.append((f'C17/orbit/host-stellar-orbit/{tag}', dict(a=_sh(ah), n=_sh(nh), P=_sh(Ph), rel_kepler=k3, rel_period=pp, system=sysname)))
            if 'stellar' in s:
                fld, v = STELLAR_OPS[s['stellar']]
                v = v * SEEDF[_SEED[0] % len(SEEDF)]
                got = dict(a=ah, n=nh, P=Ph)[fld]
                if not (np.ndim(got) == 0 and float(got) == float(v)):
                    viol.append((f'C17/orbit/host-stellar-orbit/last-written-not-reported/{tag}', dict(field=fld, written=v, reported=_sh(got), system=sysname)))
                exp = _expected(fld, v, GMs)
                for k, g in (('a', ah), ('n', nh), ('P', Ph)):
                    if not _rel(g, exp[k]) <= TOL_ORBIT:
                        viol.append((f'C17/orbit/host-stellar-orbit/differs-from-model/{tag}', dict(quantity=k, reported=_sh(g), model=_sh(exp[k]), system=sysname)))
                        break
            for wd in (w.stellar_distance, host.stellar_distance):
                if wd is not None and not _rel(wd, ah) <= TOL_ORBIT:
                    viol.append((f'C17/orbit/host-stellar-orbit/stellar_distance-accessor/{tag}', dict(reported=_sh(wd), stellar_a=_sh(ah), system=sysname)))
                    break
        except Exception as e:
            viol.append((f'C17/orbit/host-stellar-orbit/{tag}', dict(msg=f'{type(e).__name__}: {e}'[:200], system=sysname)))
    # eccentricity bookkeeping of the neutral operation
    if 'e' in s and (w.eccentricity != s['e'] or o.get_eccentricity(w) != s['e']):
        viol.append((f'C17/orbit/eccentricity-lost/{tag}', dict(reported=_sh(w.eccentricity), system=sysname, logical=s)))
    fp = histories.fingerprint((w, o, star, host), skip_attrs=SKIP_ATTRS)
    key = histories.digest((sorted(s.items()), fp))
    trip = acc.get('world-properties')
    obs = (sysname, tuple(sorted(s.items())), None if isinstance(trip, str) else tuple(repr(_sh(v)) for v in trip))
    return dict(key=key, viol=viol, obs=obs, exc=None, meas=meas)


def _sh(v):
    if v is None:
        return None
    a = np.asarray(v, dtype=float)
    return a.tolist() if a.ndim else float(a)


def _opclass(name):
    """field + access path, value dropped: 'P50:w.prop' -> 'P:w.prop'"""
    vn, _, path = name.partition(':')
    return f"{'e' if vn == 'e.1' else vn[0]}{'[array]' if vn.endswith('A') else ''}:{path}"


def run_case(c):
    return run_conv(c)


def replay(case):
    if 'history' in case:
        return explore(case)['viol']
    return run_conv(case)['viol']


def run(ctx):
    from mc.core import run_lattice
    cases = conv_cases(ctx.tier, ctx.seed)
    res = run_lattice(ctx, 'mc.props.C17:run_case', cases, chunk=32, min_admitted_frac=0.75,
                      rule='conversions: (61 log-spaced values over 1e-15..1e15 per mantissa + 8 range-edge values) x {scalar, array} x '
                           '{period/frequency, metres/AU, seconds/Myr, semi-major axis/mean motion x 9 mass pairs}; each case runs both '
                           'directions on the numba dispatcher, its py_func and the Cython twin; distinct = distinct returned value tuples',
                      exhaustive=True)
    worst = {}
    for r in res:
        for k, v in (r.get('meas') or {}).items():
            if not v <= worst.get(k, 0.0):
                worst[k] = v
    ev1, dn1 = ctx.coverage['evaluations'], ctx.coverage['distinct_nontrivial']
    depth_full, depth_canon = (2, 3) if not ctx.thorough else (3, 4)
    tot = dict(states=0, transitions=0, executions=0)
    per, samples = {}, []
    for sysname in SYSTEMS:
        cfg = f'{sysname}@{ctx.seed}'
        ops = op_names(sysname)
        r = histories.bfs(ctx, 'mc.props.C17:explore', cfg, ops, depth_full, depth_canon, chunk=32)
        per[sysname] = {k: v for k, v in r.items() if k != 'samples'}
        for k in tot:
            tot[k] += r[k]
        samples.extend(dict(config=cfg, history=h) for h in r['samples'][:1])
        ctx.note(f'{sysname}: alphabet={len(ops)} {per[sysname]}')
    ctx.coverage.update(states=tot['states'], transitions=tot['transitions'], traces_validated_against_impl=tot['executions'],
                        per_system=per, depth_full=depth_full, depth_canonical=depth_canon, alphabet=op_names('planet-host/io-mass'),
                        lattice_evaluations=ev1, lattice_distinct=dn1,
                        measured_worst_ulps={k: float(v) for k, v in sorted(worst.items())},
                        exhaustive=not any(v['frontier_capped'] for v in per.values()))
    ctx.coverage['samples'] = list(ctx.coverage.get('samples', []))[:4] + samples
    ctx.coverage['rule'] += (f' | orbit histories: all histories over the 49-operation alphabet (57 with the stellar-orbit operations of planet-host systems) to depth {depth_full}, then '
                             f'canonical-state BFS to depth {depth_canon} / fixpoint, on 4 systems (star / planet host x 2 target masses); '
                             'every history executed on freshly built real objects (states = distinct (logical state, deep fingerprint))')
    ctx.note('measured worst (ulps): ' + ', '.join(f'{k}={v:.3g}' for k, v in sorted(worst.items())))
