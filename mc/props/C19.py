"""C19 -- thermal building blocks are additive, monotone and sign-correct.

E1 lattices over the four pure-Python (numba) modules; every clause of the property statement has its own oracle
and its own site family:

  radiogenic  isotope tables = every non-empty subset of a 4-isotope menu (sizes 1..4) x reference time x time menu
              (incl. t_ref, t_ref +- half-life) x masses:  closed form (mpmath), additivity over every bipartition and
              over single isotopes, linearity in mass and in concentration, halving after one half-life, reference
              value at t_ref;  `fixed` (same clauses; the docstring's "half-life 0 = no decay" is observed and noted, not
              asserted);  `off`.
  cooling     parameter menu x thickness (incl. MIN_THICKNESS and one-ulp neighbours) x dT (12 values incl. 0,
              float_eps and its one-ulp neighbours) x viscosity decades:  positivity, non-decreasing in dT and
              non-increasing in viscosity on *adjacent grid pairs*, convection >= conduction, `off`.
  viscosity   arrhenius / reference parameter menus (incl. the over/undershoot clips) x pressure x T grid 200..3000 K:
              non-increasing on adjacent pairs; `constant`.
  melt        henning / spohn / off:  melt fraction grid of [0,1] with 0, crit, crit+width and their one-ulp
              neighbours x temperatures x pre-melt / liquid menus x (crit, width) menu:  floors at the liquid values,
              pre-melt values at zero melt, viscosity non-increasing on adjacent pairs, exactly the liquid values
              beyond the critical window.
  Every function is called with scalars and with arrays (array results must equal the scalar results).

Relative slack for the order relations: 1e-12 (as in DESIGN).  Measured on the pristine tree (thorough, seeds 0..4):
isotope closed form 3.6e-15, additivity 2.3e-16, half-life 1.6e-15, array-vs-scalar 0 everywhere.
"""
import hashlib
import itertools
import math

LEVEL = 'exploration'
ASSUMPTIONS = [
    'continuous parameters are decided on the stated grids only; monotonicity is asserted on adjacent grid pairs',
    'arrhenius with additional_temp_dependence=True (eta ~ T exp(E*/RT)) is non-increasing only for E* >= R T; '
    'menu entries with E* < R T_max are counted as inadmissible, not asserted',
    'partial-melt menus have pre-melt values above the liquid values (otherwise the documented floor, not the '
    'pre-melt value, is returned at zero melt)',
    'the property does not constrain the Henning rigidity inside the melt window nor cooling at dT <= 0',
]

FEPS = 2.0 ** -52
SLACK = 1e-12
MIN_THICKNESS = 50.0
R_GAS = 8.31446261815324
SEED_F = [1.0, 1.07, 0.93, 1.31, 0.77]
SEED_DT = [0.0, 7.0, -5.0, 13.0, -11.0]
INF = float('inf')


def nb(x, toward):
    return math.nextafter(x, toward)


# (mass fraction of isotope in element, element concentration, half-life [Myr], heat production [W/kg])
ISOTOPES = [(0.0072, 2.0e-8, 703.8, 5.69e-4),      # U235
            (0.9928, 2.0e-8, 4468.0, 9.46e-5),     # U238
            (1.0, 8.0e-8, 14050.0, 2.64e-5),       # Th232
            (1.19e-4, 2.4e-4, 1277.0, 2.92e-5),    # K40
            (5.0e-5, 8.0e-3, 0.717, 0.355)]        # Al26 (short-lived: 2^(t_ref/half-life) overflows a double for t_ref = 4600 Myr)
COOL_PARAMS = [  # k, kappa, alpha_exp, g, rho, conv_alpha, conv_beta, Ra_crit
    (4.0, 1.0e-6, 5.0e-5, 9.8, 3300.0, 1.0, 1.0 / 3.0, 1100.0),
    (2.3, 1.1e-6, 1.6e-4, 1.3, 950.0, 0.5, 0.25, 1000.0),
    (40.0, 1.0e-5, 1.0e-5, 4.0, 8000.0, 2.0, 0.3, 657.5)]
ARRHENIUS = [  # coeff, additional_temp_dependence, stress, stress_expo, grain, grain_expo, E, V
    (1.0e-10, False, 1.0, 1.0, 1.0e-3, 2.0, 3.0e5, 1.0e-6),
    (5.3e15, False, 1.0e5, 3.5, 1.0e-3, 0.0, 5.4e5, 2.0e-5),
    (1.0e-10, True, 1.0, 1.0, 1.0e-3, 2.0, 3.0e5, 1.0e-6),
    (1.0e-10, True, 1.0, 1.0, 1.0e-3, 2.0, 6.0e4, 0.0),
    (1.0e-10, False, 1.0, 1.0, 1.0e-3, 2.0, 1.5e6, 1.0e-5),     # exponent clipped at +log(float_max) for cold T
    (1.0e-10, True, 1.0, 1.0, 1.0e-3, 2.0, 1.0e4, 0.0)]          # E < R T_max: inadmissible
REFERENCE = [  # reference viscosity, reference temperature, E, V
    (1.0e21, 1600.0, 3.0e5, 1.0e-6),
    (1.0e14, 260.0, 6.0e4, 0.0),
    (1.0e21, 200.0, 1.5e6, 1.0e-5),      # exponent clipped at -log(float_max) for hot T
    (1.0e21, 3000.0, 1.5e6, 1.0e-5)]     # exponent clipped at +log(float_max) for cold T
PRESSURES = [0.0, 1.0e9, 1.0e10, 1.36e11]
MELT_MENU = [  # premelt viscosity, liquid viscosity, premelt shear, liquid shear
    (1.0e20, 1.0, 6.0e10, 1.0e-5),
    (1.0e16, 10.0, 3.0e10, 1.0e-3),
    (1.0e22, 1.0e3, 1.0e11, 1.0),
    (1.0e20, 1.0e-3, 6.0e10, 1.0)]       # liquid viscosity below liquid shear (numerically)
CRITS = [(0.5, 0.05), (0.4, 0.1), (0.3, 0.02)]
SOLIDUS, LIQUIDUS = 1600.0, 2000.0


# ---------------------------------------------------------------------------------------------
def cases(tier, seed):
    th = tier == 'thorough'
    out = []
    base = dict(tier=tier, seed=seed)
    subsets = [list(s) for n in range(1, 5) for s in itertools.combinations(range(4), n)]
    subsets += [[4], [4, 0], [1, 4], [4, 2, 3]]     # tables containing the short-lived isotope
    for s in subsets:
        for tref in (4600.0, 0.0):
            out.append(dict(kind='isotope', table=s, tref=tref, **base))
    for q in (1.0e-11, 3.7e-12):
        for hl in (703.8, 4468.0, 1.0e5):
            for tref in (4600.0, 0.0):
                out.append(dict(kind='fixed', q=q, hl=hl, tref=tref, **base))
    out.append(dict(kind='fixed', q=1.0e-11, hl=0.0, tref=4600.0, **base))
    out.append(dict(kind='radio_off', **base))
    for ip in range(len(COOL_PARAMS)):
        for ith in range(7):
            out.append(dict(kind='cooling', p=ip, th=ith, **base))
    for ia in range(len(ARRHENIUS)):
        for P in (PRESSURES if th else PRESSURES[::3]):
            out.append(dict(kind='arrhenius', p=ia, P=P, **base))
    for ir in range(len(REFERENCE)):
        for P in (PRESSURES if th else PRESSURES[::3]):
            out.append(dict(kind='reference', p=ir, P=P, **base))
    out.append(dict(kind='constant', **base))
    for T in ((1500.0, 1800.0, SOLIDUS, LIQUIDUS) if th else (1500.0, 1800.0)):
        for im in range(len(MELT_MENU)):
            for ic in range(len(CRITS) if th else 2):
                out.append(dict(kind='henning', T=T, m=im, c=(ic if th else (0, 2)[ic]), **base))
    for T in ((1000.0, 1400.0, 1800.0, 2200.0, 3000.0) if th else (1000.0, 1800.0, 3000.0)):
        for im in range(len(MELT_MENU)):
            out.append(dict(kind='spohn', T=T, m=im, **base))
    out.append(dict(kind='melt_off', **base))
    return out


class CodeRaised(Exception):
    pass


def cut(fn, *a):
    try:
        return fn(*a)
    except Exception as e:  # noqa: BLE001 -- whatever the code under test raises is a finding
        raise CodeRaised(type(e).__name__, f'{getattr(fn, "__name__", fn)}: {e}'[:300])


class Viol:
    def __init__(self):
        self.d = {}

    def add(self, site, **detail):
        if site in self.d:
            self.d[site]['count'] += 1
        else:
            self.d[site] = dict(count=1, first={k: (repr(v) if isinstance(v, float) else v) for k, v in detail.items()})

    def list(self):
        return list(self.d.items())


def rel(a, b):
    if a == b:
        return 0.0
    s = max(abs(a), abs(b))
    return abs(a - b) / s if s > 0 and math.isfinite(s) else INF


def _same(V, site, arr, scal, **ctx):
    """array result vs list of scalar results: same length, equal values (bit-identical or 4 ulp)."""
    import numpy as np
    arr = np.asarray(arr, dtype=float)
    if arr.shape != (len(scal),):
        V.add(site, shape=list(arr.shape), want=len(scal), **ctx)
        return
    for i, s in enumerate(scal):
        a = float(arr[i])
        if a == s or (math.isnan(a) and math.isnan(s)):
            continue
        if not rel(a, s) <= 4 * FEPS:
            V.add(site, index=i, array=a, scalar=s, **ctx)
            return


# ---------------------------------------------------------------------------------------------
# radiogenics
# ---------------------------------------------------------------------------------------------
def _times(tref, hl):
    ts = [0.0, 100.0, 1000.0, 4500.0, tref, tref + hl, tref - hl if tref - hl >= 0 else tref + 2 * hl, 9000.0, 13800.0]
    out = []
    for t in ts:
        if t not in out:
            out.append(t)
    return out


def _masses(tier, f):
    return [m * f for m in ((1.0e20, 1.0e22, 4.0e24) if tier == 'thorough' else (1.0e22, 4.0e24))]


def _case_isotope(c, V, h):
    import numpy as np
    import mpmath as mp
    from TidalPy.radiogenics.radiogenic_models import isotope
    f = SEED_F[c['seed'] % 5]
    tab = [ISOTOPES[i] for i in c['table']]
    fr, co, hl, qq = (tuple(x[j] for x in tab) for j in range(4))
    co = tuple(x * f for x in co)
    tref = c['tref']
    S = 'C19/radiogenic/isotope'
    worst = dict(closed=0.0, add=0.0, half=0.0)

    def H(t, m, idx=None, conc=None):
        ii = range(len(tab)) if idx is None else idx
        cc = co if conc is None else conc
        return cut(isotope, t, m, tuple(fr[i] for i in ii), tuple(cc[i] for i in ii), tuple(hl[i] for i in ii),
                   tuple(qq[i] for i in ii), tref)

    times = _times(tref, hl[0])
    n = len(tab)
    for m in _masses(c['tier'], f):
        vals = []
        for t in times:
            full = float(H(t, m))
            vals.append(full)
            # closed form
            with mp.workdps(40):
                want = mp.mpf(m) * sum(mp.mpf(fr[i]) * mp.mpf(co[i]) * mp.mpf(qq[i])
                                       * mp.mpf(2) ** (-(mp.mpf(t) - mp.mpf(tref)) / mp.mpf(hl[i])) for i in range(n))
                representable = mp.mpf('1e-290') < want < mp.mpf('1e290')
                e = float(abs(mp.mpf(full) - want) / want) if math.isfinite(full) else INF
            if not representable:
                continue        # the exact value itself under/overflows a double at this time: nothing is promised
            worst['closed'] = max(worst['closed'], e)
            if not e <= 1e-12:
                V.add(f'{S}/closed-form', t=t, mass=m, table=c['table'], got=full, want=float(want), err=e)
            # additivity: single isotopes and every bipartition
            singles = [float(H(t, m, [i])) for i in range(n)]
            e = abs(full - math.fsum(singles)) / math.fsum(abs(x) for x in singles)
            worst['add'] = max(worst['add'], e)
            if not e <= 1e-13:
                V.add(f'{S}/additivity', t=t, mass=m, table=c['table'], got=full, parts=singles, err=e)
            for mask in range(1, 2 ** (n - 1)):
                A = [i for i in range(n) if mask >> i & 1]
                B = [i for i in range(n) if not mask >> i & 1]
                if not B:
                    continue
                ha, hb = float(H(t, m, A)), float(H(t, m, B))
                if not abs(full - (ha + hb)) <= 1e-13 * (abs(ha) + abs(hb)):
                    V.add(f'{S}/additivity', t=t, mass=m, table=c['table'], split=[A, B], got=full, parts=[ha, hb])
            # linear in mass (x2 is exact in binary floating point) and in concentration
            if float(H(t, 2.0 * m)) != 2.0 * full or not rel(float(H(t, 3.0 * m)), 3.0 * full) <= 4 * FEPS:
                V.add(f'{S}/linear-mass', t=t, mass=m, table=c['table'], h1=full, h2=float(H(t, 2.0 * m)), h3=float(H(t, 3.0 * m)))
            if float(H(t, m, None, tuple(2.0 * x for x in co))) != 2.0 * full:
                V.add(f'{S}/linear-concentration', t=t, mass=m, table=c['table'], h1=full, scaled='all x2')
            for i in range(n):
                c3 = tuple(3.0 * x if j == i else x for j, x in enumerate(co))
                d = float(H(t, m, None, c3)) - full
                if not abs(d - 2.0 * singles[i]) <= 1e-13 * abs(full) * 3:
                    V.add(f'{S}/linear-concentration', t=t, mass=m, table=c['table'], isotope=i, delta=d, want=2.0 * singles[i])
            # reference value at the reference time
            if t == tref:
                want0 = m * math.fsum(fr[i] * co[i] * qq[i] for i in range(n))
                if not rel(full, want0) <= 1e-14:
                    V.add(f'{S}/reference-value', mass=m, table=c['table'], got=full, want=want0)
            # halving after one half-life (single isotope)
            if n == 1:
                later = float(H(t + hl[0], m))
                e = abs(later / full - 0.5)
                worst['half'] = max(worst['half'], e)
                if not e <= 1e-12:
                    V.add(f'{S}/half-life', t=t, mass=m, table=c['table'], now=full, later=later, err=e)
        arr = cut(isotope, np.array(times), m, fr, co, hl, qq, tref)
        _same(V, f'{S}/array-vs-scalar', arr, vals, mass=m, table=c['table'])
        h.update(np.asarray(vals).tobytes())
    return worst


def _case_fixed(c, V, h):
    import numpy as np
    import mpmath as mp
    from TidalPy.radiogenics.radiogenic_models import fixed
    f = SEED_F[c['seed'] % 5]
    q, hl, tref = c['q'] * f, c['hl'], c['tref']
    S = 'C19/radiogenic/fixed'
    if hl == 0.0:
        # NOT asserted (coordinator decision: the docstring promise "Set to 0 for no decay" is not part of the C19
        # statement).  The behaviour is only observed and reported as a note in the evidence.
        info = []
        for m in _masses(c['tier'], f):
            for t in (0.0, tref, 9000.0):
                try:
                    got = float(fixed(t, m, q, 0.0, tref))
                    msg = 'no-decay value' if rel(got, m * q) <= 4 * FEPS else f'value {got!r} != mass*rate'
                except Exception as e:  # noqa: BLE001
                    msg = f'raises {type(e).__name__}: {e}'
                msg = f'radiogenic fixed(average_half_life=0) [docstring: "Set to 0 for no decay"]: {msg}'
                if msg not in info:
                    info.append(msg)
        return dict(info=info)
    times = _times(tref, hl)
    worst = dict(closed=0.0, half=0.0)
    for m in _masses(c['tier'], f):
        vals = []
        for t in times:
            got = float(cut(fixed, t, m, q, hl, tref))
            vals.append(got)
            with mp.workdps(40):
                want = mp.mpf(m) * mp.mpf(q) * mp.mpf(2) ** (-(mp.mpf(t) - mp.mpf(tref)) / mp.mpf(hl))
                e = float(abs(mp.mpf(got) - want) / want) if math.isfinite(got) else INF
            worst['closed'] = max(worst['closed'], e)
            if not e <= 1e-12:
                V.add(f'{S}/closed-form', t=t, mass=m, q=q, hl=hl, got=got, want=float(want), err=e)
            later = float(cut(fixed, t + hl, m, q, hl, tref))
            e = abs(later / got - 0.5)
            worst['half'] = max(worst['half'], e)
            if not e <= 1e-12:
                V.add(f'{S}/half-life', t=t, mass=m, q=q, hl=hl, now=got, later=later, err=e)
            if float(cut(fixed, t, 2.0 * m, q, hl, tref)) != 2.0 * got or \
                    not rel(float(cut(fixed, t, m, 3.0 * q, hl, tref)), 3.0 * got) <= 4 * FEPS:
                V.add(f'{S}/linear', t=t, mass=m, q=q, hl=hl, h1=got)
            if t == tref and not rel(got, m * q) <= 4 * FEPS:
                V.add(f'{S}/reference-value', mass=m, q=q, got=got, want=m * q)
        _same(V, f'{S}/array-vs-scalar', cut(fixed, np.array(times), m, q, hl, tref), vals, mass=m, q=q, hl=hl)
        h.update(np.asarray(vals).tobytes())
    return worst


def _case_radio_off(c, V, h):
    import numpy as np
    from TidalPy.radiogenics.radiogenic_models import off
    for t in (0.0, 4600.0, 13800.0):
        for m in (0.0, 1.0e22):
            got = cut(off, t, m)
            if not (float(got) == 0.0):
                V.add('C19/radiogenic/off/value', t=t, mass=m, got=float(got))
    arr = np.asarray(cut(off, np.array([0.0, 4600.0, 9000.0]), 1.0e22))
    if arr.shape != (3,) or not (arr == 0.0).all():
        V.add('C19/radiogenic/off/value', got=[float(x) for x in arr.ravel()[:5]], shape=list(arr.shape))
    h.update(arr.tobytes())
    return {}


# ---------------------------------------------------------------------------------------------
# cooling
# ---------------------------------------------------------------------------------------------
def _cool_grids(tier, seed):
    f = SEED_F[seed % 5]
    ths = [10.0, nb(MIN_THICKNESS, 0.0), MIN_THICKNESS, nb(MIN_THICKNESS, INF), 1.0e3 * f, 1.0e5 * f, 1.0e6 * f]
    dts = [0.0, nb(FEPS, 0.0), FEPS, nb(FEPS, 1.0), 1.0e-10, 1.0e-6, 1.0e-3, 1.0 * f, 10.0 * f, 100.0 * f, 1000.0 * f, 3000.0 * f]
    vis = [1.0, 1.0e5, 1.0e10, 1.0e14, 1.0e17, 1.0e20, 1.0e23, 1.0e26]
    if tier != 'thorough':
        vis = vis[::2] + [1.0e26]
    return ths, dts, [v * f for v in vis]


def _case_cooling(c, V, h):
    import numpy as np
    from TidalPy.cooling.cooling_models import conduction, convection, off
    ths, dts, vis = _cool_grids(c['tier'], c['seed'])
    th = ths[c['th']]
    k, kappa, aexp, grav, rho, ca, cb, rac = COOL_PARAMS[c['p']]
    S = 'C19/cooling'
    conv = {}
    cond = {}
    for dT in dts:
        r = cut(conduction, dT, k, th)
        cond[dT] = tuple(float(x) for x in r)
        for v in vis:
            r = cut(convection, dT, v, k, kappa, aexp, th, grav, rho, ca, cb, rac)
            conv[(dT, v)] = tuple(float(x) for x in r)
    ctx = dict(params=c['p'], thickness=th)
    for dT in dts:
        if dT > 0.0:
            if not cond[dT][0] > 0.0 or not math.isfinite(cond[dT][0]):
                V.add(f'{S}/conduction/positive', dT=dT, flux=cond[dT][0], **ctx)
            for v in vis:
                cf = conv[(dT, v)][0]
                if not cf > 0.0 or not math.isfinite(cf):
                    V.add(f'{S}/convection/positive', dT=dT, viscosity=v, flux=cf, **ctx)
                if not cf >= cond[dT][0] * (1 - SLACK):
                    V.add(f'{S}/convection/below-conduction', dT=dT, viscosity=v, convection=cf, conduction=cond[dT][0], **ctx)
            # non-increasing in viscosity (adjacent pairs)
            for v0, v1 in zip(vis, vis[1:]):
                if not conv[(dT, v1)][0] <= conv[(dT, v0)][0] * (1 + SLACK):
                    V.add(f'{S}/convection/monotone-viscosity', dT=dT, v0=v0, v1=v1, f0=conv[(dT, v0)][0], f1=conv[(dT, v1)][0], **ctx)
    # non-decreasing in the contrast (adjacent pairs of the dT grid, dT >= 0)
    for d0, d1 in zip(dts, dts[1:]):
        if not cond[d1][0] >= cond[d0][0] * (1 - SLACK):
            V.add(f'{S}/conduction/monotone-dT', dT0=d0, dT1=d1, f0=cond[d0][0], f1=cond[d1][0], **ctx)
        for v in vis:
            f0, bl0 = conv[(d0, v)][0], conv[(d0, v)][1]
            f1 = conv[(d1, v)][0]
            if not f1 >= f0 * (1 - SLACK):
                # narrow classifier of the pristine defect: below the float_eps guard a thick layer gets a 1 m boundary
                # layer (flux = k dT / 1) although the same guard sets Nusselt = 2 (boundary layer = thickness / 2)
                sig = (d0 <= FEPS < d1 and th > MIN_THICKNESS and bl0 == 1.0 and f0 == k * d0 / 1.0
                       and f1 >= k * d1 / (th / 2.0) * (1 - SLACK))
                site = f'{S}/convection/monotone-dT/float-eps-guard-1m-boundary-layer' if sig else f'{S}/convection/monotone-dT'
                V.add(site, dT0=d0, dT1=d1, viscosity=v, f0=f0, f1=f1, boundary_layer0=bl0, **ctx)
    # scalar vs array calling forms (all four outputs)
    darr = np.array(dts)
    varr = np.array(vis)
    for v in vis[:: max(1, len(vis) // 3)]:
        r = cut(convection, darr, v, k, kappa, aexp, th, grav, rho, ca, cb, rac)
        for j in range(4):
            _same(V, f'{S}/convection/array-vs-scalar', r[j], [conv[(d, v)][j] for d in dts], form='dT-array', output=j, viscosity=v, **ctx)
    for d in dts[::3]:
        r = cut(convection, d, varr, k, kappa, aexp, th, grav, rho, ca, cb, rac)
        for j in range(4):
            _same(V, f'{S}/convection/array-vs-scalar', r[j], [conv[(d, v)][j] for v in vis], form='viscosity-array', output=j, dT=d, **ctx)
    dd, vv = np.meshgrid(darr, varr, indexing='ij')
    r = cut(convection, dd.ravel().copy(), vv.ravel().copy(), k, kappa, aexp, th, grav, rho, ca, cb, rac)
    for j in range(4):
        _same(V, f'{S}/convection/array-vs-scalar', r[j], [conv[(d, v)][j] for d in dts for v in vis], form='both-arrays', output=j, **ctx)
    r = cut(conduction, darr, k, th)
    for j in range(4):
        _same(V, f'{S}/conduction/array-vs-scalar', r[j], [cond[d][j] for d in dts], output=j, **ctx)
    # `off`: documented outputs
    for d in (0.0, 100.0):
        r = tuple(float(x) for x in cut(off, d, th))
        if r != (0.0, 0.5 * th, 0.0, 1.0):
            V.add(f'{S}/off/value', dT=d, got=list(r), **ctx)
    r = cut(off, darr, th)
    for j, want in enumerate((0.0, 0.5 * th, 0.0, 1.0)):
        _same(V, f'{S}/off/value', r[j], [want] * len(dts), output=j, **ctx)
    h.update(np.asarray([conv[(d, v)] for d in dts for v in vis]).tobytes())
    return {}


# ---------------------------------------------------------------------------------------------
# viscosity laws
# ---------------------------------------------------------------------------------------------
def _temps(tier, seed):
    n = 40 if tier == 'thorough' else 15
    off = SEED_DT[seed % 5]
    return [200.0 + (3000.0 - 200.0) * i / (n - 1) + (off if 0 < i < n - 1 else 0.0) for i in range(n)]


def _monotone_T(V, site, fn, args_of_T, temps, ctx, h):
    import numpy as np
    vals = [float(cut(fn, *args_of_T(T))) for T in temps]
    for T, v in zip(temps, vals):
        if math.isnan(v) or not v > 0.0:
            V.add(f'{site}/positive', T=T, got=v, **ctx)
    for (T0, v0), (T1, v1) in zip(zip(temps, vals), zip(temps[1:], vals[1:])):
        if not v1 <= v0 * (1 + SLACK):
            V.add(f'{site}/increasing-in-temperature', T0=T0, T1=T1, v0=v0, v1=v1, **ctx)
    h.update(np.asarray(vals).tobytes())
    return vals


def _case_arrhenius(c, V, h):
    import numpy as np
    from TidalPy.rheology.viscosity.viscosity_models import arrhenius
    p = ARRHENIUS[c['p']]
    P = c['P']
    temps = _temps(c['tier'], c['seed'])
    coeff, addT, stress, n, d, pexp, E, Vol = p
    if addT and (E + P * Vol) < R_GAS * max(temps):
        return 'inadmissible:E<RT'
    ctx = dict(params=c['p'], P=P)
    S = 'C19/viscosity/arrhenius'
    vals = _monotone_T(V, S, arrhenius, lambda T: (T, P) + p, temps, ctx, h)
    _same(V, f'{S}/array-vs-scalar', cut(arrhenius, np.array(temps), P, *p), vals, form='T-array', **ctx)
    _same(V, f'{S}/array-vs-scalar', cut(arrhenius, np.array(temps), np.full(len(temps), P), *p), vals, form='T,P-arrays', **ctx)
    return {}


def _case_reference(c, V, h):
    import numpy as np
    from TidalPy.rheology.viscosity.viscosity_models import reference
    p = REFERENCE[c['p']]
    P = c['P']
    temps = _temps(c['tier'], c['seed'])
    ctx = dict(params=c['p'], P=P)
    S = 'C19/viscosity/reference'
    vals = _monotone_T(V, S, reference, lambda T: (T, P) + p, temps, ctx, h)
    _same(V, f'{S}/array-vs-scalar', cut(reference, np.array(temps), P, *p), vals, form='T-array', **ctx)
    _same(V, f'{S}/array-vs-scalar', cut(reference, np.array(temps), np.full(len(temps), P), *p), vals, form='T,P-arrays', **ctx)
    # documented: reference_viscosity is the viscosity at the reference temperature
    got = float(cut(reference, p[1], P, *p))
    if not rel(got, p[0]) <= 4 * FEPS:
        V.add(f'{S}/value-at-reference-temperature', got=got, want=p[0], **ctx)
    return {}


def _case_constant(c, V, h):
    import numpy as np
    from TidalPy.rheology.viscosity.viscosity_models import constant
    temps = _temps(c['tier'], c['seed'])
    for eta in (1.0, 1.0e21):
        for P in PRESSURES:
            vals = _monotone_T(V, 'C19/viscosity/constant', constant, lambda T: (T, P, eta), temps, dict(eta=eta, P=P), h)
            if any(v != eta for v in vals):
                V.add('C19/viscosity/constant/value', eta=eta, P=P, got=vals[:3])
            _same(V, 'C19/viscosity/constant/array-vs-scalar', cut(constant, np.array(temps), P, eta), vals, eta=eta, P=P)
    return {}


# ---------------------------------------------------------------------------------------------
# partial melt
# ---------------------------------------------------------------------------------------------
def _melt_grid(tier, seed, crit, width):
    n = 200 if tier == 'thorough' else 50
    delta = [0.0, 0.3, 0.55, 0.8, 0.15][seed % 5]
    g = {0.0, 1.0, 5e-324}
    for i in range(n + 1):
        g.add(min(1.0, (i + delta) / n))
    cw = crit + width                       # the same double sum the code forms
    for x in (crit, cw):
        g.update((nb(x, 0.0), x, nb(x, 1.0)))
    return sorted(g), cw


def _case_henning(c, V, h):
    import numpy as np
    from TidalPy.rheology.partial_melt.melting_models import henning
    f = SEED_F[c['seed'] % 5]
    pv, lv, ps, ls = (x * f for x in MELT_MENU[c['m']])
    crit, width = CRITS[c['c']]
    T = c['T'] + (SEED_DT[c['seed'] % 5] if c['T'] not in (SOLIDUS, LIQUIDUS) else 0.0)
    grid, cw = _melt_grid(c['tier'], c['seed'], crit, width)
    S = 'C19/melt/henning'
    ctx = dict(T=T, menu=c['m'], crit=crit, width=width)
    res = []
    for mf in grid:
        v, s = cut(henning, mf, T, pv, lv, ps, SOLIDUS, LIQUIDUS, ls, crit, width)
        res.append((float(v), float(s)))
    prev = None
    for mf, (v, s) in zip(grid, res):
        if not v >= lv:
            V.add(f'{S}/below-liquid-viscosity', melt=mf, got=v, liquid=lv, **ctx)
        if not s >= ls:
            V.add(f'{S}/below-liquid-shear', melt=mf, got=s, liquid=ls, **ctx)
        if mf == 0.0 and (v != pv or s != ps):
            V.add(f'{S}/zero-melt', got=[v, s], want=[pv, ps], **ctx)
        if prev is not None and not v <= prev[1] * (1 + SLACK):
            V.add(f'{S}/viscosity-increasing', melt0=prev[0], melt1=mf, v0=prev[1], v1=v, **ctx)
        if mf > cw:
            if v != lv:
                V.add(f'{S}/liquid-viscosity', melt=mf, got=v, want=lv, **ctx)
            if s != ls:
                # narrow classifier of the pristine defect: the liquid branch of the *shear* expression uses
                # liquid_viscosity, so (after the floor) the returned shear is max(liquid_viscosity, liquid_shear)
                sig = (s == max(lv, ls)) and lv > ls
                V.add(f'{S}/liquid-shear/equals-liquid-viscosity' if sig else f'{S}/liquid-shear/other',
                      melt=mf, got=s, want=ls, liquid_viscosity=lv, **ctx)
        prev = (mf, v)
    r = cut(henning, np.array(grid), T, pv, lv, ps, SOLIDUS, LIQUIDUS, ls, crit, width)
    _same(V, f'{S}/array-vs-scalar', r[0], [x[0] for x in res], output='viscosity', **ctx)
    _same(V, f'{S}/array-vs-scalar', r[1], [x[1] for x in res], output='shear', **ctx)
    h.update(np.asarray(res).tobytes())
    return {}


def _case_spohn(c, V, h):
    import numpy as np
    from TidalPy.rheology.partial_melt.melting_models import spohn
    f = SEED_F[c['seed'] % 5]
    pv, lv, ps, ls = (x * f for x in MELT_MENU[c['m']])
    T = c['T'] + SEED_DT[c['seed'] % 5]
    grid, _ = _melt_grid(c['tier'], c['seed'], 0.5, 0.05)
    grid = grid[:: max(1, len(grid) // 25)]
    S = 'C19/melt/spohn'
    ctx = dict(T=T, menu=c['m'])
    res = []
    for mf in grid:
        v, s = cut(spohn, mf, T, lv, ls)
        res.append((float(v), float(s)))
        if not v >= lv:
            V.add(f'{S}/below-liquid-viscosity', melt=mf, got=float(v), liquid=lv, **ctx)
        if not s >= ls:
            V.add(f'{S}/below-liquid-shear', melt=mf, got=float(s), liquid=ls, **ctx)
    r = cut(spohn, np.array(grid), T, lv, ls)
    _same(V, f'{S}/array-vs-scalar', r[0], [x[0] for x in res], output='viscosity', **ctx)
    _same(V, f'{S}/array-vs-scalar', r[1], [x[1] for x in res], output='shear', **ctx)
    # liquid values far above the Fischer-Spohn values: the floor must take over (viscosity and shear separately)
    v, s = cut(spohn, 0.3, T, 1.0e300, 1.0e299)
    if float(v) != 1.0e300 or float(s) != 1.0e299:
        V.add(f'{S}/floor-not-applied', got=[float(v), float(s)], **ctx)
    h.update(np.asarray(res).tobytes())
    return {}


def _case_melt_off(c, V, h):
    import numpy as np
    from TidalPy.rheology.partial_melt.melting_models import off
    for (pv, lv, ps, ls) in MELT_MENU:
        for mf in (0.0, 0.3, 1.0):
            v, s = cut(off, mf, pv, ps)
            if float(v) != pv or float(s) != ps:
                V.add('C19/melt/off/value', melt=mf, got=[float(v), float(s)], want=[pv, ps])
        r = cut(off, np.array([0.0, 0.5, 1.0]), pv, ps)
        _same(V, 'C19/melt/off/value', r[0], [pv] * 3, output='viscosity')
        _same(V, 'C19/melt/off/value', r[1], [ps] * 3, output='shear')
        h.update(np.asarray(r).tobytes())
    return {}


# ---------------------------------------------------------------------------------------------
KINDS = dict(isotope=_case_isotope, fixed=_case_fixed, radio_off=_case_radio_off, cooling=_case_cooling,
             arrhenius=_case_arrhenius, reference=_case_reference, constant=_case_constant,
             henning=_case_henning, spohn=_case_spohn, melt_off=_case_melt_off)
FAMILY = dict(isotope='radiogenic/isotope', fixed='radiogenic/fixed', radio_off='radiogenic/off', cooling='cooling',
              arrhenius='viscosity/arrhenius', reference='viscosity/reference', constant='viscosity/constant',
              henning='melt/henning', spohn='melt/spohn', melt_off='melt/off')


def _attempt(c):
    V = Viol()
    h = hashlib.sha1(c['kind'].encode())
    status, worst, info, raised = 'pass', {}, [], None
    try:
        r = KINDS[c['kind']](c, V, h)
        if isinstance(r, str):
            status = r
        else:
            worst = dict(r or {})
            info = worst.pop('info', [])
    except CodeRaised as e:
        raised = e
        V.add(f"C19/{FAMILY[c['kind']]}/exception/{e.args[0]}", msg=e.args[1])
    return dict(status=status, viol=V.list(), obs=h.hexdigest(), worst=worst, info=info), raised


def run_case(c):
    from mc import env
    env.tidalpy()
    r, raised = _attempt(c)
    if raised is not None:
        # An exception of the code under test must be deterministic to count.  (Observed once: 16 workers compiling the
        # same numba function into a cold shared cache -> transient "TypeError: bad argument type for built-in operation".)
        r2, raised2 = _attempt(c)
        if raised2 is None:
            r2['info'] = list(r2['info']) + [f'transient exception on first attempt, absent on retry: {raised.args[0]}: {raised.args[1]}']
            return r2
    return r


def replay(case):
    return run_case(case)['viol']


def run(ctx):
    from mc.core import run_lattice
    cs = cases(ctx.tier, ctx.seed)
    res = run_lattice(
        ctx, 'mc.props.C19:run_case', cs, chunk=1, exhaustive=False, min_admitted_frac=0.9,
        rule='full products. radiogenic: every non-empty subset of a 4-isotope menu x reference time (inside: 9 times incl. '
             't_ref and t_ref +- half-life x masses; closed form, every bipartition, linearity, half-life, reference value); '
             'fixed: rate x half-life x reference time (half-life 0 observed only). cooling: parameter menu(3) x thickness(7, incl. '
             'MIN_THICKNESS and one-ulp neighbours) (inside: dT(12, incl. 0, float_eps and one-ulp neighbours) x viscosity decades, '
             'adjacent-pair monotonicity both ways). viscosity laws: parameter menu x pressure (inside: T grid 200..3000 K, adjacent '
             'pairs). melt laws: temperature x pre-melt/liquid menu x (crit, width) (inside: melt-fraction grid of [0,1] with 0, '
             'crit, crit+width and one-ulp neighbours). scalar and array calling forms everywhere. '
             'distinct = distinct sha1 of the raw outputs of a case')
    worst = {}
    kinds = {}
    infos = []
    for c, r in zip(cs, res):
        kinds[c['kind']] = kinds.get(c['kind'], 0) + 1
        for m in r.get('info') or []:
            if m not in infos:
                infos.append(m)
        for k, v in (r.get('worst') or {}).items():
            key = f"{c['kind']}:{k}"
            worst[key] = max(worst.get(key, 0.0), v)
    ctx.coverage['cases_by_kind'] = kinds
    ctx.coverage['worst_deviation'] = worst
    ctx.coverage['observations_not_asserted'] = infos
    for m in infos:
        ctx.note('observed, not asserted: ' + m)
