"""C18 -- an interrupted multiprocessing parameter study restarts without redoing or losing cases.

E3: the *real* `multiprocessing_run` is executed with its module globals rebound from the harness (no source edit):
  open / os / np / time / datetime / print / pathos_mp  ->  shims that
    * call the controlled scheduler (mc/sched.py) before every externally visible file-system effect,
    * buffer text writes like CPython does (committed on close; lost on a crash),
    * write .npy/.npz files in two halves (a kill can tear them),
    * replace the process pool by a virtual pool: one controlled thread per chunk, chunking exactly as Pool.map.
Explored exhaustively, per configuration (grid, must_include flavour, failing subset, avoid_crashes, pool size):
  every execution with <= B deviations (a deviation = a pre-emption or a crash at a scheduling point), and after each
  first run the study is *run again* (force_restart=False) -- for every distinct canonical disk state once -- and the
  invariant of the property is evaluated on the restart's return value, the disk and the per-case execution counters.
"""
import importlib
import io
import os
import re
import shutil
import types
import zipfile
from datetime import datetime as _real_datetime

import numpy as np

from mc import sched
from mc.core import stable_hash, jsonable

LEVEL = 'model_checking'
ASSUMPTIONS = [
    'kill = no effect after the crash point; text written to a file that was not yet closed is lost (CPython buffering, '
    'all log writes are far below the 8 KiB buffer); .npy/.npz writes can be torn in the middle',
    'pool workers are modelled as one controlled thread per Pool.map chunk, at most `nodes` in progress, yielding before '
    'every file-system effect; kernel-level reordering of completed writes is not modelled (the code never fsyncs)',
    'wall-clock values are replaced by a deterministic counter; timing text is masked when disk states are compared',
]

_mod = None


def mpmod():
    global _mod
    if _mod is None:
        from mc import env
        env.tidalpy()
        _mod = importlib.import_module('TidalPy.utilities.multiprocessing.multiprocessing')
    return _mod


# ------------------------------------------------------------------------------------------------------------------
# shims
# ------------------------------------------------------------------------------------------------------------------
class ShimFile:
    def __init__(self, world, path, mode):
        self.w, self.path, self.mode, self.buf, self.closed = world, path, mode, [], False
        rel = world.rel(path)
        if 'w' in mode:
            world.x.point(f'create:{rel}')
            with open(path, 'w'):
                pass
        elif 'a' in mode and not os.path.exists(path):
            world.x.point(f'create:{rel}')
            with open(path, 'a'):
                pass

    def write(self, s):
        self.buf.append(s)

    def __enter__(self):
        return self

    def __exit__(self, et, ev, tb):
        self.close(crashing=et is not None and issubclass(et, sched.Crash))
        return False

    def close(self, crashing=False):
        if self.closed:
            return
        self.closed = True
        if crashing or self.w.x.crashed:
            return                                  # buffer lost
        self.w.x.point(f'commit:{self.w.rel(self.path)}')
        with open(self.path, 'a') as fh:
            fh.write(''.join(self.buf))


class World:
    """One study directory + the shim objects bound to one Execution."""

    def __init__(self, root, execution, study, counts, fail_now):
        self.root, self.x, self.study, self.counts, self.fail_now = root, execution, study, counts, fail_now
        self.clock = 1000.0

    def rel(self, p):
        return os.path.relpath(p, self.root)

    # --- open
    def open(self, path, mode='r', *a, **k):
        if 'w' in mode or 'a' in mode:
            return ShimFile(self, path, mode)
        return open(path, mode, *a, **k)

    # --- os proxy
    def os_proxy(self):
        w = self

        class OsProxy:
            path = os.path
            pardir, sep = os.pardir, os.sep

            def makedirs(self, p, *a, **k):
                w.x.point(f'mkdir:{w.rel(p)}')
                return os.makedirs(p, *a, **k)

            def listdir(self, p):
                return sorted(os.listdir(p))

            def __getattr__(self, n):
                return getattr(os, n)
        return OsProxy()

    # --- numpy proxy
    def _write_torn(self, path, data, tag):
        rel = self.rel(path)
        self.x.point(f'{tag}-create:{rel}')
        with open(path, 'wb') as fh:
            pass
        self.x.point(f'{tag}-half:{rel}')
        with open(path, 'wb') as fh:
            fh.write(data[:len(data) // 2])
        self.x.point(f'{tag}-full:{rel}')
        with open(path, 'wb') as fh:
            fh.write(data)

    def np_proxy(self):
        w = self

        class NpProxy:
            def save(self, path, arr):
                if not str(path).endswith('.npy'):
                    path = str(path) + '.npy'
                b = io.BytesIO()
                np.save(b, arr)
                w._write_torn(path, b.getvalue(), 'npy')

            def savez(self, path, **kw):
                if not str(path).endswith('.npz'):
                    path = str(path) + '.npz'
                b = io.BytesIO()
                np.savez(b, **kw)
                w._write_torn(path, b.getvalue(), 'npz')

            def load(self, path, *a, **k):
                return np.load(path, *a, **k)

            def __getattr__(self, n):
                return getattr(np, n)
        return NpProxy()

    def time_proxy(self):
        w = self

        class T:
            @staticmethod
            def time():
                w.clock += 0.25
                return w.clock
        return T()

    def install(self):
        m = mpmod()
        m.open = self.open
        m.os = self.os_proxy()
        m.np = self.np_proxy()
        m.time = self.time_proxy()
        m.print = lambda *a, **k: None

        class FakeDT:
            @staticmethod
            def now():
                return _real_datetime(2026, 1, 1, 12, 0, 0)
        m.datetime = FakeDT
        x = self.x

        class VPool:
            def __init__(self, nodes=None, **k):
                x.capacity = nodes or x.capacity

            def __enter__(self):
                return self

            def __exit__(self, *a):
                return False

            def map(self, func, cases, chunksize=1):
                return x.pool_map(func, cases, chunksize)
        m.pathos_installed = True
        m.pathos_mp = types.SimpleNamespace(ProcessingPool=VPool)


def uninstall():
    m = mpmod()
    import builtins
    import time as _time
    for name in ('open', 'print'):
        if name in m.__dict__:
            del m.__dict__[name]
    m.os, m.np, m.time = os, np, _time
    m.datetime = _real_datetime
    from TidalPy.utilities import multiprocessing as pkg
    m.pathos_installed, m.pathos_mp = pkg.pathos_installed, pkg.pathos_mp


# ------------------------------------------------------------------------------------------------------------------
# configurations
# ------------------------------------------------------------------------------------------------------------------
def make_inputs(cfg):
    from TidalPy.utilities.multiprocessing import MultiprocessingInput
    grid = cfg['grid']
    mi = cfg.get('must_include', 'none')
    ins = []
    for i, n in enumerate(grid):
        name = 'xyzw'[i]
        must = []
        scale = 'linear'
        if i == 0 and mi == 'list':
            must = [0.25]
        elif i == 0 and mi == 'tuple':
            must = (0.25,)
        elif i == 0 and mi == 'list2':
            must = [0.25, 0.75]
        elif i == 0 and mi == 'log':
            must = [0.5]
            scale = 'log'
        ins.append(MultiprocessingInput(name, name.upper(), 0., 1., scale, must, n))
    return tuple(ins)


class StudyFailure(ValueError):
    pass


def make_study(counts, fail_now):
    def study(run_dir, *args):
        n = len(args) // 2
        vals = tuple(round(float(v), 9) for v in args[:n])
        counts[vals] = counts.get(vals, 0) + 1
        if vals in fail_now():
            raise StudyFailure(f'injected failure for {vals}')
        z = sum((10 ** (n - 1 - i)) * v for i, v in enumerate(vals))
        return {'z': np.asarray(z), 'v': np.asarray(vals)}
    return study


def case_values(cfg):
    """Grid points (as the library builds them) in case-number order -> list of value tuples."""
    ins = make_inputs(cfg)
    arrays = []
    for t in ins:
        a = np.logspace(t.start, t.end, t.n) if t.scale == 'log' else np.linspace(t.start, t.end, t.n)
        if len(t.must_include) > 0:
            m = np.asarray(t.must_include, dtype=float)
            if t.scale == 'log':
                m = 10 ** m
            a = np.sort(np.unique(np.concatenate((a, m))))
        arrays.append(a)
    mesh = np.meshgrid(*arrays, indexing='ij')
    flat = [m.flatten() for m in mesh]
    total = flat[0].size
    vals = [tuple(round(float(f[k]), 9) for f in flat) for k in range(total)]
    idx = [tuple(int(np.argmin(np.abs(arrays[d] - flat[d][k]))) for d in range(len(arrays))) for k in range(total)]
    return vals, idx


# ------------------------------------------------------------------------------------------------------------------
# one run of the library under the controlled scheduler
# ------------------------------------------------------------------------------------------------------------------
def run_once(root, cfg, choices, counts, failing, restart, allow_crash=True):
    """Returns (execution, outcome) with outcome = ('returned', value) | ('crashed', label) | ('raised', exc)."""
    x = sched.Execution(choices, capacity=cfg['procs'], allow_crash=allow_crash)
    w = World(root, x, None, counts, lambda: failing)
    w.install()
    study = make_study(counts, lambda: failing)
    m = mpmod()
    try:
        try:
            res = m.multiprocessing_run(root, 'verif-study', study, make_inputs(cfg), max_procs=cfg['procs'],
                                        force_restart=not restart, verbose=False, perform_memory_check=False,
                                        avoid_crashes=cfg.get('avoid_crashes', True))
            out = ('returned', res)
        except sched.Crash as c:
            out = ('crashed', str(c))
        except sched.HarnessBug:
            raise
        except Exception as e:  # noqa
            out = ('raised', e)
    finally:
        x.join()
        uninstall()
    return x, out


_TIMING = re.compile(r'Taking [-0-9.e+]+ seconds|MP Run time : .*|Total time  : .*')


def canonical_disk(root):
    """Sorted tree of (relative path, canonical content). Timings masked; the log tail after the input terminator is a
    sorted multiset of lines (the restart parser stops reading at the terminator)."""
    out = []
    if not os.path.isdir(root):
        return (('<no directory>', ''),)
    for dp, dn, fn in os.walk(root):
        dn.sort()
        if not fn and not dn:
            out.append((os.path.relpath(dp, root) + '/', 'emptydir'))
        for f in sorted(fn):
            p = os.path.join(dp, f)
            rel = os.path.relpath(p, root)
            data = open(p, 'rb').read()
            if f.endswith('.npz') or f.endswith('.npy'):
                try:
                    if f.endswith('.npz'):
                        with np.load(io.BytesIO(data)) as z:
                            c = ('npz', tuple((k, z[k].tobytes().hex()) for k in sorted(z.files)))
                    else:
                        c = ('npy', np.load(io.BytesIO(data)).tobytes().hex())
                except Exception:
                    c = ('torn', 'empty' if len(data) == 0 else 'partial')
            else:
                t = _TIMING.sub('<t>', data.decode('utf8', 'replace'))
                if f == 'tpy_mp.log' and '------------\n' in t:
                    head, _, tail = t.partition('------------\n')
                    t = head + '------------\n' + '\n'.join(sorted(tail.split('\n')))
                c = ('text', t)
            out.append((rel, c))
    return tuple(out)


def complete_cases(root):
    """case numbers whose success marker and a loadable result file are both on disk."""
    done = set()
    if not os.path.isdir(root):
        return done
    for d in os.listdir(root):
        if '_run_' not in d:
            continue
        p = os.path.join(root, d)
        if os.path.isfile(os.path.join(p, 'mp_success.log')) and os.path.getsize(os.path.join(p, 'mp_success.log')) > 0:
            try:
                with np.load(os.path.join(p, 'mp_results.npz')) as z:
                    z['z']
                done.add(int(d.split('_run_')[-1]))
            except Exception:
                pass
    return done


def normalise(results):
    """list of entries -> sorted list of (case_number, index tuple, {key: list}) | raises on malformed entries."""
    out = []
    shape = set()
    for r in results:
        if hasattr(r, 'case_number'):
            cn, idx, res = r.case_number, r.input_index, r.result
            shape.add('MultiprocessingOutput')
        else:
            cn, idx, res = r
            shape.add(type(r).__name__)
        if res is None:
            d = None
        else:
            d = {k: np.asarray(res[k]).tolist() for k in (res.files if hasattr(res, 'files') else res.keys())}
            if not isinstance(res, dict):
                shape.add('result:' + type(res).__name__)
        out.append((int(cn), tuple(int(i) for i in idx), d))
    return sorted(out, key=lambda t: (t[1], t[0])), shape


def reference(cfg, failing_persistent):
    """What an uninterrupted run must report: per case (number, index, result or None)."""
    vals, idx = case_values(cfg)
    ref = []
    for k, (v, i) in enumerate(zip(vals, idx)):
        if v in failing_persistent:
            ref.append((k, i, None))
        else:
            n = len(v)
            z = sum((10 ** (n - 1 - j)) * x for j, x in enumerate(v))
            ref.append((k, i, {'z': np.asarray(z).tolist(), 'v': np.asarray(v).tolist()}))
    return sorted(ref, key=lambda t: (t[1], t[0]))


def _close_results(a, b):
    if a is None or b is None:
        return a is None and b is None
    if sorted(a) != sorted(b):
        return False
    return all(np.allclose(np.asarray(a[k], dtype=float), np.asarray(b[k], dtype=float), rtol=1e-12, atol=0) for k in a)


def crash_window(label):
    """Classify a crash label into a stable window name (paths reduced to their role)."""
    if label is None:
        return 'none'
    kind, _, path = label.partition(':')
    base = os.path.basename(path)
    role = {'tpy_mp.log': 'log', 'mp_success.log': 'marker', 'mp_results.npz': 'results', 'error.log': 'errorlog'}.get(base)
    if role is None:
        role = 'inputs-npy' if base.endswith('.npy') else ('rundir' if '_run_' in base else ('studydir' if kind == 'mkdir' else base or kind))
    return f'{kind}:{role}'


def check_history(cfg, first_choices, scratch, fail_first, fail_persistent, restart_choices=()):
    """Run 1 under `first_choices`, then run again (restart) under `restart_choices`; evaluate the invariant.
    Returns dict(viol=[(site, detail)], state=<hash of the disk state before the restart>, crashed=bool, points=int,
                 trace=<first execution>, restart_trace=...)."""
    root = os.path.join(scratch, 'study')
    shutil.rmtree(scratch, ignore_errors=True)
    os.makedirs(scratch)
    counts = {}
    viol = []
    fail1 = set(fail_first) | set(fail_persistent)
    x1, out1 = run_once(root, cfg, first_choices, counts, fail1, restart=False)
    vals, idx = case_values(cfg)
    total = len(vals)
    info = dict(crashed=out1[0] == 'crashed', x1=x1)
    window = crash_window(x1.crash_label)
    detail0 = dict(cfg=cfg, first_choices=list(first_choices), fail_first=sorted(fail_first), fail_persistent=sorted(fail_persistent),
                   crash_at=x1.crash_label, window=window)
    if out1[0] == 'raised' and cfg.get('avoid_crashes', True):
        viol.append((f'C18/first-run-raises/{type(out1[1]).__name__}', dict(detail0, msg=str(out1[1])[:200])))
    if out1[0] == 'returned' and out1[1] is not None:
        # uninterrupted (possibly with failing cases): every entry carries its own case number and index
        try:
            got, shape = normalise(out1[1])
            ref = reference(cfg, fail1)
            bad = _compare(got, ref, total)
            if bad:
                viol.append((f'C18/uninterrupted/{bad[0]}', dict(detail0, problem=bad[1])))
        except Exception as e:
            viol.append((f'C18/uninterrupted/malformed-results/{type(e).__name__}', dict(detail0, msg=str(e)[:200])))
    state = canonical_disk(root)
    info['state'] = stable_hash(state, 20)
    done_before = complete_cases(root)
    counts_before = dict(counts)
    # ---- run again on the same directory
    x2, out2 = run_once(root, cfg, restart_choices, counts, set(fail_persistent), restart=True, allow_crash=True)
    info['x2'] = x2
    if out2[0] == 'crashed':
        info['restart_crashed'] = True
        info['state2'] = stable_hash(canonical_disk(root), 20)
        return dict(viol=viol, **info)
    if out2[0] == 'raised':
        e = out2[1]
        viol.append((f'C18/restart-raises/{type(e).__name__}/after-crash-at={window}', dict(detail0, msg=str(e)[:300])))
        return dict(viol=viol, **info)
    res = out2[1]
    if res is None:
        if cfg.get('avoid_crashes', True) or not fail_persistent:
            viol.append((f'C18/restart-returns-None/after-crash-at={window}', detail0))
        return dict(viol=viol, **info)
    try:
        got, shape = normalise(res)
    except Exception as e:
        viol.append((f'C18/restart-malformed-results/{type(e).__name__}/after-crash-at={window}', dict(detail0, msg=str(e)[:200])))
        return dict(viol=viol, **info)
    ref = reference(cfg, set(fail_persistent))
    bad = _compare(got, ref, total)
    if bad:
        viol.append((f'C18/restart-results/{bad[0]}/after-crash-at={window}', dict(detail0, problem=bad[1])))
    if shape - {'MultiprocessingOutput'}:
        viol.append(('C18/restart-results/entry-type', dict(detail0, entry_types=sorted(shape))))
    # completed cases are not executed again
    redone = [k for k in sorted(done_before) if counts.get(vals[k], 0) != counts_before.get(vals[k], 0)]
    if redone:
        viol.append((f'C18/restart-reexecutes-completed-case/after-crash-at={window}', dict(detail0, cases=redone)))
    # every non-failing case was executed at least once overall and has a result on disk now
    return dict(viol=viol, **info)


def _compare(got, ref, total):
    nums = sorted(g[0] for g in got)
    if len(got) != total:
        return ('case-count', dict(got=len(got), want=total, case_numbers=nums))
    gi = sorted(g[1] for g in got)
    ri = sorted(r[1] for r in ref)
    if gi != ri:
        return ('index-multiset', dict(got=gi[:12], want=ri[:12]))
    for g, r in zip(got, ref):
        if g[0] != r[0]:
            return ('case-number', dict(index=g[1], got=g[0], want=r[0], all_numbers=[x[0] for x in got][:16]))
        if not _close_results(g[2], r[2]):
            return ('result-value', dict(index=g[1], got=g[2], want=r[2]))
    return None


# ------------------------------------------------------------------------------------------------------------------
# exploration task (runs in a pool worker): one configuration x one sub-tree of the choice tree
# ------------------------------------------------------------------------------------------------------------------
def explore(task):
    from mc import env
    env.tidalpy()
    cfg, bound, prefix = task['cfg'], task['bound'], task.get('prefix', [])
    fail_first = {tuple(v) for v in task.get('fail_first', [])}
    fail_persistent = {tuple(v) for v in task.get('fail_persistent', [])}
    restart_bound = task.get('restart_bound', 0)
    scratch = os.path.join(os.environ.get('VERIF_SCRATCH', '/dev/shm'), f'c18-{os.getpid()}')
    seen_states = {}
    viol = []
    stats = dict(executions=0, restarts=0, crash_states=0, points=0, max_deviations=0, restart_crash_executions=0)
    sample = []

    def run(choices):
        # first run only (used by the DFS to discover the choice tree); the restart happens in check()
        return None

    # DFS driver written out here because each node needs first-run + restart on the same directory
    stack = [list(prefix)]
    budget = task.get('budget', 200000)
    while stack:
        pre = stack.pop()
        r = check_history(cfg, pre, scratch, fail_first, fail_persistent)
        x1 = r['x1']
        stats['executions'] += 1
        stats['restarts'] += 1
        stats['points'] += len(x1.trace)
        stats['max_deviations'] = max(stats['max_deviations'], x1.deviations())
        first_time = r['state'] not in seen_states
        if first_time:
            seen_states[r['state']] = pre
            if r['crashed']:
                stats['crash_states'] += 1
        for site, detail in r['viol']:
            viol.append((site, dict(detail, task=dict(cfg=cfg, bound=bound, fail_first=task.get('fail_first', []),
                                                       fail_persistent=task.get('fail_persistent', [])))))
        if len(sample) < 2 and r['crashed']:
            sample.append(dict(choices=pre, crash_at=x1.crash_label, labels=[p['label'] for p in x1.trace][-6:]))
        # history depth 3: the restart itself is crashed at each of its points (only once per distinct disk state)
        if restart_bound and first_time:
            x2 = r['x2']
            for j in range(len(x2.trace)):
                if x2.trace[j]['alts'][-1] != 'CRASH':
                    continue
                rc = x2.taken()[:j] + [len(x2.trace[j]['alts']) - 1]
                r2 = check_history_3(cfg, pre, rc, scratch, fail_first, fail_persistent)
                stats['restart_crash_executions'] += 1
                for site, detail in r2:
                    viol.append((site, detail))
        if stats['executions'] >= budget:
            stats['budget_hit'] = True
            break
        if task.get('root_only'):
            break
        taken = x1.taken()
        dev, before = 0, []
        for p in x1.trace:
            before.append(dev)
            dev += p['cost']
        for i in range(len(x1.trace) - 1, len(pre) - 1, -1):
            p = x1.trace[i]
            for alt in range(1, len(p['alts'])):
                if before[i] + p['costs'][alt] <= bound:
                    stack.append(taken[:i] + [alt])
    shutil.rmtree(scratch, ignore_errors=True)
    return dict(status='pass', viol=_dedupe(viol), obs=sorted(seen_states), stats=stats, samples=sample)


def check_history_3(cfg, first_choices, restart_choices, scratch, fail_first, fail_persistent):
    """crash in run 1 (or not), crash in the restart, then a final restart that must satisfy the invariant."""
    root = os.path.join(scratch, 'study')
    shutil.rmtree(scratch, ignore_errors=True)
    os.makedirs(scratch)
    counts = {}
    fail1 = set(fail_first) | set(fail_persistent)
    x1, out1 = run_once(root, cfg, first_choices, counts, fail1, restart=False)
    x2, out2 = run_once(root, cfg, restart_choices, counts, set(fail_persistent), restart=True)
    vals, idx = case_values(cfg)
    window = f'{crash_window(x1.crash_label)}+{crash_window(x2.crash_label)}'
    detail0 = dict(cfg=cfg, first_choices=list(first_choices), restart_choices=list(restart_choices),
                   fail_first=sorted(fail_first), fail_persistent=sorted(fail_persistent), crash_at=[x1.crash_label, x2.crash_label])
    done_before = complete_cases(root)
    counts_before = dict(counts)
    x3, out3 = run_once(root, cfg, (), counts, set(fail_persistent), restart=True, allow_crash=False)
    viol = []
    if out3[0] == 'raised':
        viol.append((f'C18/second-restart-raises/{type(out3[1]).__name__}/after-crash-at={window}', dict(detail0, msg=str(out3[1])[:300])))
        return viol
    res = out3[1]
    if res is None:
        viol.append((f'C18/second-restart-returns-None/after-crash-at={window}', detail0))
        return viol
    try:
        got, shape = normalise(res)
    except Exception as e:
        viol.append((f'C18/second-restart-malformed-results/{type(e).__name__}/after-crash-at={window}', dict(detail0, msg=str(e)[:200])))
        return viol
    bad = _compare(got, reference(cfg, set(fail_persistent)), len(vals))
    if bad:
        viol.append((f'C18/second-restart-results/{bad[0]}/after-crash-at={window}', dict(detail0, problem=bad[1])))
    redone = [k for k in sorted(done_before) if counts.get(vals[k], 0) != counts_before.get(vals[k], 0)]
    if redone:
        viol.append((f'C18/second-restart-reexecutes-completed-case/after-crash-at={window}', dict(detail0, cases=redone)))
    return viol


def _dedupe(viol):
    seen, out = set(), []
    for site, d in viol:
        if site in seen:
            continue
        seen.add(site)
        out.append((site, d))
    return out


def replay(case):
    """case = the `detail` produced by explore (contains cfg, first_choices, failing sets, optional restart_choices).
    Replays exactly that history twice and demands identical observations (determinism) before reporting."""
    from mc import env
    env.tidalpy()
    scratch = os.path.join(os.environ.get('VERIF_SCRATCH', '/dev/shm'), f'c18-replay-{os.getpid()}')
    ff = {tuple(v) for v in case.get('fail_first', [])}
    fp = {tuple(v) for v in case.get('fail_persistent', [])}

    def once():
        if case.get('restart_choices') is not None:
            return check_history_3(case['cfg'], case['first_choices'], case['restart_choices'], scratch, ff, fp)
        return check_history(case['cfg'], case['first_choices'], scratch, ff, fp)['viol']
    a = once()
    b = once()
    shutil.rmtree(scratch, ignore_errors=True)
    if [s for s, _ in a] != [s for s, _ in b]:
        raise RuntimeError(f'replay is not deterministic: {[s for s, _ in a]} vs {[s for s, _ in b]}')
    return a


# ------------------------------------------------------------------------------------------------------------------
def configurations(tier):
    cfgs = []
    # (grid, must_include flavour, procs); the 12- and 14-case grids have two-digit case numbers (run-directory names
    # that are prefixes of one another: index_..._run_1 / _run_10)
    base = [((2, 2), 'none', 4)]
    if tier == 'quick':
        base += [((3, 2), 'list', 4), ((3, 2), 'tuple', 4), ((2, 2), 'log', 5), ((6, 2), 'none', 4)]
    else:
        base += [((3, 2), 'list', 4), ((3, 2), 'tuple', 4), ((2, 2), 'log', 5), ((4, 2), 'list2', 4), ((4, 2), 'none', 8),
                 ((3, 2), 'none', 16), ((2, 2, 2), 'none', 4),
                 ((6, 2), 'none', 4), ((13,), 'list', 6)]
    for grid, mi, procs in base:
        cfgs.append(dict(grid=list(grid), must_include=mi, procs=procs, avoid_crashes=True))
    return cfgs


def run(ctx):
    import itertools
    tasks = []
    quick = not ctx.thorough
    for ci, cfg in enumerate(configurations(ctx.tier)):
        vals, _ = case_values(cfg)
        small = len(vals) <= 4
        bound = 2 if (small and (ctx.thorough or ci == 0)) else 1
        # (a) no failing cases: all schedules / crash points within the deviation bound, split by first deviation
        tasks.append(dict(cfg=cfg, bound=bound, prefix=[], root_only=True, kind='root'))
        root_trace = _root_trace(cfg)
        for i, p in enumerate(root_trace):
            for alt in range(1, len(p['alts'])):
                if p['costs'][alt] <= bound:
                    pre = [q['chosen'] for q in root_trace[:i]] + [alt]
                    tasks.append(dict(cfg=cfg, bound=bound, prefix=pre, kind='subtree',
                                      restart_bound=1 if (ctx.thorough and small) else 0))
        # (b) fault sequences: failing subsets (persistent / first run only), crash points along every 0-preemption schedule
        subsets = []
        if small:
            for r in range(1, len(vals) + 1):
                subsets += [list(c) for c in itertools.combinations(vals, r)]
        else:
            subsets += [[v] for v in vals]
            subsets += [list(c) for c in itertools.combinations(vals, 2)] if ctx.thorough else [[vals[0], vals[-1]]]
        for si, sub in enumerate(subsets):
            for mode in ('persistent', 'first'):
                for avoid in (True, False):
                    if not avoid and not (ctx.thorough or len(sub) == 1):
                        continue
                    c2 = dict(cfg, avoid_crashes=avoid)
                    if ctx.thorough:
                        b = 1 if (small or len(sub) == 1) else 0
                    else:
                        b = 1 if (small and len(sub) == 1 and avoid and si in (0, 3)) else 0
                    t = dict(cfg=c2, bound=b, kind='faults')
                    t['fail_persistent' if mode == 'persistent' else 'fail_first'] = [list(v) for v in sub]
                    tasks.append(t)
    # biggest sub-trees first (better load balance): earlier prefixes have more remaining points
    tasks.sort(key=lambda t: (-t['bound'], len(t.get('prefix', []))))
    res = ctx.map('mc.props.C18:explore', tasks, chunk=1)
    states, executions, restarts, points, crash_states, rce = set(), 0, 0, 0, 0, 0
    samples = []
    budget_hit = False
    for t, r in zip(tasks, res):
        if r.get('status') == 'harness_error':
            from mc.core import HarnessError
            raise HarnessError(f"{t}: {r.get('err')}\n{r.get('tb', '')}")
        for site, detail in r['viol']:
            ctx.violation(site, _replay_case(detail), detail)
        states.update((stable_hash(t['cfg'], 8), s) for s in r['obs'])
        st = r['stats']
        executions += st['executions']
        restarts += st['restarts']
        points += st['points']
        crash_states += st['crash_states']
        rce += st['restart_crash_executions']
        budget_hit = budget_hit or st.get('budget_hit', False)
        if r['samples'] and len(samples) < 4:
            samples.append(dict(cfg=t['cfg'], **r['samples'][0]))
    ctx.coverage.update(
        states=len(states), transitions=points, traces_validated_against_impl=executions + restarts + 2 * rce,
        executions_first_run=executions, restarts=restarts, restart_crash_histories=rce,
        crash_disk_states=crash_states, tasks=len(tasks), samples=samples or [dict(note='no crash sample')],
        exhaustive=not budget_hit,
        rule='per configuration: all executions of the real multiprocessing_run with <= bound deviations (pre-emption or crash at '
             'a scheduling point before each file-system effect), all failing-case subsets (persistent / first-run-only; avoid_crashes '
             'on/off), each followed by a restart on the resulting disk state; states = distinct canonical disk states before the '
             'restart; transitions = scheduling points executed')
    conformance(ctx)


def _replay_case(detail):
    d = {k: detail[k] for k in ('cfg', 'first_choices', 'fail_first', 'fail_persistent') if k in detail}
    if 'restart_choices' in detail:
        d['restart_choices'] = detail['restart_choices']
    return jsonable(d)


def _root_trace(cfg):
    from mc import env
    env.tidalpy()
    scratch = os.path.join(os.environ.get('VERIF_SCRATCH', '/dev/shm'), f'c18-root-{os.getpid()}')
    shutil.rmtree(scratch, ignore_errors=True)
    os.makedirs(scratch)
    x, out = run_once(os.path.join(scratch, 'study'), cfg, (), {}, set(), restart=False)
    shutil.rmtree(scratch, ignore_errors=True)
    return x.trace


def conformance(ctx):
    """Ties the seam to the real pool: one real pathos run (uninterrupted) per quick configuration must leave the same
    canonical disk state and return the same results as the virtual pool."""
    out = ctx.map('mc.props.C18:conformance_case', [c for c in configurations('quick')][:2], chunk=1)
    n = 0
    for c, r in zip(configurations('quick'), out):
        if r.get('status') == 'harness_error':
            from mc.core import HarnessError
            raise HarnessError(f"conformance {c}: {r.get('err')}\n{r.get('tb', '')}")
        n += 1
        for site, detail in r['viol']:
            ctx.violation(site, dict(conformance=c), detail)
    ctx.coverage['conformance_runs_with_real_pathos_pool'] = n


def pickled_study(run_dir, *args):
    n = len(args) // 2
    vals = tuple(round(float(v), 9) for v in args[:n])
    z = sum((10 ** (n - 1 - i)) * v for i, v in enumerate(vals))
    return {'z': np.asarray(z), 'v': np.asarray(vals)}


def conformance_case(cfg):
    from mc import env
    env.tidalpy()
    m = mpmod()
    uninstall()
    scratch = os.path.join(os.environ.get('VERIF_SCRATCH', '/dev/shm'), f'c18-conf-{os.getpid()}')
    shutil.rmtree(scratch, ignore_errors=True)
    os.makedirs(scratch)
    viol = []
    real_root = os.path.join(scratch, 'real')
    res_real = m.multiprocessing_run(real_root, 'verif-study', pickled_study, make_inputs(cfg), max_procs=cfg['procs'],
                                     force_restart=True, verbose=False, perform_memory_check=False)
    virt_root = os.path.join(scratch, 'virt', 'study')
    os.makedirs(os.path.dirname(virt_root))
    x, out = run_once(virt_root, cfg, (), {}, set(), restart=False, allow_crash=False)
    a, _ = normalise(res_real)
    b, _ = normalise(out[1])
    if a != b:
        viol.append(('C18/conformance/results-differ-between-real-and-virtual-pool', dict(real=a[:4], virtual=b[:4])))
    da = [(p, (c if c[0] != 'text' else ('text', re.sub(r'\d{4}/\d\d/\d\d, \d\d:\d\d:\d\d', '<date>', c[1])))) for p, c in canonical_disk(real_root)]
    db = [(p, (c if c[0] != 'text' else ('text', re.sub(r'\d{4}/\d\d/\d\d, \d\d:\d\d:\d\d', '<date>', c[1])))) for p, c in canonical_disk(virt_root)]
    if da != db:
        diff = [(x_, y_) for x_, y_ in zip(da, db) if x_ != y_][:2]
        viol.append(('C18/conformance/disk-differs-between-real-and-virtual-pool', dict(first_diffs=jsonable(diff), n_real=len(da), n_virtual=len(db))))
    shutil.rmtree(scratch, ignore_errors=True)
    return dict(status='pass', viol=viol, obs=len(da))
