"""C06 -- the radial solver is total, memory-safe and leaves its inputs intact (E1 lattice + fault enumeration).

Enumerated (see `enumerate_cases`): every layer stack of 1-3 layers over {solid,liquid} x {static,dynamic} x
{incompressible,compressible} (584 stacks, liquid surface layers included) x an explicit fault menu (argument
validation failures, integration failures forced through an argument, NaN/0/inf/negative entries in each of the five
input arrays at first / interface / last slice, frequency and bulk-density faults) x nondimensionalize {T,F} x
raise_on_fail {T,F}, plus two-call sequences on the SAME arrays (fault then good, good then fault).

Execution: every case runs in a short-lived child process (mc/c06_child.py; PYTHONMALLOC=malloc, MALLOC_CHECK_=3,
MALLOC_PERTURB_=165, PYTHONFAULTHANDLER=1) fed by batch files.  The child appends `B k` / `E k <observation>` lines
to a log, so the case that was executing when a child died or stopped making progress is known; that case is re-run
ALONE (crash -> must crash again alone; time-out -> must exceed a long limit alone with max_num_steps=20000) before
any verdict is given, and the rest of the batch is resumed in a new child.

Oracle (only what the property says): child exit status 0 and per call "returned a RadialSolverSolution" or "raised
an Exception subclass"; success=False => non-empty message and result/love/k/h/l/__getitem__ all None, and never
returned under raise_on_fail; integration failures are not raised without raise_on_fail; the five caller arrays equal
their pre-call copies within 4 ulp on every exit path.

Thorough tier additionally rebuilds the RadialSolver extensions with -fsanitize=address,undefined into a scratch
shadow copy of the package under /dev/shm and re-runs a sub-lattice under LD_PRELOAD=libasan.
"""
import collections
import json
import os
import random
import shutil
import signal
import subprocess
import sys
import tempfile
import threading
import time

from mc import env
from mc.c06_child import KINDS, ULP_TOL, is_argument_fault, kind_name

LEVEL = 'fault_enumeration'
ASSUMPTIONS = [
    'stacks of 1-3 layers on one planet geometry (R=6000 km, 12 slices per layer, tight grid), one forcing frequency '
    '(1e-3 rad/s); the seed rotates a material factor and the visiting order only',
    'a hang is a single case that, run alone in a fresh process with max_num_steps=20000, exceeds the long wall-clock '
    'limit (120 s) and has by then consumed >= 20 s of CPU (every returning call of the lattice needs < 1 s)',
    'memory safety is observed through process death under glibc MALLOC_CHECK_=3 / MALLOC_PERTURB_ (and ASan+UBSan in '
    'the thorough tier); silent corruption that neither leg detects is not decided',
    'PYTHONMALLOC=debug is not used: the solver allocates with CyRK allocate_mem (libc malloc) and releases with '
    'PyMem_Free, an allocator-family mismatch that is harmless under the default allocator (informational)',
    'non-finite complex shear entries are compared as a class (C complex arithmetic maps (nan+0j)/c*c to nan+nanj)',
    'stacks with a dynamic-liquid surface layer die in every case that reaches the surface boundary condition (known '
    'finding), so nothing else can be observed on them; they are crossed with the no-fault menu entry only, plus the '
    'full fault menu on two representative stacks (thorough)',
    'the two inputs known to hang (radius_array[0] in {0, NaN}) are crossed with the base stacks only (each costs the '
    'long limit); the two arguments known to kill the interpreter on every stack (expected_size in {1, 2**40}) are '
    'crossed with all stacks of <= 2 layers and the base stacks only',
]

HANG_LIMIT = float(os.environ.get('C06_HANG_LIMIT', '120'))     # wall-clock limit of a single case run alone [s]
HANG_CPU = float(os.environ.get('C06_HANG_CPU', '20'))          # ... which must also have consumed this much CPU [s]
SEED_FACTORS = [1.0, 1.07, 0.93, 1.31, 0.77]

# ----------------------------------------------------------------------------------------------------------------
# alphabet
# ----------------------------------------------------------------------------------------------------------------
ARG_FAULTS = [
    # argument validation reachable from the Python signature
    'len_types_short', 'len_types_long', 'len_static_short', 'len_static_long', 'len_incomp_short', 'len_incomp_long',
    'len_tops_short', 'len_tops_long', 'len_arr0', 'len_arr1', 'len_arr2', 'len_arr3', 'len_arr4',
    'solve_list', 'solve_unknown', 'solve_six', 'solve_empty', 'solve_nonstr', 'solve_upper', 'solve_none', 'solve_five',
    'layer_unknown', 'integrator_unknown', 'method_rk23', 'method_dop853',
    'no_layers', 'empty_arrays', 'few_slices', 'thin_layer', 'tops_decreasing', 'tops_beyond', 'tops_below', 'degree0', 'degree1', 'degree3',
    # integration failures forced through an argument
    'steps1', 'steps3', 'ram0', 'ram1', 'expected0', 'expected1', 'expected_huge', 'rtol0', 'rtolneg', 'atolnan',
    'maxstep_tiny', 'maxstep_neg',
    # scalars
    'freq0', 'freqnan', 'freqneg', 'rhob0', 'rhobnan',
]
ARR_FAULTS = ['arr:%d:%s:%s' % (a, p, v) for a in range(5) for p in ('first', 'iface', 'last')
              for v in ('nan', 'zero', 'inf', 'neg')]
HANG_FAULTS = ('arr:0:first:zero', 'arr:0:first:nan')
DIE_FAULTS = ('expected1', 'expected_huge')      # known to kill the interpreter on every stack (one child each)
FAULTS = ARG_FAULTS + ARR_FAULTS
SEQ_FAULTS = [f for f in ARG_FAULTS if is_argument_fault(f)]

# base stacks (kind indices, innermost first): 1 = solid static compressible, 3 = solid dynamic compressible,
# 5 = liquid static compressible, 6 = liquid dynamic incompressible, 7 = liquid dynamic compressible, 2 = solid dynamic incompressible
BASE_QUICK = [[1], [1, 1], [5, 3], [1, 5], [3, 7, 1]]
BASE_HANG_QUICK = [[1, 1]]
BASE_HANG_THOROUGH = [[1], [1, 1], [5, 3], [3, 7, 1]]
DYNLIQ_TOP_REPR = [[7], [1, 7]]


def all_stacks(nmax=3):
    import itertools
    return [list(st) for n in range(1, nmax + 1) for st in itertools.product(range(8), repeat=n)]


def dyn_liquid_top(stack):
    t, s, _ = KINDS[stack[-1]]
    return t == 'liquid' and not s


def stack_name(stack):
    return '/'.join(kind_name(k) for k in stack)


def enumerate_cases(tier, seed):
    """Returns a list of (sub-lattice name, [cases])."""
    f = SEED_FACTORS[seed % len(SEED_FACTORS)]
    thorough = tier == 'thorough'
    TF = (True, False)

    def mk(stack, fault, nd, rof, kam=True, seq=None):
        c = dict(stack=list(stack), fault=fault, nd=nd, rof=rof, kam=kam, f=f)
        if seq:
            c['seq'] = seq
        return c
    # A: every stack, no fault
    A = []
    for st in all_stacks():
        if dyn_liquid_top(st) and not thorough:
            combos = [(True, False, True), (False, True, False)]
        else:
            combos = [(nd, rof, True) for nd in TF for rof in TF] + \
                     ([(nd, rof, False) for nd in TF for rof in TF] if thorough else [(True, False, False)])
        A += [mk(st, 'none', nd, rof, kam) for nd, rof, kam in combos]
    # B: fault menu x nd x rof
    if thorough:
        stacks = [st for st in all_stacks() if not dyn_liquid_top(st)] + DYNLIQ_TOP_REPR
        hang_stacks = BASE_HANG_THOROUGH
    else:
        stacks = BASE_QUICK
        hang_stacks = BASE_HANG_QUICK
    B = []
    for st in stacks:
        for flt in FAULTS:
            if flt in HANG_FAULTS and st not in hang_stacks:
                continue
            if flt in DIE_FAULTS and len(st) > 2 and st not in BASE_QUICK:
                continue
            rofs = (False,) if (flt in HANG_FAULTS and st != [1, 1]) else TF
            B += [mk(st, flt, nd, rof) for nd in TF for rof in rofs]
    # C: two calls on the same arrays
    seq_stacks = BASE_QUICK[:2] if not thorough else BASE_QUICK
    C = []
    for st in seq_stacks:
        for flt in SEQ_FAULTS:
            for order in ('FG', 'GF'):
                C += [mk(st, flt, nd, rof, seq=order) for nd in TF for rof in ((False, True) if thorough else (False,))]
    return [('A:stacks', A), ('B:faults', B), ('C:sequences', C)]


# ----------------------------------------------------------------------------------------------------------------
# child processes
# ----------------------------------------------------------------------------------------------------------------
def predicted_risky(case):
    """Cases expected to kill / hang their child get a child of their own (prediction only affects cost)."""
    flt = case.get('fault')
    if flt in HANG_FAULTS:
        return 'hang'
    if flt in DIE_FAULTS:
        return 'die'
    if dyn_liquid_top(case['stack']):
        return 'die'
    return None


def _cpu_seconds(pid):
    try:
        with open('/proc/%d/stat' % pid) as fh:
            f = fh.read().rsplit(')', 1)[1].split()
        return (int(f[11]) + int(f[12])) / float(os.sysconf('SC_CLK_TCK'))
    except (OSError, IndexError, ValueError):
        return float('inf')


def _signame(n):
    try:
        return signal.Signals(n).name
    except ValueError:
        return 'SIG%d' % n


class _NotReady(Exception):
    pass


class Runner:
    """Runs cases in child processes; returns one process-level record per case:
       dict(end='ok'|'signal'|'exit'|'hang', obs=<child observation>|None, sig=, rc=, stderr=, alone=bool, secs=)"""

    def __init__(self, nworkers, scratch=None, env_extra=None, markers=False):
        self.nworkers = max(1, int(nworkers))
        base = scratch or os.environ.get('VERIF_SCRATCH') or '/dev/shm'
        os.makedirs(base, exist_ok=True)
        self.dir = tempfile.mkdtemp(prefix='c06-', dir=base)
        self.own_xdg = None
        self.env = dict(os.environ)
        if 'XDG_DATA_HOME' not in self.env:     # replay / direct use outside ./check
            self.own_xdg = tempfile.mkdtemp(prefix='c06-xdg-', dir='/dev/shm')
            self.env['XDG_DATA_HOME'] = self.own_xdg
        self.env.update(PYTHONMALLOC='malloc', MALLOC_CHECK_='3', MALLOC_PERTURB_='165', PYTHONFAULTHANDLER='1',
                        OMP_NUM_THREADS='1', NUMBA_NUM_THREADS='1', VERIF_HOME=env.HOME, VERIF_REPO=env.REPO,
                        VERIF_NUMBA_DIR=env.numba_cache_dir(),
                        PYTHONPATH=env.HOME + os.pathsep + os.path.join(env.HOME, '_vendor'))
        self.markers = bool(markers)
        if markers:
            self.env['C06_STDERR_MARKERS'] = '1'
        if env_extra:
            self.env.update(env_extra)
        self._n = 0
        self._lock = threading.Lock()
        self.children = 0
        self.history_crashes = []      # [(list of cases, process record)]
        self.end_counts = {}
        self.not_ready_retries = 0
        self.post = None               # (case, process record) -> what run_cases returns for the case

    def close(self):
        shutil.rmtree(self.dir, ignore_errors=True)
        if self.own_xdg:
            shutil.rmtree(self.own_xdg, ignore_errors=True)

    # ---- one child
    def _child(self, cases, timeout, cpu_floor=None):
        """Run one child; a child that never reports 'ready' (imports done) says nothing about the code under test
        and is retried twice before the run is abandoned as a harness error."""
        last = None
        for attempt in range(3):
            try:
                return self._child_once(cases, timeout, cpu_floor)
            except _NotReady as e:
                last = e
                with self._lock:
                    self.not_ready_retries += 1
        raise RuntimeError(str(last))

    def _child_once(self, cases, timeout, cpu_floor=None):
        with self._lock:
            self._n += 1
            self.children += 1
            tag = os.path.join(self.dir, 'b%06d' % self._n)
        with open(tag + '.json', 'w') as fh:
            json.dump(cases, fh)
        t0 = time.time()
        with open(tag + '.err', 'wb') as errfh:
            p = subprocess.Popen([sys.executable, '-m', 'mc.c06_child', tag + '.json', tag + '.log'], cwd=env.HOME,
                                 env=self.env, stdin=subprocess.DEVNULL, stdout=subprocess.DEVNULL, stderr=errfh)
            rc, timed_out = None, False
            try:
                rc = p.wait(timeout=timeout)
            except subprocess.TimeoutExpired:
                # Wall-clock limit reached.  On a heavily shared machine the child may simply not have been scheduled:
                # a single-case confirmation run is only declared hung once it has also burnt HANG_CPU seconds of CPU
                # (or 5x the wall limit has passed, for a child that sleeps forever).
                hard = t0 + 5 * timeout
                while cpu_floor is not None and _cpu_seconds(p.pid) < cpu_floor and time.time() < hard:
                    try:
                        rc = p.wait(timeout=5)
                        break
                    except subprocess.TimeoutExpired:
                        pass
                if rc is None:
                    p.kill()
                    p.wait()
                    timed_out = True
        secs = time.time() - t0
        obs, begun, ready, done, herr = {}, -1, False, False, None
        try:
            with open(tag + '.log') as fh:
                for ln in fh:
                    if ln.startswith('E '):
                        _, k, js = ln.split(' ', 2)
                        obs[int(k)] = json.loads(js)
                    elif ln.startswith('B '):
                        begun = int(ln.split()[1])
                    elif ln.startswith('R'):
                        ready = True
                    elif ln.startswith('D'):
                        done = True
                    elif ln.startswith('H '):
                        _, k, js = ln.split(' ', 2)
                        herr = 'child harness error on case %s: %s' % (json.dumps(cases[int(k)]), json.loads(js))
        except FileNotFoundError:
            pass
        with open(tag + '.err', 'rb') as fh:
            err = fh.read().decode('utf-8', 'replace')
        for ext in ('.json', '.log', '.err'):
            try:
                os.unlink(tag + ext)
            except OSError:
                pass
        if herr:
            raise RuntimeError(herr)
        if not ready:
            raise _NotReady('C06 child did not get ready (rc=%r, timed_out=%r, %.0f s): %s' % (rc, timed_out, secs, err[-1500:]))
        seg = {}
        if self.markers and '@@C06 BEGIN ' in err:
            parts = err.split('@@C06 BEGIN ')
            for part in parts[1:]:
                head, _, body = part.partition('\n')
                try:
                    seg[int(head)] = body
                except ValueError:
                    pass
            if begun >= 0 and begun not in obs:
                err = seg.get(begun, err)       # diagnostics of the case that was executing
        return dict(rc=rc, timed_out=timed_out, obs=obs, begun=begun, done=done, stderr=err, secs=secs, seg=seg)

    @staticmethod
    def _end_record(r, k):
        """process-level record of the case k that was executing when the child ended abnormally"""
        err = r['stderr']
        if 'ERROR: AddressSanitizer' in err:
            err = err[err.index('ERROR: AddressSanitizer') - 1:][:6000]
        elif len(err) > 6000:
            err = err[:3000] + '\n...\n' + err[-3000:]
        if r['timed_out']:
            return dict(end='hang', obs=None, secs=round(r['secs'], 1), stderr=err)
        if r['rc'] < 0:
            if _signame(-r['rc']) in ('SIGKILL', 'SIGTERM', 'SIGINT', 'SIGHUP'):
                raise RuntimeError('child was killed from outside (%s): no verdict' % _signame(-r['rc']))
            return dict(end='signal', sig=_signame(-r['rc']), obs=None, stderr=err)
        return dict(end='exit', rc=r['rc'], obs=None, stderr=err)

    def run_alone(self, case, timeout=None):
        r = self._child([case], timeout or HANG_LIMIT, cpu_floor=HANG_CPU)
        if 0 in r['obs'] and not r['timed_out'] and r['rc'] == 0:
            return dict(end='ok', obs=r['obs'][0], alone=True, stderr=_interesting_stderr(r['stderr']))
        if 0 in r['obs']:
            # the case itself completed; the process then died or hung in finalisation
            rec = self._end_record(r, 0)
            rec['after_case_completed'] = True
            rec['alone'] = True
            rec['obs'] = r['obs'][0]
            return rec
        rec = self._end_record(r, 0)
        rec['alone'] = True
        return rec

    def _store(self, out, i, case, rec):
        with self._lock:
            self.end_counts[rec['end']] = self.end_counts.get(rec['end'], 0) + 1
        out[i] = self.post(case, rec) if self.post else rec

    def _run_batch(self, idxs, cases, out):
        pending = list(idxs)
        while pending:
            if len(pending) == 1:
                self._store(out, pending[0], cases[pending[0]], self.run_alone(cases[pending[0]]))
                return
            r = self._child([cases[i] for i in pending], timeout=90 + 2.0 * len(pending),
                            cpu_floor=HANG_CPU + 0.2 * len(pending))
            for k, o in r['obs'].items():
                self._store(out, pending[k], cases[pending[k]],
                            dict(end='ok', obs=o, alone=False, stderr=_interesting_stderr(r['seg'].get(k, ''))))
            if r['done'] and r['rc'] == 0 and not r['timed_out']:
                missing = [i for k, i in enumerate(pending) if k not in r['obs']]
                if missing:
                    raise RuntimeError('child reported done but %d observations are missing' % len(missing))
                return
            k = r['begun']
            if k < 0:
                raise RuntimeError('child ended before the first case: rc=%r %s' % (r['rc'], r['stderr'][-800:]))
            if k in r['obs']:
                # all begun cases completed, the process died afterwards (between cases / in finalisation):
                # attribute to the history of this batch
                self.history_crashes.append(([cases[i] for i in pending[:k + 1]], self._end_record(r, k)))
                pending = pending[k + 1:]
                continue
            culprit = pending[k]
            alone = self.run_alone(cases[culprit])
            self._store(out, culprit, cases[culprit], alone)
            if alone['end'] == 'ok' and not r['timed_out']:
                # died in the batch, survives alone: the death depends on the cases executed before it
                self.history_crashes.append(([cases[i] for i in pending[:k + 1]], self._end_record(r, k)))
            pending = pending[k + 1:]

    def run_cases(self, cases, seed=0, post=None):
        self.post = post
        n = len(cases)
        out = [None] * n
        order = list(range(n))
        if seed:
            random.Random(seed).shuffle(order)
        hang = [i for i in order if predicted_risky(cases[i]) == 'hang']
        die = [i for i in order if predicted_risky(cases[i]) == 'die']
        norm = [i for i in order if predicted_risky(cases[i]) is None]
        bsz = max(1, min(150, -(-len(norm) // (self.nworkers * 6))))
        hang_q = collections.deque([i] for i in hang)
        main_q = collections.deque([norm[j:j + bsz] for j in range(0, len(norm), bsz)] + [[i] for i in die])
        errors = []
        lock = threading.Lock()
        state = dict(hanging=0)
        max_hanging = max(1, self.nworkers // 2)

        def take():
            with lock:
                if hang_q and (state['hanging'] < max_hanging or not main_q):
                    state['hanging'] += 1
                    return hang_q.popleft(), True
                if main_q:
                    return main_q.popleft(), False
                return None, False

        def worker():
            while True:
                job, is_hang = take()
                if job is None:
                    return
                try:
                    self._run_batch(job, cases, out)
                except BaseException as e:   # noqa
                    errors.append('%s: %s' % (type(e).__name__, e))
                finally:
                    if is_hang:
                        with lock:
                            state['hanging'] -= 1
        threads = [threading.Thread(target=worker, daemon=True) for _ in range(self.nworkers)]
        for t in threads:
            t.start()
        for t in threads:
            t.join()
        if errors:
            from mc.core import HarnessError
            raise HarnessError('C06 child runner: ' + errors[0][:2000])
        assert all(o is not None for o in out)
        return out


def _interesting_stderr(err):
    """Keep sanitizer / glibc diagnostics of a child that otherwise ended normally."""
    keep = [ln for ln in err.splitlines() if ('runtime error:' in ln or 'AddressSanitizer' in ln or 'malloc' in ln.lower()
                                                or 'free()' in ln or 'corrupt' in ln.lower())]
    return '\n'.join(keep[:20])


# ----------------------------------------------------------------------------------------------------------------
# oracle
# ----------------------------------------------------------------------------------------------------------------
EARLY_RAISE_SLUGS = [
    ('NotImplementedError', 'Requested solver', 'solve_for-unknown-name'),
    ('AttributeError', 'Unsupported number of solvers', 'solve_for-too-many'),
    ('ValueError', 'Invalid shape in axis 0', 'solve_for-empty'),
    ('TypeError', 'Expected str', 'solve_for-non-str'),
    ('ValueError', 'At least three layer slices', 'layer-with-3-or-fewer-slices'),
    ('ValueError', 'NaNs encountered after non-dimensionalize', 'nan-after-nondimensionalize'),
]
INTEGRATION_FAILURE_PREFIXES = ('Integration problem at layer', 'Integration failed', 'Error encountered while applying surface')


def judge_call(rec, case, viol):
    nd, rof = bool(case.get('nd', True)), bool(case.get('rof', False))
    tag = rec.get('call', '')
    d = dict(call=tag, outcome={k: rec.get(k) for k in ('kind', 'type', 'msg', 'success', 'exposed', 'cls') if k in rec})
    if rec['kind'] == 'exc':
        if not rec.get('is_exception'):
            viol.append(('C06/protocol/non-Exception-raised/%s' % rec.get('type'), d))
        if not rof and rec.get('type') == 'RuntimeError' and (rec.get('msg') or '').startswith(INTEGRATION_FAILURE_PREFIXES):
            viol.append(('C06/protocol/failure-raised-without-raise_on_fail', d))
    else:
        if rec.get('cls') != 'RadialSolverSolution':
            viol.append(('C06/protocol/returned-non-solution/%s' % rec.get('cls'), d))
        elif 'protocol_error' in rec:
            viol.append(('C06/protocol/solution-attribute-error', dict(d, error=rec['protocol_error'])))
        elif not rec.get('success'):
            if not rec.get('msg_is_str') or not (rec.get('msg') or '').strip():
                viol.append(('C06/protocol/failed-solve-without-message', d))
            if rec.get('exposed'):
                viol.append(('C06/protocol/failed-solve-exposes-result', d))
            if rof:
                viol.append(('C06/protocol/failed-solve-returned-under-raise_on_fail', d))
    worst = max(rec['ulp'])
    if worst > ULP_TOL:
        d2 = dict(d, max_ulp=rec['ulp'], nondim_signature_ulp=rec.get('nondim_sig_ulp'), example=rec.get('example'),
                  nondimensionalize=nd)
        if 'nondim_sig_error' in rec:
            raise RuntimeError('signature computation failed in child: ' + rec['nondim_sig_error'])
        if nd and rec.get('nondim_match') and rec['kind'] == 'exc':
            slug = 'other/%s' % rec.get('type')
            for typ, prefix, s in EARLY_RAISE_SLUGS:
                if rec.get('type') == typ and (rec.get('msg') or '').startswith(prefix):
                    slug = s
            viol.append(('C06/input-restore/early-raise/%s' % slug, d2))
        elif nd and rec.get('nondim_match'):
            viol.append(('C06/input-restore/left-nondimensionalised-on-return', d2))
        else:
            viol.append(('C06/input-restore/arrays-changed/%s' % ('raise' if rec['kind'] == 'exc' else 'return'), d2))
    return worst


def judge(case, proc, asan=False):
    """(case, process record) -> dict(status, viol, obs, worst_ulp)"""
    viol = []
    flt = case.get('fault', 'none')
    top = dyn_liquid_top(case['stack'])
    worst = 0.0
    desc = dict(stack=stack_name(case['stack']), end=proc['end'])
    err = proc.get('stderr') or ''
    rep = _asan_report(err) if asan else None
    if rep:
        desc['asan'] = rep
        if top and rep['kind'] == 'stack-buffer-overflow' and 'cf_apply_surface_bc' in rep['frames']:
            viol.append(('C06/asan/dynamic-liquid-top/stack-buffer-overflow-cf_apply_surface_bc', dict(desc)))
        elif flt == 'expected1' and 'CySolver__solve' in rep['frames']:
            viol.append(('C06/asan/expected_size-1-cyrk-storage-overflow', dict(desc)))
        elif (flt == 'empty_arrays' and rep['kind'] == 'heap-buffer-overflow' and 'READ of size 8' in rep['head']
              and rep['frames'].split(' ')[0].endswith('cf_radial_solver')):
            viol.append(('C06/asan/empty-arrays/oob-read-radius_array-minus-1-cf_radial_solver', dict(desc)))
        else:
            viol.append(('C06/asan/other/%s' % rep['kind'], dict(desc, stderr=err[-3000:])))
        obs = ('asan', rep['kind'])
    elif proc['end'] == 'signal':
        desc['signal'] = proc['sig']
        desc['stderr'] = err[:1500]
        if proc.get('after_case_completed'):
            viol.append(('C06/crash/after-case-completed/%s' % proc['sig'], desc))
        elif top and proc['sig'] in ('SIGSEGV', 'SIGABRT'):
            viol.append(('C06/crash/dynamic-liquid-top-surface-bc', desc))
        elif flt == 'expected1' and proc['sig'] in ('SIGSEGV', 'SIGABRT'):
            viol.append(('C06/crash/expected_size-1-cyrk-storage-overflow', desc))
        else:
            viol.append(('C06/crash/other/%s' % proc['sig'], desc))
        obs = ('signal', proc['sig'])
    elif proc['end'] == 'exit':
        desc['exit_status'] = proc['rc']
        desc['stderr'] = err[:1500]
        if flt == 'expected_huge' and proc['rc'] == 255 and not proc.get('after_case_completed'):
            viol.append(('C06/process-exit/expected_size-2^40-status255', desc))
        else:
            viol.append(('C06/process-exit/other/status%s' % proc['rc'], desc))
        obs = ('exit', proc['rc'])
    elif proc['end'] == 'hang':
        desc['limit_s'] = HANG_LIMIT
        desc['secs'] = proc.get('secs')
        if flt in HANG_FAULTS and not proc.get('after_case_completed'):
            viol.append(('C06/hang/radius_array0-zero-or-nan', desc))
        else:
            viol.append(('C06/hang/other', desc))
        obs = ('hang',)
    else:
        calls = proc['obs']['calls']
        sig = []
        for rec in calls:
            worst = max(worst, judge_call(rec, case, viol))
            sig.append((rec['kind'], rec.get('type'), (rec.get('msg') or '')[:48], rec.get('success'),
                        json.dumps(rec.get('love6')), rec.get('love_finite')))
        obs = ('ok', sig)
        if asan and proc.get('stderr'):
            ub = [ln for ln in proc['stderr'].splitlines() if 'runtime error:' in ln]
            if ub:
                viol.append(('C06/ubsan/%s' % _ubsan_kind(ub[0]), dict(desc, lines=ub[:5])))
    # worst restored deviation (for calibration): only over calls that are within tolerance
    w_ok = 0.0
    if proc['end'] == 'ok':
        w_ok = max([max(r['ulp']) for r in proc['obs']['calls'] if max(r['ulp']) <= ULP_TOL] or [0.0])
    info = None
    if proc['end'] == 'ok':
        r0 = proc['obs']['calls'][-1]
        if r0['kind'] == 'ret' and r0.get('success') and r0.get('love_finite') is False and flt != 'none':
            info = 'success=True with non-finite Love numbers'
    return dict(status='pass', viol=viol, obs=obs, worst_ulp=w_ok, info=info)


def _asan_report(err):
    if 'ERROR: AddressSanitizer' not in err:
        return None
    import re
    m = re.search(r'ERROR: AddressSanitizer: ([\w-]+)', err)
    kind = m.group(1) if m else 'unknown'
    frames = re.findall(r'#\d+ 0x[0-9a-f]+ in (\S+)', err)
    return dict(kind=kind, frames=' '.join(frames[:8]), head=err[err.index('ERROR: AddressSanitizer'):][:300])


def _ubsan_kind(line):
    import re
    m = re.search(r'runtime error: ([a-z -]+)', line)
    s = (m.group(1) if m else 'unknown').strip().replace(' ', '-')
    return s[:40]


# ----------------------------------------------------------------------------------------------------------------
# framework entry points
# ----------------------------------------------------------------------------------------------------------------
def run_case(case):
    """One case (or one recorded batch history) alone in a fresh child; deterministic."""
    if case.get('leg') == 'asan':
        return _run_case_asan(case)
    r = Runner(1)
    try:
        if case.get('kind') == 'batch':
            return _judge_history(r, case)
        proc = r.run_alone(case)
    finally:
        r.close()
    return judge(case, proc)


def replay(case):
    return run_case(case)['viol']


def _judge_history(runner, case):
    res = runner._child(case['cases'], timeout=HANG_LIMIT + 2 * len(case['cases']))
    viol = []
    if res['timed_out'] or res['rc'] != 0:
        rec = Runner._end_record(res, res['begun'])
        viol.append(('C06/crash/history-dependent', dict(end=rec['end'], sig=rec.get('sig'), rc=rec.get('rc'),
                                                         n_cases=len(case['cases']), stderr=rec['stderr'][:1500])))
    return dict(status='pass', viol=viol, obs=('history', len(case['cases'])))


_OUT = {}


def _lookup(case):
    return _OUT[json.dumps(case, sort_keys=True)]


def _feed(ctx, name, cases, results, rule, exhaustive=True):
    """Hand pre-computed verdicts to run_lattice (coverage accounting, violation registration) in-process."""
    from mc.core import run_lattice
    _OUT.clear()
    for c, r in zip(cases, results):
        _OUT[json.dumps(c, sort_keys=True)] = r
    saved_n, saved_seed = ctx.nworkers, ctx.seed
    ctx.nworkers, ctx.seed = 1, 0
    try:
        run_lattice(ctx, 'mc.props.C06:_lookup', cases, rule=rule, exhaustive=exhaustive)
    finally:
        ctx.nworkers, ctx.seed = saved_n, saved_seed
        _OUT.clear()


def _shrink_history(runner, cases):
    """A shorter suffix of the history that still kills its child (at most 6 halvings; else the whole history)."""
    best = cases
    for _ in range(6):
        if len(best) <= 2:
            break
        cand = best[len(best) // 2:]
        res = runner._child(cand, timeout=90 + 2 * len(cand))
        if res['timed_out'] or res['rc'] != 0:
            best = cand
        else:
            break
    return best


def run(ctx):
    global HANG_LIMIT
    t0 = time.time()
    if not ctx.thorough and 'C06_HANG_LIMIT' not in os.environ:
        # quick tier: a single case run alone is declared hung after 60 s wall (and >= 20 s CPU); every returning call of the
        # lattice needs < 1 s, so the margin is still 60x.  Thorough keeps 120 s.
        HANG_LIMIT = 60.0
        os.environ['C06_HANG_LIMIT'] = '60'
    if ctx.thorough and os.environ.get('C06_DEV_ONLY_ASAN') == '1':     # development switch, never set by ./check users
        return _asan_leg(ctx)
    subl = enumerate_cases(ctx.tier, ctx.seed)
    runner = Runner(ctx.nworkers)
    worst_ulp = 0.0
    infos = {}
    try:
        allcases = [c for _, cs in subl for c in cs]
        verdicts = runner.run_cases(allcases, seed=ctx.seed, post=judge)
        worst_ulp = max(v['worst_ulp'] for v in verdicts)
        for c, v in zip(allcases, verdicts):
            if v.get('info'):
                infos.setdefault(v['info'], []).append('%s %s nd=%d' % (stack_name(c['stack']), c['fault'], c['nd']))
        pos = 0
        for name, cs in subl:
            vs = verdicts[pos:pos + len(cs)]
            pos += len(cs)
            _feed(ctx, name, cs, vs, rule=RULES[name])
        # deaths that only occur after other cases ran in the same process
        for hist, rec in runner.history_crashes:
            small = _shrink_history(runner, hist)
            hc = dict(kind='batch', cases=small)
            v = _judge_history(runner, hc)
            for site, detail in v['viol']:
                ctx.violation(site, hc, detail)
        ctx.coverage['children_spawned'] = runner.children
        ctx.coverage['children_restarted_before_ready'] = runner.not_ready_retries
        ctx.coverage['history_dependent_deaths'] = len(runner.history_crashes)
    finally:
        runner.close()
    end_counts = dict(runner.end_counts)
    ctx.coverage['process_end_counts'] = end_counts
    ctx.coverage['worst_restored_deviation_ulp'] = worst_ulp
    ctx.coverage['tolerance_ulp'] = ULP_TOL
    ctx.coverage['hang_limit_s'] = HANG_LIMIT
    ctx.coverage['information_only'] = {k: dict(n=len(v), examples=v[:5]) for k, v in infos.items()}
    ctx.note('plain leg: %d cases in %d children, %.0f s; process ends %s; worst restored deviation %.1f ulp'
             % (len(allcases), runner.children, time.time() - t0, end_counts, worst_ulp))
    for k, v in infos.items():
        ctx.note('information only (not asserted by C06): %s in %d cases, e.g. %s' % (k, len(v), v[:3]))
    if ctx.thorough and os.environ.get('C06_NO_ASAN') != '1':
        _asan_leg(ctx)


RULES = {
    'asan': 'ASan/UBSan leg: the quick-tier lattice (A, B, C without the two hang inputs) re-run against a shadow copy of '
            'the package whose RadialSolver + nondimensional extensions are rebuilt with -fsanitize=address,undefined, '
            'under LD_PRELOAD=libasan, PYTHONMALLOC=malloc',
    'A:stacks': 'A: all 584 layer stacks of 1-3 layers over {solid,liquid}x{static,dynamic}x{incompressible,compressible} '
                '(liquid surface layers included) x no fault x nondimensionalize x raise_on_fail x use_kamata (quick: '
                'Takeuchi start only with nd=T,rof=F; dynamic-liquid-top stacks only (nd,rof,kam) in {(T,F,T),(F,T,F)}), '
                'each in a child process',
    'B:faults': 'B: fault menu (%d argument faults + %d array-entry faults) x nd x rof x stacks (quick: 5 base stacks; '
                'thorough: all 438 stacks without a dynamic-liquid top + 2 with); the 2 hang inputs on base stacks only, '
                'expected_size in {1,2**40} on stacks of <= 2 layers + base stacks only'
                % (len(ARG_FAULTS), len(ARR_FAULTS)),
    'C:sequences': 'C: two calls on the SAME arrays, (fault, good) and (good, fault), for every argument fault x nd (x rof '
                   'thorough) on base stacks; distinct = distinct observable outcome (process end, returned/raised type, '
                   'message head, success flag, Love numbers to 6 digits)',
}


# ----------------------------------------------------------------------------------------------------------------
# thorough tier: AddressSanitizer / UBSan shadow build
# ----------------------------------------------------------------------------------------------------------------
ASAN_FLAGS = ('-fsanitize=address,undefined', '-O1', '-g', '-fno-omit-frame-pointer')
ASAN_EXIT = 86


def _asan_wanted(name):
    return name.startswith('TidalPy.RadialSolver.') or name == 'TidalPy.utilities.dimensions.nondimensional'


def build_shadow(shadow):
    """Shadow copy of <VERIF_REPO>/TidalPy under `shadow` (no .c/.pyx/caches) whose RadialSolver extensions are
    rebuilt from the tree's .c files with ASan+UBSan.  Returns (env for children, info) or (None, reason)."""
    from mc import build
    repo = env.REPO
    libasan = subprocess.run(['gcc', '-print-file-name=libasan.so'], capture_output=True, text=True).stdout.strip()
    if not libasan or not os.path.isabs(libasan) or not os.path.exists(libasan):
        return None, 'libasan.so not found'
    t0 = time.time()
    shutil.copytree(os.path.join(repo, 'TidalPy'), os.path.join(shadow, 'TidalPy'),
                    ignore=shutil.ignore_patterns('*.c', '*.pyx', '*.pxd', '__pycache__', '*.html', '*.tmp'))
    exts = [e for e in build._exts(repo) if _asan_wanted(e['name'])]
    if not exts:
        return None, 'no RadialSolver extensions listed'

    def comp(e):
        out = os.path.join(shadow, os.path.relpath(e['so'], repo))
        return e['name'], build._compile(e, repo, extra_flags=ASAN_FLAGS, out=out)
    from concurrent.futures import ThreadPoolExecutor
    with ThreadPoolExecutor(min(16, len(exts))) as ex:
        res = list(ex.map(comp, exts))
    bad = [(n, err) for n, (ok, err) in res if not ok]
    if bad:
        return None, 'ASan compile failed for %s: %s' % (bad[0][0], bad[0][1][-400:])
    child_env = dict(VERIF_REPO=shadow, LD_PRELOAD=libasan, PYTHONMALLOC='malloc', PYTHONFAULTHANDLER='0',
                     ASAN_OPTIONS='detect_leaks=0:exitcode=%d:allocator_may_return_null=1:detect_stack_use_after_return=0' % ASAN_EXIT,
                     UBSAN_OPTIONS='print_stacktrace=0', MALLOC_CHECK_='0', MALLOC_PERTURB_='0')
    return child_env, dict(instrumented=[n for n, _ in res], build_s=round(time.time() - t0, 1))


def asan_cases(seed):
    out = []
    for name, cs in enumerate_cases('quick', seed):
        for c in cs:
            if c['fault'] in HANG_FAULTS:
                continue
            out.append(dict(c, leg='asan'))
    return out


def _asan_leg(ctx):
    t0 = time.time()
    shadow = tempfile.mkdtemp(prefix='c06-asan-', dir='/dev/shm')
    runner = None
    try:
        child_env, info = build_shadow(shadow)
        if child_env is None:
            ctx.note('ASan leg skipped: %s' % info)
            ctx.coverage['asan_leg'] = dict(ran=False, reason=str(info))
            return
        runner = Runner(ctx.nworkers, env_extra=child_env, markers=True)
        cases = asan_cases(ctx.seed)
        verdicts = runner.run_cases(cases, seed=ctx.seed, post=lambda c, p: judge(c, p, asan=True))
        _feed(ctx, 'asan', cases, verdicts, rule=RULES['asan'])
        for hist, rec in runner.history_crashes:
            hc = dict(kind='batch', cases=hist, leg='asan')
            ctx.violation('C06/asan/history-dependent-death', hc, dict(end=rec['end'], stderr=rec['stderr'][:2000]))
        ends = dict(runner.end_counts)
        ctx.coverage['asan_leg'] = dict(ran=True, cases=len(cases), children=runner.children, process_end_counts=ends,
                                        flags=' '.join(ASAN_FLAGS), **info)
        ctx.note('ASan/UBSan leg: %d cases in %d children, %.0f s (build %.0f s); process ends %s'
                 % (len(cases), runner.children, time.time() - t0, info['build_s'], ends))
    finally:
        if runner is not None:
            runner.close()
        shutil.rmtree(shadow, ignore_errors=True)


def _run_case_asan(case):
    shadow = tempfile.mkdtemp(prefix='c06-asan-', dir='/dev/shm')
    runner = None
    try:
        child_env, info = build_shadow(shadow)
        if child_env is None:
            raise RuntimeError('cannot build the ASan shadow copy: %s' % info)
        runner = Runner(1, env_extra=child_env, markers=True)
        if case.get('kind') == 'batch':
            res = runner._child(case['cases'], timeout=HANG_LIMIT + 5 * len(case['cases']))
            viol = []
            if res['timed_out'] or res['rc'] != 0:
                viol.append(('C06/asan/history-dependent-death', dict(rc=res['rc'], stderr=res['stderr'][-2000:])))
            return dict(status='pass', viol=viol, obs=('history', len(case['cases'])))
        return judge(case, runner.run_alone(case), asan=True)
    finally:
        if runner is not None:
            runner.close()
        shutil.rmtree(shadow, ignore_errors=True)
