"""C02 -- every successful radial solution satisfies the requested surface boundary condition, is continuous across
every internal interface in the components both sides define, has zero shear stress on the solid side of every
solid/liquid interface, carries the potential through static liquid layers, and the block of each solution type is
independent of which other types were requested with it.

E1 lattice, exhaustive over layer stacks: ALL stacks of 1..n layers over {solid, liquid} x {static, dynamic} x
{compressible, incompressible} with a SOLID top layer x l x material profile x frequency (x nondimensionalize).
One case = one stack at one (l, profile, frequency, nondimensionalize): it runs the real `radial_solver` for every
`solve_for` tuple of its mode (11 tuples for stacks <= 2 layers: the 7 non-empty subsets of {tidal, loading, free}, the
multi-element ones in 2 orders; 4 tuples for deeper stacks: the joint solve and the three single-type solves) plus one
convergence-gate solve (rtol/100, atol/100).

Oracle, per ytype block of `.result` (shape (6*num_ytypes, n_slices); block i belongs to solve_for[i]) -- all closed form
or relations between slices / between two real runs, nothing is taken from the code under test:
  (0) layout: `.result` has the documented shape, `solution[name]` is block i of `.result`, `.love[i]` =
      (y5-1, y1 g_s, y3 g_s) of block i at the last slice;
  (1) last slice (solid top): y2 = S1, y4 = S4, y6 = S6 with (S1,S4,S6) = tidal (0,0,(2l+1)/R),
      loading (-(2l+1) rho_bar/3, 0, (2l+1)/R), free (0,0,0) in SI (returned) units; residuals on the natural scale of each row
      (stress rows: (K+|mu|)(|y1|+|y3|)/R and |S1|; y6 row: (2l+1)/R, |y5|/R, 4 pi G rho |y1|);
  (2) every internal boundary on the tight grid (first slice of the upper layer at r_i (1+1e-9)): top slice of the lower layer
      vs first slice of the upper layer: y1..y6 across solid/solid; y1,y2,y5,y6 across solid/dynamic-liquid and
      dynamic/dynamic liquid; y5 across every boundary touching a static liquid; y4 = 0 on the solid side of every
      solid/liquid boundary; NaN pattern: in every slice of every layer a component is NaN iff the layer type does not
      define it (solid: none; dynamic liquid: y4; static liquid: all but y5);
  (3) independence: block of type T in any multi-type solve == block of the solve for T alone (1e-12 relative to the row).
"""
import itertools
import math
import os

LEVEL = 'exploration'
ASSUMPTIONS = [
    'SOLID-top stacks only: every stack whose top layer is liquid is excluded -- a dynamic-liquid top layer kills the '
    'interpreter with SIGSEGV (known C06 finding, swapped liquid surface matrices in boundaries.pyx); C06 runs liquid tops in '
    'child processes',
    'stacks whose first layer cannot be started (NotImplementedError of the starting driver: Kamata static-incompressible solid '
    'core; Takeuchi incompressible core other than a static liquid) are inadmissible by the code\'s own rule; Takeuchi '
    'starting vectors are enumerated for stacks <= 2 layers (quick) / <= 3 layers (thorough), deeper stacks use Kamata only (the '
    'surface/interface algebra under test does not depend on the starting family)',
    'asserted only for cases whose solves all succeed and that pass the convergence gate (joint solve repeated with rtol/100, '
    'atol/100 changes no Love number by more than 1e-4): dynamic liquid layers at low frequency are unstable (documented) and '
    'are removed by the gate, counted, never asserted',
    'continuous parameters (densities, moduli, layer radii, frequency) are decided on the stated menu only (2 material '
    'profiles x frequencies {1e-4, 1e-3}; the seed rotates a scale factor on the profile); planets on the tight grid of mc/rs.py',
    '5-layer stacks (thorough) are restricted to {solid,liquid} x {static,dynamic}, all layers compressible, l=2, one profile, '
    'one frequency',
]

G = 6.67430e-11
R_PLANET = 6.0e6
N_SLICES = 20
RTOL, ATOL = 1e-8, 1e-12
MAX_STEPS = 100000
METHOD = 'DOP853'

# ---- tolerances (calibrated on the pristine tree: thorough lattice, seeds 0..4; worst measured values in the report) ------
GATE = 1e-4            # admission: joint solve at (rtol, atol) vs (rtol/100, atol/100), max |dLove| / max(1, |Love|)
TOL_SURF = 1e-7        # surface rows, relative to the natural scale of the row
TOL_JUMP = 1e-7        # interface continuity, relative to max(|lower|, |upper|, 1e-6 * row maximum)
TOL_Y4 = 1e-7          # y4 on the solid side of a solid/liquid boundary, relative to |mu|(|y1|+|y3|)/r
TOL_INDEP = 1e-12      # joint block vs single-type block, relative to the row maximum
TOL_LOVE = 1e-12       # .love vs last slice of .result

TYPES = ('tidal', 'loading', 'free')
SEED_FACTORS = [1.0, 1.07, 0.93, 1.31, 0.77, 1.19]

# kind code: S/L (solid/liquid) + s/d (static/dynamic) + c/i (compressible/incompressible)
KINDS = [t + s + c for t in 'SL' for s in 'sd' for c in 'ci']
KINDS4 = [t + s + 'c' for t in 'SL' for s in 'sd']


def solve_for_menu(mode):
    if mode == 'full':
        out = [(t,) for t in TYPES]
        for a, b in itertools.combinations(TYPES, 2):
            out += [(a, b), (b, a)]
        out += [TYPES, TYPES[::-1]]
        return out
    return [TYPES] + [(t,) for t in TYPES]


def stacks(n, kinds=KINDS):
    """all solid-top stacks of exactly n layers (innermost first)"""
    for st in itertools.product(kinds, repeat=n):
        if st[-1][0] == 'S':
            yield st


def cases(tier, seed):
    out = []

    def add(st, ls, profs, ws, nds, mode, kams=(True,)):
        for l in ls:
            for p in profs:
                for w in ws:
                    for nd in nds:
                        for kam in kams:
                            out.append(dict(stack='/'.join(st), l=l, prof=p, w=w, nd=nd, kam=kam, mode=mode,
                                            seed=seed % len(SEED_FACTORS)))

    LS, PR, WS = [2, 3], ['smooth', 'contrast'], [1e-3, 1e-4]
    if tier == 'quick':
        for n in (1, 2):
            for st in stacks(n):
                add(st, LS, PR, WS, [True, False], 'full', (True, False))
        for comp in 'ci':
            for st in stacks(3, [k[:2] + comp for k in KINDS4]):
                add(st, LS, PR, WS, [True], 'joint')
    else:
        for n in (1, 2):
            for st in stacks(n):
                add(st, LS, PR, WS, [True, False], 'full', (True, False))
        for st in stacks(3):
            add(st, LS, PR, WS, [True, False], 'joint', (True, False))
        for st in stacks(4):
            add(st, LS, PR, WS, [True], 'joint')
        for st in stacks(5, KINDS4):
            add(st, [2], ['contrast'], [1e-3], [True], 'joint')
    return out


# ---- planet ------------------------------------------------------------------------------------------------------
def build(case):
    from mc import rs
    st = case['stack'].split('/')
    n = len(st)
    f = SEED_FACTORS[case['seed']]
    layers = []
    for i, k in enumerate(st):
        x = i / (n - 1) if n > 1 else 0.5
        if case['prof'] == 'smooth':
            rho = (9000. - 5000. * x) * f
            mu = (6e10 + 6e8j) * (1. - 0.3 * x) * f
            K = 2e11 * (1. - 0.3 * x) * f
        else:
            rho = 13000. * 0.4 ** i * f
            mu = (2e11 + 2e9j) * f if i % 2 == 0 else (3e9 + 1.5e9j) * f
            K = 5e11 * f if i % 2 == 0 else 1e11 * f
        if k[0] == 'L':
            mu = 0j
        layers.append((R_PLANET * (i + 1) / n, rho, mu, K))
    arrs, rhob, tops = rs.layered_planet(layers, N=N_SLICES, tight=True)
    types = tuple('solid' if k[0] == 'S' else 'liquid' for k in st)
    stat = tuple(k[1] == 's' for k in st)
    inc = tuple(k[2] == 'i' for k in st)
    return st, layers, arrs, rhob, tops, types, stat, inc


def _solve(f, arrs, w, rhob, types, stat, inc, tops, l, solve_for, nd, rtol, atol, kam=True):
    """returns ('ok', result, love, named blocks) | ('fail', msg) | ('exc', type, msg)"""
    import numpy as np
    a = tuple(np.array(x, copy=True) for x in arrs)
    try:
        out = f(*a, float(w), float(rhob), types, stat, inc, tops, degree_l=l, solve_for=solve_for, use_kamata=kam,
                integration_method=METHOD, integration_rtol=rtol, integration_atol=atol, max_num_steps=MAX_STEPS,
                nondimensionalize=nd)
    except Exception as e:  # the code under test; classified by the caller
        return ('exc', type(e).__name__, str(e)[:200])
    if not out.success:
        return ('fail', str(out.message)[:200])
    res = np.array(out.result, copy=True)
    love = np.array(out.love, copy=True)
    named = {name: np.array(out[name], copy=True) for name in set(solve_for)}
    return ('ok', res, love, named)


DEFINED = {'S': (0, 1, 2, 3, 4, 5), 'Ld': (0, 1, 2, 4, 5), 'Ls': (4,)}


def _defined(kind):
    return DEFINED['S'] if kind[0] == 'S' else DEFINED[kind[:2]]


def run_case(case):
    from mc import env
    env.tidalpy()
    import numpy as np
    from mc import rs
    f = rs.radial_solver()
    st, layers, arrs, rhob, tops, types, stat, inc = build(case)
    n = len(st)
    l, w, nd = case['l'], case['w'], case['nd']
    R = R_PLANET
    r, rho_a, g_a, K_a, mu_a = arrs
    nsl = len(r)
    viol = []
    meas = {}

    def m(key, val):
        if val == val and val > meas.get(key, 0.0):
            meas[key] = float(val)

    def V(site, **detail):
        if len(viol) < 12:
            viol.append((site, detail))

    kam = case.get('kam', True)
    # the starting driver's own rule: static liquids always start with Saito; Kamata has no static incompressible solid;
    # Takeuchi has no incompressible start at all
    expect_ni = (st[0] == 'Ssi') if kam else (st[0][2] == 'i' and st[0][:2] != 'Ls')
    menu = solve_for_menu(case['mode'])
    sols = {}
    for sf in menu:
        s = _solve(f, arrs, w, rhob, types, stat, inc, tops, l, sf, nd, RTOL, ATOL, kam)
        if s[0] == 'exc':
            if s[1] == 'NotImplementedError' and expect_ni:
                return dict(status='inadmissible:start-not-implemented', viol=[], obs=None)
            V(f'C02/exception/{s[1]}', solve_for=sf, msg=s[2])
            return dict(status='pass', viol=viol, obs=('exc', case['stack']))
        if s[0] == 'fail':
            return dict(status='inadmissible:solver-failed', viol=[], obs=None, msg=s[1])
        sols[sf] = s
    # convergence gate on the joint solve
    sg = _solve(f, arrs, w, rhob, types, stat, inc, tops, l, TYPES, nd, RTOL / 100., ATOL / 100., kam)
    if sg[0] != 'ok':
        return dict(status='inadmissible:gate-solve-failed', viol=[], obs=None)
    lj, lg = sols[TYPES][2], sg[2]
    if not (np.all(np.isfinite(lj)) and np.all(np.isfinite(lg))):
        gate = float('inf')
    else:
        gate = float(np.max(np.abs(lj - lg) / np.maximum(1.0, np.abs(lj))))
    if not gate <= GATE:
        return dict(status='inadmissible:gate', viol=[], obs=None, gate=gate)
    m('gate', gate)
    meas['gate_val'] = gate

    # layer slice ranges (tight grid of mc.rs: N slices per layer)
    starts = [i * N_SLICES for i in range(n)]
    ends = [s0 + N_SLICES for s0 in starts]       # exclusive
    assert ends[-1] == nsl
    g_s = float(g_a[-1])
    bc = {'tidal': (0.0, 0.0, (2 * l + 1) / R), 'loading': (-(2 * l + 1) * rhob / 3.0, 0.0, (2 * l + 1) / R),
          'free': (0.0, 0.0, 0.0)}

    for sf, (_, res, love, named) in sols.items():
        tag = '+'.join(t[0] for t in sf)
        # (0) layout
        if res.shape != (6 * len(sf), nsl) or love.shape != (len(sf), 3):
            V('C02/layout/shape', solve_for=sf, shape=res.shape, love_shape=love.shape)
            continue
        for ti, name in enumerate(sf):
            Y = res[6 * ti:6 * ti + 6]
            if not np.array_equal(named[name], Y, equal_nan=True):
                V('C02/layout/getitem', solve_for=sf, name=name)
            # love numbers come from the last slice of this block
            want = np.array([Y[4, -1] - 1.0, Y[0, -1] * g_s, Y[2, -1] * g_s])
            dl = float(np.max(np.abs(love[ti] - want) / np.maximum(1.0, np.abs(want)))) if np.all(np.isfinite(want)) else float('inf')
            m('love', dl)
            if not dl <= TOL_LOVE:
                V('C02/layout/love-vs-surface', solve_for=sf, name=name, love=love[ti], from_result=want)
            # (1) surface
            S1, S4, S6 = bc[name]
            y = Y[:, -1]
            mu_t, K_t, rho_t = abs(mu_a[-1]), float(K_a[-1]), float(rho_a[-1])
            sc_st = (K_t + mu_t) * (abs(y[0]) + abs(y[2])) / R
            sc2 = max(sc_st, abs(S1))
            sc4 = sc_st
            sc6 = max(abs(S6), abs(y[4]) / R, 4 * math.pi * G * rho_t * abs(y[0]))
            for comp, val, tgt, sc in ((2, y[1], S1, sc2), (4, y[3], S4, sc4), (6, y[5], S6, sc6)):
                d = abs(val - tgt)
                rel = 0.0 if d == 0 else (d / sc if sc > 0 else float('inf'))
                m(f'surf-y{comp}', rel)
                if not rel <= TOL_SURF:
                    V(f'C02/surface/{name}/y{comp}', solve_for=sf, got=complex(val), want=tgt, rel=rel, scale=sc)
            # (2) NaN pattern, whole layers
            for li in range(n):
                dd = _defined(st[li])
                blk = Y[:, starts[li]:ends[li]]
                for c in range(6):
                    isn = np.isnan(blk[c])
                    if c in dd and isn.any():
                        V(f'C02/nan-pattern/defined-component-is-nan/{st[li][:2]}', solve_for=sf, name=name, layer=li,
                          comp=c + 1, slices=int(isn.sum()))
                    if c not in dd and not isn.all():
                        V(f'C02/nan-pattern/undefined-component-has-value/{st[li][:2]}', solve_for=sf, name=name, layer=li,
                          comp=c + 1, slices=int((~isn).sum()))
            # (2) interfaces
            for li in range(n - 1):
                a, b = ends[li] - 1, starts[li + 1]
                lo, up = st[li], st[li + 1]
                dlo, dup = _defined(lo), _defined(up)
                pair = lo[:2] + '-' + up[:2]
                if lo[0] == 'S' and up[0] == 'S':
                    comps = (0, 1, 2, 3, 4, 5)
                elif 'Ls' in (lo[:2], up[:2]):
                    comps = (4,)
                else:
                    comps = (0, 1, 4, 5)
                for c in comps:
                    assert c in dlo and c in dup
                    rows = Y[c, starts[li]:ends[li + 1]]
                    rowmax = float(np.nanmax(np.abs(rows))) if np.isfinite(rows).any() else 0.0
                    sc = max(abs(Y[c, a]), abs(Y[c, b]), 1e-6 * rowmax)
                    d = abs(Y[c, a] - Y[c, b])
                    rel = 0.0 if d == 0 else (d / sc if sc > 0 else float('inf'))
                    if not (d == d):
                        rel = float('inf')
                    m(f'jump-{pair}', rel)
                    if not rel <= TOL_JUMP:
                        V(f'C02/interface/{pair}/jump-y{c + 1}', solve_for=sf, name=name, boundary=li, lower=complex(Y[c, a]),
                          upper=complex(Y[c, b]), rel=rel)
                if (lo[0] == 'S') != (up[0] == 'S'):
                    ix = a if lo[0] == 'S' else b
                    sc = abs(mu_a[ix]) * (abs(Y[0, ix]) + abs(Y[2, ix])) / r[ix]
                    d = abs(Y[3, ix])
                    rel = 0.0 if d == 0 else (d / sc if sc > 0 else float('inf'))
                    if not (d == d):
                        rel = float('inf')
                    m(f'y4-{pair}', rel)
                    if not rel <= TOL_Y4:
                        V(f'C02/interface/{pair}/y4-nonzero-on-solid-side', solve_for=sf, name=name, boundary=li,
                          y4=complex(Y[3, ix]), rel=rel, scale=sc)
        # (3) independence
        if len(sf) > 1:
            for ti, name in enumerate(sf):
                Y = res[6 * ti:6 * ti + 6]
                Y1 = sols[(name,)][1]
                if not np.array_equal(np.isnan(Y), np.isnan(Y1)):
                    V(f'C02/independence/{name}/nan-pattern', solve_for=sf)
                    continue
                rowmax = np.nanmax(np.abs(Y1), axis=1)
                rowmax = np.where(np.isfinite(rowmax), rowmax, 0.0)
                diff = np.nanmax(np.abs(np.nan_to_num(Y - Y1, nan=0.0, posinf=np.inf, neginf=np.inf)), axis=1)
                with np.errstate(all='ignore'):
                    rel = np.where(diff == 0, 0.0, diff / rowmax)
                worst = float(np.max(rel)) if np.all(rel == rel) else float('inf')
                m('indep', worst)
                if not worst <= TOL_INDEP:
                    V(f'C02/independence/{name}/block-differs-from-single-solve', solve_for=sf, rel=worst, in_joint=tag)
                dlv = float(np.max(np.abs(love[ti] - sols[(name,)][2][0])))
                if not dlv <= TOL_INDEP * max(1.0, float(np.max(np.abs(love[ti])))):
                    V(f'C02/independence/{name}/love-differs-from-single-solve', solve_for=sf, diff=dlv)
    lv = sols[TYPES][2]
    obs = (case['stack'], case['l'], case['prof'], case['w'], case['nd'], kam,
           [round(float(x.real), 9) for x in lv[0]], [round(float(x.imag), 9) for x in lv[0]])
    out = dict(status='pass', viol=viol, obs=obs)
    if os.environ.get('VERIF_CALIB'):
        out['meas'] = meas
    return out


def replay(case):
    return run_case(case)['viol']


def run(ctx):
    from mc.core import run_lattice
    cs = cases(ctx.tier, ctx.seed)
    nst = len({c['stack'] for c in cs})
    rule = ('ALL solid-top layer stacks over {solid,liquid}x{static,dynamic}x{compressible,incompressible}: '
            + ('1-2 layers (x nondimensionalize T/F x Kamata/Takeuchi start, 11 solve_for tuples each) + all 3-layer stacks over {solid,liquid}x'
               '{static,dynamic} with all layers compressible / all incompressible (4 solve_for tuples)'
               if ctx.tier == 'quick' else
               '1-2 layers (x nd T/F x Kamata/Takeuchi, 11 solve_for tuples), 3 layers (x nd T/F x Kamata/Takeuchi) and 4 layers (4 solve_for tuples), plus all '
               '5-layer stacks over {solid,liquid}x{static,dynamic} (compressible, l=2, one profile, one frequency)')
            + f' = {nst} stacks x l{{2,3}} x profile{{smooth,contrast}} x frequency{{1e-3,1e-4}}; every case also runs a '
              'convergence-gate solve; distinct = distinct (stack, l, profile, frequency, nd, start family, tidal k/h/l rounded to 1e-9) among admitted cases')
    res = run_lattice(ctx, 'mc.props.C02:run_case', cs, rule=rule, exhaustive=True, min_admitted_frac=0.4)
    calib = os.environ.get('VERIF_CALIB')
    if calib:
        import json
        worst = {}
        for c, r_ in zip(cs, res):
            for k, v in (r_.get('meas') or {}).items():
                if k == 'gate_val':
                    continue
                if v > worst.get(k, (0.0, None))[0]:
                    worst[k] = (v, c['stack'] + f" l={c['l']} {c['prof']} w={c['w']} nd={c['nd']} kam={c['kam']}")
        gates = sorted(((r_.get('gate'), c['stack'], c['w']) for c, r_ in zip(cs, res) if r_.get('gate') is not None),
                       key=lambda t: -t[0] if t[0] == t[0] else 0)
        hist = {}
        for c, r_ in zip(cs, res):
            gv = r_.get('gate', (r_.get('meas') or {}).get('gate_val'))
            if gv is not None:
                b = 'inf' if not gv < 1e300 else ('0' if gv <= 0 else str(int(math.floor(math.log10(gv)))))
                hist[b] = hist.get(b, 0) + 1
        worst['gate_hist_log10'] = hist
        with open(calib, 'w') as fh:
            json.dump(dict(worst=worst, n_gate_rejected=len(gates), gate_rejected_sample=gates[:10] + gates[-10:]), fh, indent=1, default=str)
