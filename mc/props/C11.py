"""C11 -- spin-orbit evolution rates conserve energy and (at zero obliquity) angular momentum.

E1 lattice.  A *configuration* is (entry point, rheology, mass pair, l_max, truncation, obliquity slot, MOI factor, separation);
inside a configuration the complete grid (spin ratios) x e is executed with scalar inputs and through array inputs.  The worker
pool is fed one bundle (entry, rheology, mass pair) per task (TidalPy's compliance helpers cannot be cached by numba; bundling
along the rheology keeps the JIT cost per worker small).

Entry points: 'single' = quick_tidal_dissipation(..., calculate_orbit_spin_derivatives=True);
              'dual'   = quick_dual_body_tidal_dissipation(...);
              'bare'   = TidalPy.dynamics.{spin_rate_derivative, semi_major_axis_derivative(_dual), eccentricity_derivative(_dual),
                         semia_eccen_derivatives(_dual)} fed with the potential derivatives of calculate_orbit_spin_derivatives=False runs.

Oracles (nothing but Kepler's third law and the definitions of orbital energy / angular momentum is used):
  energy            G m1 m2 /(2 a^2) da/dt + sum_i C_i spin_i dspin_i/dt + sum_i heating_i = 0          [energy-balance]
  angular momentum  (obliquity None / 0)   L (da/dt /(2a) - e de/dt /(1-e^2)) + sum_i C_i dspin_i/dt = 0,
                    L = m1 m2/(m1+m2) sqrt(G (m1+m2) a (1-e^2))                                      [angular-momentum-balance]
  both relative to the sum of the absolute terms (never below the sum of |mode terms| of the reference mode table, and never
  below 1e-20 of the full-amplitude scale (3/2) G M^2 R^5/a^6);
  de/dt at e = 0 is finite and equals 0, scalar and array input                                      [dedt-at-e0/*]
  array results equal the element-wise scalar calls                                                  [array-vs-scalar]
  bare: combined function == separate functions, dual(silent host) == single                         [combined-vs-separate]
"""
import math

LEVEL = 'exploration'
ASSUMPTIONS = [
    'continuous parameters (masses, MOI factor, a, spin ratios, e, obliquity, viscosity) are decided on the stated grid only',
    'calls that die with one of the two C10 defects (lossless body with float Love numbers; newton compliance with a kept '
    'zero-frequency mode) are counted as not admitted here -- C10 reports them',
    'angular momentum is asserted only for obliquity None or 0 (spin axes normal to the orbit), as the property states',
]

G = 6.6743e-11
TOL = 1e-10
TOL_ARR = 1e-11

PAIRS = [(1.0e30, 6.0e24), (6.0e24, 7.0e22), (1.0e24, 1.0e24)]
MOI = [0.2, 0.4]
SEP = [3.0, 30.0]                                  # a = SEP * (R1 + R2)
RHEOS = {'maxwell': (), 'andrade': (0.3, 1.0), 'burgers': (0.2, 0.02), 'sundberg': (0.2, 0.02, 0.3, 1.0),
         'voigt': (0.2, 0.02), 'newton': (), 'elastic': (), 'off': (), 'cpl': (), 'ctl': ()}
LMAX = [2, 3, 4, 5, 6, 7]
TRUNC = [2, 6, 20]
OBLIQ = [None, 0.0, 0.1, 0.7, math.pi / 2]
OBLIQ_QUICK = [None, 0.0, 0.7]
SPIN = [1.0, 0.5, -1.5, 0.7312, 0.0, 2.0, 1.0 + 1e-9, 3.0]
SPIN_QUICK = [1.0, 0.5, -1.5, 0.7312]
ECC = [0.0, 0.01, 0.1, 0.3, 0.5]
ECC_QUICK = [0.0, 0.1, 0.5]
VISC_RATIO = [1.0, 0.1, 10.0, 0.01, 100.0]
SEED_FACTOR = [1.0, 1.07, 0.93, 1.31, 0.77, 1.9]
SHEAR = 6.0e10


def configs(tier, seed, pair):
    """The configuration sub-lattice run inside one case: l_max x truncation x obliquity slot x (MOI factor, separation)."""
    thorough = tier == 'thorough'
    obls = OBLIQ if thorough else OBLIQ_QUICK
    out = []
    for lmax in LMAX:
        for N in TRUNC:
            for ob in obls:
                if thorough:
                    combos = [(moi, sep) for moi in MOI for sep in SEP]
                else:                       # physical grids cut: one MOI factor / separation per configuration, rotated
                    combos = [(MOI[(pair + seed + N // 2) % 2], SEP[(pair + lmax + seed) % 2])]
                for moi, sep in combos:
                    out.append(dict(lmax=lmax, N=N, obl=ob, moi=moi, sep=sep))
    return out


def cases(tier, seed):
    """One case = (entry point, rheology, mass pair); it runs the whole configuration sub-lattice (cut along the rheology because the
    compliance helpers of TidalPy are numba functions without an on-disk cache: ~5 s JIT per rheology and worker process)."""
    f = SEED_FACTOR[seed % len(SEED_FACTOR)]
    x = VISC_RATIO[seed % len(VISC_RATIO)]
    return [dict(entry=entry, rheo=rheo, pair=pi_, x=x, f=f, tier=tier, seed=seed)
            for pi_ in range(len(PAIRS)) for entry in ('single', 'dual', 'bare') for rheo in RHEOS]


def _body(mass, f):
    rho = (1400.0 if mass > 1e28 else (5500.0 if mass > 1e24 else 3300.0)) * f
    R = (3.0 * mass / (4.0 * math.pi * rho)) ** (1.0 / 3.0)
    return dict(m=mass, rho=rho, R=R, g=G * mass / R ** 2)


def _is_arr(x):
    import numpy as np
    return isinstance(x, np.ndarray)


class _Viol:
    def __init__(self):
        self.d = {}

    def add(self, site, detail):
        if site in self.d:
            self.d[site]['count'] += 1
        else:
            detail = dict(detail)
            detail['count'] = 1
            self.d[site] = detail

    def list(self):
        return [(s, d) for s, d in self.d.items()]


def _run_config(c):
    import numpy as np
    from mc.refmodels import mode_sum as ms
    from TidalPy.tides.modes.mode_manipulation import find_mode_manipulators
    from TidalPy.toolbox.quick_tides import quick_dual_body_tidal_dissipation, quick_tidal_dissipation
    from TidalPy.dynamics import single_dissipation as sd, dual_dissipation as dd

    entry, rheo, lmax, N, obl = c['entry'], c['rheo'], c['lmax'], c['N'], c['obl']
    f = c['f']
    m1, m2 = PAIRS[c['pair']]
    B = [_body(m1, f), _body(m2, f)]
    for b in B:
        b['C'] = c['moi'] * b['m'] * b['R'] ** 2
    a = c['sep'] * f * (B[0]['R'] + B[1]['R'])
    n = math.sqrt(G * (m1 + m2) / a ** 3)
    mu = SHEAR * f
    eta = mu * c['x'] / n
    args = RHEOS[rheo]
    quick_tier = c.get('tier', 'quick') == 'quick'
    SR = SPIN_QUICK if quick_tier else SPIN
    EE = ECC_QUICK if quick_tier else ECC
    if 'only' in c:
        SR, EE = [c['only'][0]], [c['only'][1]]
    SR2 = SR[1:] + SR[:1]                        # spin ratio of the other body in the dual entry
    use_obl = obl is not None
    planar = (obl is None) or obl == 0.0
    V = _Viol()
    stats = dict(calls=0, c10_defect_calls=0, worst_energy=0.0, worst_angmom=0.0, worst_array=0.0, balances=0,
                 dedt_e0_checked=0, transient_exceptions=0)
    _, _, efunc, ifunc = find_mode_manipulators(lmax, N, use_obl)
    inc_tab = ifunc(obl if use_obl else 0.0)
    beta = m1 * m2 / (m1 + m2)

    def love(i, n_):
        b = B[i]
        return ms.LoveModel(rheo, mu, eta, b['rho'], b['g'], b['R'], args=args, fixed_dt=(1.0 / 100.0) * (1.0 / n_))

    tabs = {}

    def table(e):
        if e not in tabs:
            tabs[e] = ms.ModeTable(efunc(float(e)), inc_tab, lmax)
        return tabs[e]

    def body_call(i, spin, e, derivs=False, n_=n):
        """quick_tidal_dissipation for body i perturbed by the other one."""
        b, o = B[i], B[1 - i]
        return quick_tidal_dissipation(o['m'], b['R'], b['m'], b['g'], b['rho'], b['C'], viscosity=eta, shear_modulus=mu,
                                       rheology=rheo, complex_compliance_inputs=args, eccentricity=e, obliquity=obl,
                                       orbital_frequency=n_, spin_frequency=spin, max_tidal_order_l=lmax,
                                       eccentricity_truncation_lvl=N, calculate_orbit_spin_derivatives=derivs)

    def dual_call(s1, s2, e, n_=n):
        return quick_dual_body_tidal_dissipation(
            radii=(B[0]['R'], B[1]['R']), masses=(m1, m2), gravities=(B[0]['g'], B[1]['g']),
            densities=(B[0]['rho'], B[1]['rho']), mois=(B[0]['C'], B[1]['C']), viscosities=(eta, eta),
            shear_moduli=(mu, mu), rheologies=(rheo, rheo), complex_compliance_inputs=(args, args),
            obliquities=(obl, obl) if use_obl else None, spin_frequencies=(s1, s2), eccentricity=e,
            orbital_frequency=n_, max_tidal_order_l=lmax, eccentricity_truncation_lvl=N)

    def c10_pred(spins, e, n_):
        """Do the inputs lie on one of the two defects C10 reports?  'lossless' | 'newton' | None (same narrow families)."""
        if rheo in ('elastic', 'off'):
            return 'lossless' if not any(_is_arr(x) for x in list(spins) + [n_]) else None
        if rheo != 'newton':
            return None
        ee = np.atleast_1d(np.asarray(e, dtype=float))
        nn = np.atleast_1d(np.asarray(n_, dtype=float))
        for s_ in spins:
            ss = np.atleast_1d(np.asarray(s_, dtype=float))
            same = (not _is_arr(s_)) and (not _is_arr(n_)) and s_ == n_
            for i in range(max(len(ee), len(ss), len(nn))):
                tb = table(float(ee[i % len(ee)]))
                w = tb.ncoef * nn[i % len(nn)] - tb.m * ss[i % len(ss)]
                z = (w == 0.0) & ~((tb.m == 0) & (tb.ncoef == 0))
                if same:
                    z &= ~(tb.ncoef == tb.m)
                if z.any():
                    return 'newton'
        return None

    def c10_defect(ex, pred):
        t, msg = type(ex).__name__, str(ex)
        if pred == 'lossless':
            return t == 'ZeroDivisionError' and msg.strip() == 'division by zero'
        if pred == 'newton':
            return t == 'ZeroDivisionError' and 'complex division by zero' in msg
        return False

    c10_hits = [0]
    MAX_C10_HITS = 2        # numba leaks what was allocated before a raise (~0.1 MB per raising call): once a C10 defect has shown up
    #                         this often in a configuration, further calls on that defect's input family are not executed

    def guarded(fn, form, spins, e, n_=n, mode_sum_probe=None):
        """Run the code under test.  Returns (result | None).  Exceptions: C10 defects are not admitted; a ZeroDivisionError at
        scalar e == 0 whose mode-sum part runs cleanly is the de/dt defect; everything else is a generic exception site."""
        pred = c10_pred(spins, e, n_)
        if pred is not None and c10_hits[0] >= MAX_C10_HITS:
            stats['c10_defect_calls'] += 1
            return None
        stats['calls'] += 1
        try:
            return fn()
        except Exception as ex:           # noqa: BLE001
            if c10_defect(ex, pred):
                c10_hits[0] += 1
                stats['c10_defect_calls'] += 1
                return None
            t = type(ex).__name__
            if t != 'ZeroDivisionError':
                # a deterministic defect raises again; a transient infrastructure hiccup (cold numba cache being filled by 16
                # processes at once) does not
                try:
                    r = fn()
                    stats['transient_exceptions'] += 1
                    return r
                except Exception as ex2:       # noqa: BLE001
                    ex = ex2
                    t = type(ex).__name__
            where = dict(form=form, spin_over_n=[float(np.asarray(s_).ravel()[0]) / n for s_ in spins], e=e, msg=str(ex)[:200])
            if t == 'ZeroDivisionError' and not _is_arr(e) and e == 0.0 and mode_sum_probe is not None:
                try:
                    mode_sum_probe()
                    clean = True
                except Exception:          # noqa: BLE001
                    clean = False
                if clean:
                    V.add(f'C11/{entry}/dedt-at-e0/ZeroDivisionError', where)
                    return None
            V.add(f'C11/{entry}/exception/{t}', where)
            return None

    def scales(spins, e, n_=n):
        """sum of |mode terms| behind da/dt, de/dt, dspin/dt and heating (reference mode table; used as a floor for the scales)."""
        sM = sw = 0.0
        sO, sH = [], []
        for i, s_ in enumerate(spins):
            if s_ is None:
                sO.append(0.0); sH.append(0.0)
                continue
            r = ms.mode_sum(table(e), love(i, n_), n_, s_, a, B[i]['R'], B[1 - i]['m'])
            mp = B[1 - i]['m']
            sM += mp * r['sM']
            sw += mp * r['sw']
            sO.append(mp * r['sO'])
            sH.append(r['sH'])
        return sM, sw, sO, sH

    def balances(form, spins, e, dadt, dedt, dsdt, heat, where):
        """spins/dsdt/heat: per dissipating body (None entries = body not dissipating)."""
        vals = [dadt] + [v for v in dsdt if v is not None] + [v for v in heat if v is not None]
        dedt_used = dedt
        if e == 0.0 and dedt is not None:
            stats['dedt_e0_checked'] += 1
            if not math.isfinite(dedt):
                V.add(f'C11/{entry}/dedt-at-e0/nonfinite', dict(where, form=form, de_dt=dedt))
                dedt_used = None
            elif dedt != 0.0:
                V.add(f'C11/{entry}/dedt-at-e0/nonzero', dict(where, form=form, de_dt=dedt))
        elif dedt is not None:
            vals.append(dedt)
        if not all(math.isfinite(v) for v in vals):
            V.add(f'C11/{entry}/nonfinite', dict(where, form=form, da_dt=dadt, de_dt=dedt, dspin_dt=dsdt, heating=heat))
            return
        sM, sw, sO, sH = scales(spins, e)
        kin = 2.0 / (n * a) / beta                                      # |da/dt| <= kin * sum m_pert |dU/dM terms|
        # full-amplitude torque scale (3/2) G M_pert^2 R^5 / a^6: at the exact rest state (e = 0, spin = n, obliquity 0.0 through the
        # general inclination tables) all terms are ~1e-33 of it (rounding residues of table entries that vanish at I = 0) and
        # no balance can be asserted on them; the scale is never taken below 1e-20 of the full amplitude.
        T0 = sum(1.5 * G * B[1 - i]['m'] ** 2 * B[i]['R'] ** 5 / a ** 6 for i, s_ in enumerate(spins) if s_ is not None)
        # energy
        tE = G * m1 * m2 / (2.0 * a * a) * dadt
        terms = [tE]
        floor = G * m1 * m2 / (2.0 * a * a) * kin * sM
        for i, s_ in enumerate(spins):
            if s_ is None:
                continue
            terms += [B[i]['C'] * s_ * dsdt[i], heat[i]]
            floor += abs(s_) * sO[i] + sH[i]
        res = abs(sum(terms))
        sc = max(sum(abs(t) for t in terms), floor, 1e-20 * T0 * abs(n))
        stats['balances'] += 1
        if res > TOL * sc:
            V.add(f'C11/{entry}/energy-balance', dict(where, form=form, d_orbital_energy=tE, terms=terms, residual=sum(terms), scale=sc))
        if sc > 0:
            stats['worst_energy'] = max(stats['worst_energy'], res / sc)
        # angular momentum
        if planar and dedt_used is not None:
            L = beta * math.sqrt(G * (m1 + m2) * a * (1.0 - e * e))
            t1 = L * 0.5 * dadt / a
            t2 = -L * e * dedt_used / (1.0 - e * e)
            terms = [t1, t2] + [B[i]['C'] * dsdt[i] for i, s_ in enumerate(spins) if s_ is not None]
            floor = L * 0.5 / a * kin * sM + sum(sO)
            if e > 0.0:
                floor += L * e / (1.0 - e * e) * (math.sqrt(1 - e * e) / (n * a * a * e) / beta) * (sM + sw)
            res = abs(sum(terms))
            sc = max(sum(abs(t) for t in terms), floor, 1e-20 * T0)
            if res > TOL * sc:
                V.add(f'C11/{entry}/angular-momentum-balance', dict(where, form=form, terms=terms, residual=sum(terms), scale=sc))
            if sc > 0:
                stats['worst_angmom'] = max(stats['worst_angmom'], res / sc)

    def cmp_arr(form, name, got, want, sc, where):
        got = float(got); want = float(want)
        if math.isnan(want) and math.isnan(got):
            return
        if not math.isfinite(got) or abs(got - want) > TOL_ARR * max(sc, abs(want)):
            V.add(f'C11/{entry}/array-vs-scalar', dict(where, form=form, quantity=name, array_value=got, scalar_value=want))
        elif max(sc, abs(want)) > 0:
            stats['worst_array'] = max(stats['worst_array'], abs(got - want) / max(sc, abs(want)))

    def dedt_nan_at_e0(form, e_arr, dedt_arr, where):
        """array input: de/dt must be 0 where e == 0.  The known defect returns NaN exactly there and finite values elsewhere."""
        e_arr = np.asarray(e_arr, dtype=float) * np.ones(np.shape(dedt_arr))
        z = e_arr == 0.0
        if not z.any():
            return
        stats['dedt_e0_checked'] += int(z.sum())
        d0 = np.asarray(dedt_arr)[z]
        if np.all(d0 == 0.0):
            return
        if np.all(np.isnan(d0)) and np.all(np.isfinite(np.asarray(dedt_arr)[~z])):
            V.add(f'C11/{entry}/dedt-at-e0/nan-array', dict(where, form=form, de_dt=np.asarray(dedt_arr).tolist()[:6]))
        else:
            V.add(f'C11/{entry}/dedt-at-e0/nonzero', dict(where, form=form, de_dt=np.asarray(dedt_arr).tolist()[:6]))

    obs = []
    S = {}
    # ---------------------------------------------------------------------------------------------------------------
    if entry == 'single':
        for sr in SR:
            for e in EE:
                s_ = sr * n
                r = guarded(lambda: body_call(1, s_, e, True), 'scalar', [s_], e,
                            mode_sum_probe=lambda: body_call(1, s_, e, False))
                if r is None:
                    continue
                got = dict(dadt=float(r['semi_major_axis_derivative']), dedt=float(r['eccentricity_derivative']),
                           ds=float(r['spin_rate_derivative']), H=float(r['tidal_heating']))
                S[(sr, e)] = got
                obs.append('%.9e' % got['dadt'])
                balances('scalar', [None, s_], e, got['dadt'], got['dedt'], [None, got['ds']], [None, got['H']],
                         dict(spin_over_n=sr, e=e))
        grid = [(sr, e) for sr in SR for e in EE]
        if len(grid) > 1:
            spin_arr = np.array([sr * n for sr, _ in grid]); e_arr = np.array([e for _, e in grid])
            for form, kw in (('spin+e-array', dict()), ('all-array', dict(n_=np.full(len(grid), n)))):
                r = guarded(lambda: body_call(1, spin_arr, e_arr, True, **kw), form, [spin_arr], e_arr, n_=kw.get('n_', n))
                if r is None:
                    continue
                dedt_nan_at_e0(form, e_arr, r['eccentricity_derivative'], {})
                for i, key in enumerate(grid):
                    if key not in S:
                        continue
                    w = dict(spin_over_n=key[0], e=key[1])
                    sM, sw, sO, sH = scales([None, key[0] * n], key[1])
                    kin = 2.0 / (n * a) / beta
                    cmp_arr(form, 'da_dt', r['semi_major_axis_derivative'][i], S[key]['dadt'], kin * sM, w)
                    if key[1] > 0:
                        cmp_arr(form, 'de_dt', r['eccentricity_derivative'][i], S[key]['dedt'], kin / (2 * a * key[1]) * (sM + sw), w)
                    cmp_arr(form, 'dspin_dt', r['spin_rate_derivative'][i], S[key]['ds'], sO[1] / B[1]['C'], w)
            for sr in SR:
                ee = np.array(EE)
                r = guarded(lambda: body_call(1, sr * n, ee, True), 'e-array', [sr * n], ee)
                if r is None:
                    continue
                dedt_nan_at_e0('e-array', ee, r['eccentricity_derivative'], dict(spin_over_n=sr))
                for i, e in enumerate(EE):
                    if (sr, e) in S and e > 0:
                        sM, sw, sO, sH = scales([None, sr * n], e)
                        cmp_arr('e-array', 'de_dt', r['eccentricity_derivative'][i], S[(sr, e)]['dedt'],
                                2.0 / (n * a) / beta / (2 * a * e) * (sM + sw), dict(spin_over_n=sr, e=e))

    # ---------------------------------------------------------------------------------------------------------------
    elif entry == 'dual':
        for sr, sr2 in zip(SR, SR2):
            for e in EE:
                s1, s2 = sr * n, sr2 * n
                r = guarded(lambda: dual_call(s1, s2, e), 'scalar', [s1, s2], e,
                            mode_sum_probe=lambda: (body_call(0, s1, e, False), body_call(1, s2, e, False)))
                if r is None:
                    continue
                got = dict(dadt=float(r['semi_major_axis_derivative']), dedt=float(r['eccentricity_derivative']),
                           ds=[float(r['host']['spin_rate_derivative']), float(r['secondary']['spin_rate_derivative'])],
                           H=[float(r['host']['tidal_heating']), float(r['secondary']['tidal_heating'])])
                S[(sr, e)] = got
                obs.append('%.9e' % got['dadt'])
                balances('scalar', [s1, s2], e, got['dadt'], got['dedt'], got['ds'], got['H'],
                         dict(spin_over_n=[sr, sr2], e=e))
        grid = [(sr, sr2, e) for sr, sr2 in zip(SR, SR2) for e in EE]
        if len(grid) > 1:
            s1a = np.array([g_[0] * n for g_ in grid]); s2a = np.array([g_[1] * n for g_ in grid])
            e_arr = np.array([g_[2] for g_ in grid])
            r = guarded(lambda: dual_call(s1a, s2a, e_arr), 'spin+e-array', [s1a, s2a], e_arr)
            if r is not None:
                dedt_nan_at_e0('spin+e-array', e_arr, r['eccentricity_derivative'], {})
                for i, (sr, sr2, e) in enumerate(grid):
                    if (sr, e) not in S:
                        continue
                    w = dict(spin_over_n=[sr, sr2], e=e)
                    sM, sw, sO, sH = scales([sr * n, sr2 * n], e)
                    kin = 2.0 / (n * a) / beta
                    cmp_arr('spin+e-array', 'da_dt', r['semi_major_axis_derivative'][i], S[(sr, e)]['dadt'], kin * sM, w)
                    if e > 0:
                        cmp_arr('spin+e-array', 'de_dt', r['eccentricity_derivative'][i], S[(sr, e)]['dedt'], kin / (2 * a * e) * (sM + sw), w)
                    cmp_arr('spin+e-array', 'dspin_dt host', r['host']['spin_rate_derivative'][i], S[(sr, e)]['ds'][0], sO[0] / B[0]['C'], w)
                    cmp_arr('spin+e-array', 'dspin_dt secondary', r['secondary']['spin_rate_derivative'][i], S[(sr, e)]['ds'][1], sO[1] / B[1]['C'], w)
            for sr, sr2 in zip(SR, SR2):
                ee = np.array(EE)
                r = guarded(lambda: dual_call(sr * n, sr2 * n, ee), 'e-array', [sr * n, sr2 * n], ee)
                if r is not None:
                    dedt_nan_at_e0('e-array', ee, r['eccentricity_derivative'], dict(spin_over_n=[sr, sr2]))

    # ---------------------------------------------------------------------------------------------------------------
    else:   # bare dynamics functions
        def eq(name, x, y, where):
            x = np.asarray(x, dtype=float); y = np.asarray(y, dtype=float)
            same = (x == y) | (np.isnan(x) & np.isnan(y))
            if not np.all(same):
                V.add('C11/bare/combined-vs-separate', dict(where, which=name, a=x.tolist(), b=y.tolist()))

        def bare_eval(form, s1, s2, e, where):
            """mode sums without derivatives for both bodies, then every bare function."""
            rr = guarded(lambda: (body_call(0, s1, e, False), body_call(1, s2, e, False)), form, [s1, s2], e)
            if rr is None:
                return None
            r0, r1 = rr
            out = {}
            a_ = r1['semi_major_axis']
            scal_e0 = (not _is_arr(e)) and e == 0.0
            # spin
            out['ds'] = [sd.spin_rate_derivative(r0['dUdO'], B[0]['C'], m2), sd.spin_rate_derivative(r1['dUdO'], B[1]['C'], m1)]
            # single: body 1 = the secondary (dissipating), body 2 = the host (perturber)
            out['dadt_s'] = sd.semi_major_axis_derivative(a_, n, m2, r1['dUdM'], m1)
            out['dadt_d'] = dd.semi_major_axis_derivative(a_, n, m1, r0['dUdM'], m2, r1['dUdM'])
            zero = 0.0 * r1['dUdM']
            eq('dual da/dt with a silent host vs single', dd.semi_major_axis_derivative(a_, n, m1, zero, m2, r1['dUdM']), out['dadt_s'], where)

            def ecc_part():
                o = {}
                o['dedt_s'] = sd.eccentricity_derivative(a_, n, e, m2, r1['dUdM'], r1['dUdw'], m1)
                o['dedt_d'] = dd.eccentricity_derivative(a_, n, e, m1, r0['dUdM'], r0['dUdw'], m2, r1['dUdM'], r1['dUdw'])
                cs = sd.semia_eccen_derivatives(a_, n, e, m2, r1['dUdM'], r1['dUdw'], m1)
                cd = dd.semia_eccen_derivatives(a_, n, e, m1, r0['dUdM'], r0['dUdw'], m2, r1['dUdM'], r1['dUdw'])
                eq('single semia_eccen_derivatives[0] vs semi_major_axis_derivative', cs[0], out['dadt_s'], where)
                eq('single semia_eccen_derivatives[1] vs eccentricity_derivative', cs[1], o['dedt_s'], where)
                eq('dual semia_eccen_derivatives[0] vs semi_major_axis_derivative', cd[0], out['dadt_d'], where)
                eq('dual semia_eccen_derivatives[1] vs eccentricity_derivative', cd[1], o['dedt_d'], where)
                return o
            stats['calls'] += 1
            try:
                out.update(ecc_part())
            except Exception as ex:           # noqa: BLE001
                t = type(ex).__name__
                if t != 'ZeroDivisionError':          # retry once: transient infrastructure hiccups do not repeat
                    try:
                        out.update(ecc_part())
                        stats['transient_exceptions'] += 1
                        ex = None
                    except Exception as ex2:          # noqa: BLE001
                        ex, t = ex2, type(ex2).__name__
                if ex is not None:
                    if t == 'ZeroDivisionError' and scal_e0:
                        V.add('C11/bare/dedt-at-e0/ZeroDivisionError', dict(where, form=form, msg=str(ex)[:100]))
                    else:
                        V.add(f'C11/bare/exception/{t}', dict(where, form=form, msg=str(ex)[:200]))
                    out['dedt_s'] = out['dedt_d'] = None
            out['H'] = [r0['tidal_heating'], r1['tidal_heating']]
            return out

        for sr, sr2 in zip(SR, SR2):
            for e in EE:
                s1, s2 = sr * n, sr2 * n
                where = dict(spin_over_n=[sr, sr2], e=e)
                o = bare_eval('scalar', s1, s2, e, where)
                if o is None:
                    continue
                S[(sr, e)] = o
                obs.append('%.9e' % float(o['dadt_d']))
                ds = [float(o['ds'][0]), float(o['ds'][1])]
                H = [float(o['H'][0]), float(o['H'][1])]
                # with the de/dt defect present at scalar e = 0 the energy balance (which does not need de/dt) is still checked
                de_s = float(o['dedt_s']) if o['dedt_s'] is not None else None
                de_d = float(o['dedt_d']) if o['dedt_d'] is not None else None
                balances('scalar/single-functions', [None, s2], e, float(o['dadt_s']), de_s, [None, ds[1]], [None, H[1]], where)
                balances('scalar/dual-functions', [s1, s2], e, float(o['dadt_d']), de_d, ds, H, where)
        grid = [(sr, sr2, e) for sr, sr2 in zip(SR, SR2) for e in EE]
        if len(grid) > 1:
            s1a = np.array([g_[0] * n for g_ in grid]); s2a = np.array([g_[1] * n for g_ in grid])
            e_arr = np.array([g_[2] for g_ in grid])
            o = bare_eval('spin+e-array', s1a, s2a, e_arr, {})
            if o is not None and o['dedt_s'] is not None:
                dedt_nan_at_e0('spin+e-array/single-function', e_arr, o['dedt_s'], {})
                dedt_nan_at_e0('spin+e-array/dual-function', e_arr, o['dedt_d'], {})
                for i, (sr, sr2, e) in enumerate(grid):
                    if (sr, e) not in S:
                        continue
                    w = dict(spin_over_n=[sr, sr2], e=e)
                    sM, sw, sO, sH = scales([sr * n, sr2 * n], e)
                    kin = 2.0 / (n * a) / beta
                    cmp_arr('spin+e-array', 'da_dt dual', o['dadt_d'][i], S[(sr, e)]['dadt_d'], kin * sM, w)
                    cmp_arr('spin+e-array', 'da_dt single', o['dadt_s'][i], S[(sr, e)]['dadt_s'], kin * sM, w)
                    if e > 0 and S[(sr, e)]['dedt_d'] is not None:
                        cmp_arr('spin+e-array', 'de_dt dual', o['dedt_d'][i], S[(sr, e)]['dedt_d'], kin / (2 * a * e) * (sM + sw), w)
                        cmp_arr('spin+e-array', 'de_dt single', o['dedt_s'][i], S[(sr, e)]['dedt_s'], kin / (2 * a * e) * (sM + sw), w)

    admitted = stats['balances'] > 0 or bool(V.d)
    nontrivial = [o for o in obs if float(o) != 0.0]
    return dict(admitted=admitted, viol=V.list(), obs=tuple(obs) if nontrivial else None, stats=stats)


def run_case(c):
    """c: dict(entry, rheo, pair, x, f, tier, seed [, only_config=dict(lmax, N, obl, moi, sep)] [, only=(spin ratio, e)])."""
    from mc import env
    env.tidalpy()
    cfgs = [c['only_config']] if c.get('only_config') else configs(c.get('tier', 'quick'), c.get('seed', 0), c['pair'])
    viol, stats, sub_obs = {}, {}, []
    n_adm = 0
    for cfg in cfgs:
        flat = dict(c)
        flat.pop('only_config', None)
        flat.update(cfg)
        r = _run_config(flat)
        n_adm += bool(r['admitted'])
        for site, detail in r['viol']:
            if site in viol:
                viol[site]['count'] += detail.get('count', 1)
                viol[site]['configs_with_this_site'] += 1
            else:
                d = dict(detail)
                d['config'] = dict(cfg)
                d['configs_with_this_site'] = 1
                viol[site] = d
        for k, v in r['stats'].items():
            stats[k] = max(stats.get(k, 0.0), v) if k.startswith('worst') else stats.get(k, 0) + v
        sub_obs.append(r['obs'])
    status = 'pass' if n_adm else 'inadmissible:every call of every configuration dies with a C10 defect'
    return dict(status=status, viol=list(viol.items()), obs=(c['entry'], c['rheo'], c['pair'], tuple(sub_obs)), stats=stats,
                n_configs=len(cfgs), n_admitted_configs=n_adm, sub_obs=sub_obs)


def replay(case):
    if isinstance(case, dict) and case.get('kind') == 'scales':
        from . import C11_scales
        return C11_scales.replay(case)
    return run_case(case)['viol']


def _run_main(ctx):
    from mc.core import run_lattice, stable_hash, HarnessError
    cs = cases(ctx.tier, ctx.seed)
    ncfg = len(configs(ctx.tier, ctx.seed, 0))
    res = run_lattice(
        ctx, 'mc.props.C11:run_case', cs, chunk=1,
        rule='full product entry{quick_tidal_dissipation(derivatives), quick_dual_body_tidal_dissipation, bare TidalPy.dynamics functions} x '
             'l_max 2..7 x truncation {2,6,20} x rheology (10) x obliquity slot (None + values) x mass pair (3) x (MOI factor, separation) '
             '(evaluations = configurations; the pool is fed one (entry, rheology, mass pair) bundle per task); inside each configuration the '
             'full grid spin ratio(s) x e with scalar inputs plus spin+e-array, all-array and e-array forms; '
             'distinct = distinct non-zero tuples of returned da/dt values per configuration',
        exhaustive=True)
    distinct = set()
    agg = {}
    n_adm = 0
    for r in res:
        n_adm += r.get('n_admitted_configs', 0)
        for o in r.get('sub_obs') or []:
            if o is not None:
                distinct.add(stable_hash(o))
        for k, v in (r.get('stats') or {}).items():
            agg[k] = max(agg.get(k, 0.0), v) if k.startswith('worst') else agg.get(k, 0) + v
    total = len(cs) * ncfg
    ctx.coverage['evaluations'] = ctx.coverage['evaluations'] - len(cs) + total
    ctx.coverage['distinct_nontrivial'] = len(distinct)
    ctx.coverage['samples'] = [dict(c, only_config=configs(ctx.tier, ctx.seed, c['pair'])[i * 7 % ncfg])
                               for i, c in enumerate(cs[::max(1, len(cs) // 3)][:3])]
    for v in ctx.violations:
        cfg = (v.get('detail') or {}).get('config')
        if cfg and 'only_config' not in v['case']:
            v['case'] = dict(v['case'], only_config=cfg)
    ctx.coverage.update(real_calls=agg.get('calls', 0), calls_dying_with_a_C10_defect=agg.get('c10_defect_calls', 0), bundles=len(cs),
                        transient_exceptions_gone_on_retry=agg.get('transient_exceptions', 0),
                        configurations_per_bundle=ncfg, configurations_admitted=n_adm,
                        balances_checked=agg.get('balances', 0), dedt_at_e0_checked=agg.get('dedt_e0_checked', 0),
                        worst_energy_residual=agg.get('worst_energy'), worst_angular_momentum_residual=agg.get('worst_angmom'),
                        worst_array_vs_scalar=agg.get('worst_array'), tolerance=TOL, tolerance_array=TOL_ARR)
    ctx.note('configurations={n} (admitted {adm}) calls={calls} (C10-defect calls not admitted: {c10_defect_calls}) balances={balances} '
             'de/dt(e=0) checks={dedt_e0_checked} worst: energy {worst_energy:.1e} angular momentum {worst_angmom:.1e} array {worst_array:.1e}'
             .format(n=total, adm=n_adm, **agg))
    if n_adm < 0.7 * total:            # vacuity guard on configurations
        raise HarnessError(f'vacuity guard: only {n_adm}/{total} configurations admitted (< 70%); infrastructure problem, no verdict')


def run(ctx):
    _run_main(ctx)
    # scale-argument leg (separate small lattice, see mc/props/C11_scales.py)
    from . import C11_scales
    C11_scales.run(ctx)
