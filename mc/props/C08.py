"""C08 -- eccentricity tables equal squared Hansen coefficients to their stated order.

E4 exact executor, complete enumeration (exhaustive: true):

* every shipped function `eccentricity_funcs_l{l}_trunc{N}` (discovered from the package namespace, from the `orderl{l}`
  modules and from the `eccentricity_truncations` registry; the expected set l=2: N=2..22, l=3..7: N=2..20 must exist) is
  executed through `.py_func` on the exact power-series argument `Series.var(30)` -- the very source lines numba compiles;
  float literals are taken as the exact dyadic rationals they denote, so the result is the exact Taylor polynomial of
  each entry (closed forms such as `-1/(e2-1.0)**3` included), no rounding in the harness;
* every (p, q) present: every coefficient c_0..c_N is compared with the exact rational coefficient of G_lpq(e)^2 from
  `mc.refmodels.hansen` (relative 1e-12; must be exactly 0 where the exact one is 0).  Entries that carry terms above e^N
  (the closed forms, k = l-2p+q = 0) are compared to e^30;
* every absent (p, q), p in 0..l, |q| <= N/2+3: the exact G^2 must have no term up to e^N;
* the compiled dispatcher is called at 3 float eccentricities (thorough: also on a float array) and must agree with the
  exact polynomial evaluated at the same e;
* `mode_calc_helper.eccentricity_functions_lookup[N][max_l]` (every key present; expected set must exist) is called
  compiled at the same eccentricities and must return exactly the dict {l: per-l table} for l = 2..max_l, key by key;
  values are compared with the exact polynomial of the per-l table (1e-12) and, in the thorough tier, bit for bit with
  the compiled per-l dispatcher.
"""
import re

LEVEL = 'exploration'
ASSUMPTIONS = [
    'float literals of the tables are compared as the exact dyadic rationals they denote; a coefficient is accepted when it '
    'is within 1e-12 relative of the exact rational Hansen coefficient (shipped literals carry 15 significant digits; worst '
    'pristine deviation 2.7e-14)',
    'absent modes are enumerated for |q| <= N/2+3; G_lpq^2 = O(e^(2|q|)), so modes farther out cannot contribute up to e^N',
    'closed-form (k = l-2p+q = 0) entries are compared through e^30, not symbolically to all orders; they are rational '
    'functions P(e^2)/(1-e^2)^(2l-1) with deg P <= l-1 < 15, which 16 matching coefficients in e^2 determine uniquely',
    'eccentricity_truncations[22][l>2] (documented FIXME placeholder, referenced nowhere) is outside the quantifier',
    'the compiled (numba) path is compared with the exact polynomial at 3 eccentricities per function only; the '
    'coefficient-complete statement is about the Python source lines that numba compiles',
]

TOL = 1e-12            # relative, exact rational comparison of coefficients
ORDER = 30             # order of the exact series argument
EXPECTED = [(l, N) for l in range(2, 8) for N in range(2, (22 if l == 2 else 20) + 1, 2)]
EXPECTED_LOOKUP = [(N, L) for N in range(2, 21, 2) for L in range(2, 8)] + [(22, 2)]
E_MENU = [(0.03, 0.11, 0.2), (0.05, 0.13, 0.19), (0.02, 0.09, 0.17), (0.04, 0.12, 0.2), (0.06, 0.1, 0.18)]
VAL_TOL = 1e-12        # compiled value vs exact polynomial, relative to sum |c_k| e^k


def _discover():
    """(l, N) pairs reachable from the package, and the (N, max_l) keys of the multi-degree lookup."""
    from mc import env
    env.tidalpy()
    import importlib
    from TidalPy.tides import eccentricity_funcs as ef
    from TidalPy.tides.modes import mode_calc_helper as mh
    found = {}
    for name in dir(ef):
        m = re.fullmatch(r'eccentricity_funcs_l(\d+)_trunc(\d+)', name)
        if m:
            found.setdefault((int(m[1]), int(m[2])), []).append('package')
    for l in range(2, 8):
        try:
            mod = importlib.import_module(f'TidalPy.tides.eccentricity_funcs.orderl{l}')
        except ImportError:
            continue
        for name in dir(mod):
            m = re.fullmatch(r'eccentricity_funcs_trunc(\d+)', name)
            if m:
                found.setdefault((l, int(m[1])), []).append('module')
    for N, by_l in ef.eccentricity_truncations.items():
        for l in by_l:
            if not (N == 22 and l > 2):
                found.setdefault((int(l), int(N)), []).append('registry')
    lookups = sorted((int(N), int(L)) for N, d in mh.eccentricity_functions_lookup.items() for L in d)
    return found, lookups


def _routes(l, N):
    """[(route name, dispatcher)] for every way the package hands out the (l, N) table."""
    import importlib
    from TidalPy.tides import eccentricity_funcs as ef
    out = []
    f = getattr(ef, f'eccentricity_funcs_l{l}_trunc{N}', None)
    if f is not None:
        out.append(('eccentricity_funcs.eccentricity_funcs_l%d_trunc%d' % (l, N), f))
    try:
        mod = importlib.import_module(f'TidalPy.tides.eccentricity_funcs.orderl{l}')
        f = getattr(mod, f'eccentricity_funcs_trunc{N}', None)
        if f is not None:
            out.append((f'orderl{l}.eccentricity_funcs_trunc{N}', f))
    except ImportError:
        pass
    reg = ef.eccentricity_truncations.get(N, {})
    if l in reg and not (N == 22 and l > 2):
        out.append((f'eccentricity_truncations[{N}][{l}]', reg[l]))
    return out


def _check_exact(l, N, func, route, viol, stats):
    """Exact part: run func.py_func on Series.var(ORDER) and compare with the Hansen reference."""
    from fractions import Fraction as Fr
    from mc.exact import Series, as_series
    from mc.refmodels import hansen
    tol = Fr(TOL)
    pyf = getattr(func, 'py_func', func)
    try:
        tab = pyf(Series.var(ORDER))
    except Exception as e:          # the table promises a value for every eccentricity series
        viol.append((f'C08/table/exception/{type(e).__name__}', dict(l=l, N=N, route=route, msg=str(e)[:300])))
        return None
    entries = {}
    ident = {}
    for p in tab:
        for q in tab[p]:
            v = tab[p][q]
            entries[(int(p), int(q))] = as_series(v, ORDER)
            ident.setdefault(id(v), []).append((int(p), int(q)))
    bad_entries = {}
    for (p, q), s in sorted(entries.items()):
        if not (0 <= p <= l):
            viol.append(('C08/table/spurious-mode', dict(l=l, N=N, p=p, q=q, route=route, why='p outside 0..l')))
            continue
        extends = any(c != 0 for c in s.c[N + 1:])
        upto = ORDER if extends else N
        want = hansen.g2(l, p, q, upto)
        stats['entries'] += 1
        for k in range(upto + 1):
            g, w = s.c[k], want[k]
            stats['coefficients'] += 1
            ok = (g == 0) if w == 0 else (abs(g - w) <= tol * abs(w))
            if not ok:
                rel = float(abs(g - w) / abs(w)) if w != 0 else None
                if k <= N:
                    what = 'coefficient'
                elif l - 2 * p + q == 0:
                    what = 'closed-form-coefficient'
                else:
                    what = 'terms-beyond-stated-order'
                bad_entries[(p, q)] = (what, dict(l=l, N=N, p=p, q=q, order=k, got=float(g), want=float(w), rel_err=rel,
                                                  route=route, compared_to_order=upto))
                break
            if w != 0 and stats is not None:
                r = float(abs(g - w) / abs(w))
                if r > stats['worst_rel']:
                    stats['worst_rel'] = r
    # classify: a failing entry that is the *same object* as another, itself correct, entry is a wrong alias
    for (p, q), (what, detail) in sorted(bad_entries.items()):
        src = [k for k in ident.get(id(tab[p][q]), []) if k != (p, q) and k not in bad_entries]
        if src:
            detail['aliased_to'] = src[0]
            viol.append(('C08/table/wrong-alias', detail))
        else:
            viol.append((f'C08/table/{what}', detail))
    # absent modes
    qm = N // 2 + 3
    for p in range(l + 1):
        for q in range(-qm, qm + 1):
            if (p, q) in entries:
                continue
            stats['absent'] += 1
            want = hansen.g2(l, p, q, N)
            nz = [(k, float(w)) for k, w in enumerate(want) if w != 0]
            if nz:
                viol.append(('C08/table/missing-mode', dict(l=l, N=N, p=p, q=q, route=route, first_term_order=nz[0][0],
                                                            first_term_coeff=nz[0][1])))
    return entries


def _check_compiled(l, N, func, route, entries, es, viol, stats, with_array):
    """Compiled dispatcher at the float eccentricities `es` vs the exact polynomial."""
    from fractions import Fraction as Fr
    import math
    from mc.refmodels import hansen

    def compare(got_tab, e, how):
        keys = {(int(p), int(q)) for p in got_tab for q in got_tab[p]}
        if keys != set(entries):
            viol.append(('C08/compiled/keys-differ-from-python', dict(l=l, N=N, e=e, how=how, route=route,
                         only_compiled=sorted(keys - set(entries))[:5], only_python=sorted(set(entries) - keys)[:5])))
            return
        fe = Fr(e)
        for (p, q), s in entries.items():
            got = got_tab[p][q]
            got = float(got) if how == 'scalar' else got
            if l - 2 * p + q == 0 and any(c != 0 for c in s.c[N + 1:]):
                # closed-form entry (verified above to e^30 against the reference): exact value of the closed form
                want = scale = float(hansen.closed_form_k0_value(l, p, fe))
            else:
                terms = [c * fe ** k for k, c in enumerate(s.c) if c != 0]
                want = float(sum(terms))
                scale = float(sum(abs(t) for t in terms))
            stats['compiled_values'] += 1
            if not (math.isfinite(got) and abs(got - want) <= VAL_TOL * scale + 1e-300):
                viol.append(('C08/compiled/disagrees-with-polynomial', dict(l=l, N=N, p=p, q=q, e=e, how=how, got=got,
                             want=want, scale=scale, route=route)))
                return
            if scale > 0:
                stats['worst_val'] = max(stats['worst_val'], abs(got - want) / scale)

    try:
        for e in es:
            compare(func(float(e)), e, 'scalar')
        if with_array:
            import numpy as np
            r = func(np.array(es, dtype=np.float64))
            for i, e in enumerate(es):
                compare({p: {q: float(r[p][q][i]) for q in r[p]} for p in r}, e, 'array')
    except Exception as ex:
        viol.append((f'C08/compiled/exception/{type(ex).__name__}', dict(l=l, N=N, route=route, msg=str(ex)[:300])))


def run_case(case):
    import os
    import time
    t0 = time.time()
    r = _run_case(case)
    r['t'] = round(time.time() - t0, 2)
    r['pid'] = os.getpid()
    return r


def _run_case(case):
    from mc import env
    env.tidalpy()
    from mc.refmodels.poolwatch import numba_ready
    numba_ready()
    viol = []
    kind = case['kind']
    if kind == 'discover':
        found, lookups = _discover()
        for (l, N) in EXPECTED:
            if 'package' not in found.get((l, N), []):
                viol.append(('C08/registry/missing-function', dict(l=l, N=N, routes=found.get((l, N), []))))
        for (N, L) in EXPECTED_LOOKUP:
            if (N, L) not in lookups:
                viol.append(('C08/lookup/missing-function', dict(N=N, max_l=L)))
        return dict(status='pass', viol=viol, obs=('discover', len(found), len(lookups)),
                    found=sorted(found), lookups=lookups)

    es = case['es']
    if kind == 'table':
        from mc.core import stable_hash
        l, N = case['l'], case['N']
        stats = dict(entries=0, coefficients=0, absent=0, compiled_values=0, worst_rel=0.0, worst_val=0.0)
        routes = _routes(l, N)
        if not routes:
            return dict(status='pass', viol=[('C08/registry/missing-function', dict(l=l, N=N, routes=[]))], obs=None)
        seen = {}
        first_entries = None
        for route, f in routes:
            if id(f) in seen:
                continue
            seen[id(f)] = route
            entries = _check_exact(l, N, f, route, viol, stats)
            if entries is not None and first_entries is None:
                first_entries = entries
                _check_compiled(l, N, f, route, entries, es, viol, stats, with_array=case.get('array', False))
        obs = None
        if first_entries is not None:
            obs = stable_hash([(k, [float(c) for c in s.c]) for k, s in sorted(first_entries.items())])
        return dict(status='pass', viol=viol, obs=obs, stats=stats, distinct_functions=len(seen))

    if kind == 'lookup':
        import math
        from fractions import Fraction as Fr
        from mc.exact import Series, as_series
        from mc.refmodels import hansen
        from TidalPy.tides import eccentricity_funcs as ef
        from TidalPy.tides.modes import mode_calc_helper as mh
        N, L = case['N'], case['max_l']
        fn = mh.eccentricity_functions_lookup[N][L]
        nval = 0
        obs = []
        # the per-l tables as exact series from their Python source lines (verified coefficient by coefficient by the
        # 'table' cases); thorough additionally requires bit-for-bit equality with the compiled per-l dispatchers
        exact = {}
        for l in range(2, L + 1):
            f = getattr(ef, f'eccentricity_funcs_l{l}_trunc{N}', None)
            if f is None:
                continue                      # reported by discovery
            try:
                tab = getattr(f, 'py_func', f)(Series.var(ORDER))
            except Exception:
                continue                      # reported by the 'table' case of (l, N) as C08/table/exception/...
            exact[l] = {(int(p), int(q)): as_series(tab[p][q], ORDER) for p in tab for q in tab[p]}
        try:
            for e in es:
                res = fn(float(e))
                fe = Fr(e)
                keys = sorted(int(k) for k in res)
                if keys != list(range(2, L + 1)):
                    viol.append(('C08/lookup/degree-keys', dict(N=N, max_l=L, e=e, keys=keys)))
                    break
                for l in keys:
                    if l not in exact:
                        continue
                    ka = {(int(p), int(q)) for p in res[l] for q in res[l][p]}
                    kb = set(exact[l])
                    if ka != kb:
                        viol.append(('C08/lookup/mode-keys', dict(N=N, max_l=L, l=l, e=e, only_lookup=sorted(ka - kb)[:5],
                                                                  only_table=sorted(kb - ka)[:5])))
                        continue
                    per = getattr(ef, f'eccentricity_funcs_l{l}_trunc{N}')(float(e)) if case.get('exact') else None
                    chk = 0.0
                    for (p, q) in sorted(ka):
                        a = float(res[l][p][q])
                        s = exact[l][(p, q)]
                        if l - 2 * p + q == 0 and any(c != 0 for c in s.c[N + 1:]):
                            want = scale = float(hansen.closed_form_k0_value(l, p, fe))
                        else:
                            terms = [c * fe ** k for k, c in enumerate(s.c) if c != 0]
                            want = float(sum(terms))
                            scale = float(sum(abs(t) for t in terms))
                        nval += 1
                        chk += a
                        if not (math.isfinite(a) and abs(a - want) <= VAL_TOL * scale + 1e-300):
                            viol.append(('C08/lookup/value', dict(N=N, max_l=L, l=l, p=p, q=q, e=e, lookup=a, table=want,
                                                                  vs='exact polynomial of the per-l table')))
                            break
                        if per is not None and not a == float(per[p][q]):
                            viol.append(('C08/lookup/value', dict(N=N, max_l=L, l=l, p=p, q=q, e=e, lookup=a,
                                                                  table=float(per[p][q]), vs='compiled per-l table')))
                            break
                    obs.append((l, round(chk, 9)))
        except Exception as ex:
            viol.append((f'C08/lookup/exception/{type(ex).__name__}', dict(N=N, max_l=L, msg=str(ex)[:300])))
        return dict(status='pass', viol=viol, obs=('lookup', N, L, obs), stats=dict(lookup_values=nval))
    raise ValueError(f'unknown case kind {kind!r}')


def replay(case):
    from mc.refmodels import hansen
    hansen.ensure_cache()
    return run_case(case)['viol']


def run(ctx):
    from mc.core import run_lattice
    from mc.refmodels import hansen, poolwatch
    watch = poolwatch.start(ctx)
    hansen.ensure_cache(mapper=lambda fn, jobs: ctx.map(fn, jobs, chunk=1))
    es = list(E_MENU[ctx.seed % len(E_MENU)])
    disc = run_lattice(ctx, 'mc.props.C08:run_case', [dict(kind='discover')],
                       rule='discovery of every eccentricity_funcs_l{l}_trunc{N} / lookup key (expected set must exist)',
                       exhaustive=True)[0]
    pairs = sorted(set(tuple(x) for x in disc['found']) | set(EXPECTED), key=lambda x: (-x[0] * x[1], x))
    # two phases: the per-l table functions first (each is compiled once and lands in numba's on-disk cache), then the
    # multi-degree lookups, whose compilation re-uses the cached callees (cold critical path ~5 s + ~4 s instead of ~35 s)
    lk = sorted(set(tuple(x) for x in disc['lookups']), key=lambda x: (-x[0] * x[1], x))
    cases1 = [dict(kind='table', l=l, N=N, es=es, array=ctx.thorough) for (l, N) in pairs]
    cases2 = [dict(kind='lookup', N=N, max_l=L, es=es, exact=ctx.thorough) for (N, L) in lk]
    res1 = run_lattice(ctx, 'mc.props.C08:run_case', cases1, chunk=1,
                       rule='every shipped (l, N) table function x every (p, q) present x every Taylor coefficient up to e^N '
                            '(entries with terms above e^N: up to e^30) vs exact rational G_lpq^2; every absent (p, q), '
                            'p in 0..l, |q| <= N/2+3; compiled dispatcher at 3 eccentricities; distinct = distinct '
                            'coefficient tables',
                       exhaustive=True)
    res2 = run_lattice(ctx, 'mc.props.C08:run_case', cases2, chunk=1,
                       rule='every lookup[N][max_l] (compiled) vs the per-l tables key by key; distinct = distinct lookup results',
                       exhaustive=True)
    watch.set()
    cases, res = cases1 + cases2, res1 + res2
    import os
    if os.environ.get('VERIF_TIMING'):
        for c, r in sorted(zip(cases, res), key=lambda cr: -cr[1]['t'])[:25]:
            print('   timing', r['t'], r['pid'], {k: v for k, v in c.items() if k != 'es'}, flush=True)
    tot = dict(entries=0, coefficients=0, absent=0, compiled_values=0, lookup_values=0)
    worst_rel = worst_val = 0.0
    for r in res:
        st = r.get('stats') or {}
        for k in tot:
            tot[k] += st.get(k, 0)
        worst_rel = max(worst_rel, st.get('worst_rel', 0.0))
        worst_val = max(worst_val, st.get('worst_val', 0.0))
    ctx.coverage.update(table_functions=len(pairs), lookup_functions=len(lk), table_entries=tot['entries'],
                        coefficients_compared=tot['coefficients'], absent_modes_checked=tot['absent'],
                        compiled_values_compared=tot['compiled_values'], lookup_values_compared=tot['lookup_values'],
                        worst_relative_coefficient_error=worst_rel, worst_compiled_value_error=worst_val,
                        coefficient_tolerance=TOL, eccentricities=es)
    ctx.note(f'{len(pairs)} table functions, {tot["entries"]} entries, {tot["coefficients"]} coefficients '
             f'(worst rel err {worst_rel:.2e}), {tot["absent"]} absent modes, {tot["compiled_values"]} compiled values '
             f'(worst {worst_val:.2e}), {len(lk)} lookups / {tot["lookup_values"]} values')
