"""C12, cross-module leg: the one-layer helpers
      k_l = calc_complex_love_general(J, mu, calc_effective_rigidity_general(mu, g, R, rho, l), l)
agree with the layered radial solver applied to the same uniform incompressible body whose complex shear modulus is
1/J (admitted cases only: success + convergence gate, C01 tolerance budget).  Both sides are real TidalPy code; the
relation between them is the metamorphic oracle (each side is separately tied to the closed form by C12 / C01).

`run(ctx)` adds the sub-lattice to an existing C12 context (coverage counters accumulate); hook it in with
`from mc.props import C12_solver; C12_solver.run(ctx)` at the end of C12.run, and dispatch `kind == 'solver'` cases to
`C12_solver.run_case` in C12.replay.
"""
import math

from mc.props import C01

G = 6.67430e-11
RHEOS = {'maxwell': (), 'andrade': (0.3, 1.0), 'sundberg': (0.2, 0.02, 0.3, 1.0), 'burgers': (0.2, 0.02)}
LS_T = [2, 3, 4, 5, 7]
LS_Q = [2, 3, 5]
MUT_T = [0.3, 3.0, 30.0]
MUT_Q = [3.0]
ETA_FAC = [1.0, 100.0]            # viscosity = factor * mu/omega  (Maxwell loss tangent 1 and 0.01)
# (family, integrator): DOP853 is the only integrator that gets the ill-conditioned incompressible-dynamic family through the
# gate (C01); RK45 is robust on lossy static bodies where DOP853 often exhausts its step budget
FAMS = [('kamata-static', 'RK45'), ('kamata-dynamic-incompressible', 'DOP853')]
BODIES = [(6e6, 5500.0), (1e5, 3500.0), (1e8, 8000.0)]
SEED_FACTORS = C01.SEED_FACTORS


def cases(tier, seed):
    f = SEED_FACTORS[seed % len(SEED_FACTORS)]
    out = []
    th = tier == 'thorough'
    for fam, meth in FAMS:
        for l in (LS_T if th else LS_Q):
            for mt in (MUT_T if th else MUT_Q):
                for rh in (RHEOS if th else ['maxwell', 'andrade']):
                    for ef in ETA_FAC:
                        for (R, rho) in (BODIES if th else BODIES[:1]):
                            for w2 in ([1e-7, 1e-6] if th else [1e-6]):
                                out.append(dict(kind='solver', fam=fam, l=l, mt=mt * f, rheo=rh, eta_fac=ef, R=R, rho=rho,
                                                w2=w2, meth=meth, r0f=1e-2, nd=True))
    return out


def run_case(c):
    from mc import env
    env.tidalpy()
    import numpy as np
    from TidalPy.rheology.complex_compliance import known_models
    from TidalPy.tides import calc_complex_love_general, calc_effective_rigidity_general
    R, rho, l = float(c['R']), float(c['rho']), int(c['l'])
    g = 4.0 / 3.0 * math.pi * G * rho * R
    pgr = rho * g * R
    mu0 = c['mt'] * pgr                       # static (real) shear modulus
    omega = math.sqrt(c['w2'] * g / R)
    eta = c['eta_fac'] * mu0 / omega
    viol = []
    try:
        J = complex(known_models[c['rheo']](float(omega), 1.0 / mu0, float(eta), *RHEOS[c['rheo']]))
        er = calc_effective_rigidity_general(mu0, g, R, rho, order_l=l)
        k_helper = complex(calc_complex_love_general(J, mu0, er, order_l=l))
    except Exception as e:  # noqa
        return dict(status='pass', viol=[(f'C12/solver-leg/helper-exception/{type(e).__name__}', dict(msg=str(e)[:200]))], obs=None)
    mu_c = 1.0 / J                            # complex shear modulus handed to the layered solver
    amu = abs(mu_c)
    kam, st, inc = C01.FAMILIES[c['fam']]
    K = 1e7 * max(amu, pgr, pgr * pgr / amu)
    if (not inc) and K > 1e9 * amu:
        return dict(status='inadmissible:conditioning', viol=[], obs=None)
    p = dict(R=R, rho=rho, g=g, pgr=pgr, amu=amu, mu=mu_c, K=K, omega=omega)
    status, a, b, info = C01.solve_pair(c, p)
    if status == 'exc':
        return dict(status='pass', viol=[(f'C12/solver-leg/exception/{info["exc"]}', dict(msg=info.get('message')))], obs=None)
    if status == 'nonfinite':
        return dict(status='pass', viol=[('C12/solver-leg/nonfinite-love-with-success', dict(love=a))], obs=None)
    if status != 'ok':
        return dict(status=status, viol=[], obs=None)
    gate = float(np.max(np.abs(a - b)))
    if not gate <= C01.GATE:
        return dict(status='inadmissible:gate', viol=[], obs=None)
    cc = dict(c, mt=amu / pgr)
    tol = C01.budget(cc, p, gate)
    err = abs(complex(b[0]) - k_helper)
    if not err <= tol:
        viol.append(('C12/solver-vs-helper/k', dict(l=l, solver=complex(b[0]), helper=k_helper, err=err, tol=tol, gate=gate,
                                                    family=c['fam'], rheology=c['rheo'])))
    # h and l of the solver against the helper's k through the homogeneous-body relations of the statement
    for name, got, want in (('h', complex(b[1]), (2 * l + 1) * k_helper / 3.0), ('l', complex(b[2]), k_helper / l)):
        e2 = abs(got - want)
        if not e2 <= tol:
            viol.append((f'C12/solver-vs-helper/{name}', dict(l=l, solver=got, helper_derived=want, err=e2, tol=tol)))
    obs = (round(k_helper.real, 9), round(k_helper.imag, 9), l, c['fam'])
    return dict(status='pass', viol=viol, obs=obs, err=err, tol=tol)


def replay(case):
    return run_case(case)['viol']


def run(ctx):
    from mc.core import run_lattice
    run_lattice(ctx, 'mc.props.C12_solver:run_case', cases(ctx.tier, ctx.seed),
                rule='cross-module: family{Kamata-dynamic-incompressible, Kamata-static(K effectively incompressible)} x l x mu~ x '
                     'rheology(4 compliance laws) x viscosity x (R,rho) x w~2; helper k_l vs layered solver on the same uniform body '
                     '(2 gate solves per case, admitted cases only, C01 budget); distinct = distinct helper k_l',
                exhaustive=False, min_admitted_frac=0.5)
