"""CLI: python -m mc.run Cxx [--tier quick|thorough] [--replay file] [--seed n]"""
import argparse
import importlib
import json
import os
import sys
import time
import traceback

from . import env


def main():
    ap = argparse.ArgumentParser()
    ap.add_argument('prop')
    ap.add_argument('--tier', default=os.environ.get('VERIF_TIER', 'quick'), choices=['quick', 'thorough'])
    ap.add_argument('--seed', type=int, default=int(os.environ.get('VERIF_SEED', '0') or 0))
    ap.add_argument('--replay')
    ap.add_argument('--no-build', action='store_true')
    a = ap.parse_args()
    env.setup_env()
    from . import build, core
    mod = importlib.import_module(f'mc.props.{a.prop}')
    if a.replay:
        if not a.no_build:
            build.ensure_built(verbose=False)
        rec = json.load(open(a.replay))
        viol = mod.replay(rec['case'])
        hit = [v for v in viol if v[0] == rec['site']]
        other = [v for v in viol if v[0] != rec['site']]
        for site, detail in hit[:1]:
            print(f'VIOLATION property={a.prop} replay={a.replay}')
            print(f'  site={site}\n  detail={json.dumps(core.jsonable(detail))[:1500]}')
        for site, detail in other[:5]:
            print(f'  (other site on the same case: {site})')
        if not hit:
            print(f'replay of {a.replay}: site {rec["site"]} NOT reproduced')
        sys.exit(1 if hit else 0)
    ctx = core.Ctx(a.prop, a.tier, a.seed, level=getattr(mod, 'LEVEL', 'exploration'))
    try:
        ctx.build_info = build.ensure_built() if not a.no_build else {}
        if ctx.build_info.get('stale_pyx'):
            ctx.assumptions.append('stale .pyx (no Cython in image; compiled code reflects the .c): '
                                   + ', '.join(ctx.build_info['stale_pyx']))
        ctx.assumptions.extend(getattr(mod, 'ASSUMPTIONS', []))
        # Import TidalPy once in this process *before* any worker is spawned: the first import on a fresh XDG_DATA_HOME writes
        # the user-level config and unzips the world pack; 16 workers doing that concurrently race (a worker can read a
        # half-written config and die with "'NoneType' object is not subscriptable").
        env.tidalpy()
        mod.run(ctx)
        rc = ctx.finish()
        env.mark_cache_complete()
    except core.HarnessError as e:
        ctx.close()
        print(f'[{a.prop}] HARNESS ERROR: {e}', file=sys.stderr, flush=True)
        rc = 2
    except SystemExit:
        ctx.close()
        raise
    except BaseException:
        ctx.close()
        traceback.print_exc()
        print(f'[{a.prop}] HARNESS ERROR (uncaught exception in the checker)', file=sys.stderr, flush=True)
        rc = 2
    sys.exit(rc)


if __name__ == '__main__':
    main()
