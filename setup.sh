#!/bin/bash
# setup_cmd: offline, from files on disk only.
set -e
cd "$(dirname "${BASH_SOURCE[0]}")"
export PIP_NO_INDEX=1
mkdir -p _vendor .cache evidence replays
if [ ! -d _vendor/mpmath ]; then
  /venv/bin/pip install -q --no-index --find-links /opt/veriftools/wheels --target _vendor mpmath networkx >/dev/null 2>&1 || \
  /venv/bin/pip install --no-index --find-links /opt/veriftools/wheels --target _vendor mpmath networkx
fi
# rebuild stale extensions (hash-driven) and pre-warm caches / reference tables
XDG="$(mktemp -d /dev/shm/verif-xdg.XXXXXX)"; trap 'rm -rf "$XDG"' EXIT
export XDG_DATA_HOME="$XDG" VERIF_HOME="$PWD" PYTHONPATH="$PWD:$PWD/_vendor" PYTHONHASHSEED=0 OMP_NUM_THREADS=1 NUMBA_NUM_THREADS=1
/venv/bin/python -m mc.build
/venv/bin/python -m mc.setup_refs
echo "setup done"
