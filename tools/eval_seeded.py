#!/usr/bin/env python3
"""Evaluate the checks against the seeded property-breaking changes in /verif/seeded/<id>/.

For every seeded/<id>/{patch.diff, meta.json}: make a scratch worktree of /repo (outside /repo and /verif), apply the patch,
run the quick (and optionally thorough) command of the property it breaks with VERIF_REPO=<worktree>, record whether a
VIOLATION line was printed and the exit status, remove the worktree.  Results go to /verif/seeded/RESULTS.json.
usage: eval_seeded.py [--tier quick|thorough] [--only id,id] [--jobs n] [--in-repo]
  --in-repo applies each patch to /repo itself (git -C /repo apply; undone with git checkout afterwards) instead of a worktree.
"""
import argparse
import json
import os
import subprocess
import sys
import time
from concurrent.futures import ThreadPoolExecutor

HERE = os.path.dirname(os.path.dirname(os.path.abspath(__file__)))
SEEDED = os.path.join(HERE, 'seeded')


def run_one(sid, tier, in_repo):
    d = os.path.join(SEEDED, sid)
    meta = json.load(open(os.path.join(d, 'meta.json')))
    patch = os.path.join(d, 'patch.diff')
    props = meta['property'] if isinstance(meta['property'], list) else [meta['property']]
    props = props + [p for p in meta.get('also_run', []) if p not in props]
    out = dict(id=sid, property=meta['property'], tier=tier, results={})
    if in_repo:
        wt = '/repo'
        subprocess.run(['git', '-C', '/repo', 'apply', patch], check=True)
    else:
        wt = f'/dev/shm/seeded-{sid}-{os.getpid()}'
        subprocess.run([os.path.join(HERE, 'tools', 'mkworktree.sh'), wt], check=True, capture_output=True)
        r = subprocess.run(['git', '-C', wt, 'apply', patch], capture_output=True, text=True)
        if r.returncode != 0:
            subprocess.run([os.path.join(HERE, 'tools', 'rmworktree.sh'), wt])
            out['error'] = 'patch does not apply: ' + r.stderr[-300:]
            return out
    try:
        for p in props:
            t0 = time.time()
            env = dict(os.environ, VERIF_REPO=wt)
            r = subprocess.run([os.path.join(HERE, 'check'), p, '--tier', tier], capture_output=True, text=True, env=env, cwd=HERE)
            viol = [l for l in r.stdout.splitlines() if l.startswith('VIOLATION')]
            out['results'][p] = dict(exit=r.returncode, violations=len(viol), first=(viol[0] if viol else None),
                                     wall_s=round(time.time() - t0, 1), tail=r.stdout.splitlines()[-2:] + r.stderr.splitlines()[-3:])
    finally:
        if in_repo:
            subprocess.run(['git', '-C', '/repo', 'checkout', '--', '.'], check=True)
        else:
            subprocess.run([os.path.join(HERE, 'tools', 'rmworktree.sh'), wt])
    out['detected'] = any(v['exit'] == 1 and v['violations'] > 0 for v in out['results'].values())
    return out


def main():
    ap = argparse.ArgumentParser()
    ap.add_argument('--tier', default='quick')
    ap.add_argument('--only')
    ap.add_argument('--jobs', type=int, default=1)
    ap.add_argument('--in-repo', action='store_true')
    a = ap.parse_args()
    ids = sorted(x for x in os.listdir(SEEDED) if os.path.isfile(os.path.join(SEEDED, x, 'meta.json')))
    if a.only:
        ids = [i for i in ids if i in a.only.split(',')]
    jobs = 1 if a.in_repo else a.jobs
    with ThreadPoolExecutor(jobs) as ex:
        res = list(ex.map(lambda i: run_one(i, a.tier, a.in_repo), ids))
    path = os.path.join(SEEDED, 'RESULTS.json')
    old = json.load(open(path)) if os.path.exists(path) else {}
    for r in res:
        old[f"{r['id']}:{r['tier']}"] = r
        print(r['id'], r['property'], a.tier, 'DETECTED' if r.get('detected') else 'MISSED', r.get('error', ''),
              {p: (v['exit'], v['violations'], v['wall_s']) for p, v in r['results'].items()})
    json.dump(old, open(path, 'w'), indent=1, sort_keys=True)


if __name__ == '__main__':
    main()
