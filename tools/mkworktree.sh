#!/bin/bash
# mkworktree.sh <dir> [<commit>]  -- scratch git worktree of /repo incl. the git-ignored generated .c and built .so files
set -e
D="$1"; C="${2:-HEAD}"
git -C /repo worktree add --detach -f "$D" "$C" >/dev/null 2>&1
cd /repo && find TidalPy \( -name '*.c' -o -name '*.so' \) -print0 | rsync -a --from0 --files-from=- /repo/ "$D"/
echo "$D"
