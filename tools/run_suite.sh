#!/bin/bash
# run_suite.sh <commit-or-HEAD> [patch.diff]  -- pinned suite in a scratch worktree (guard off); prints the pytest tail
# env SUITE_N=<k> uses pytest-xdist with k workers (default 0 = the pinned single-process command); SUITE_ARGS = extra args
C="${1:-HEAD}"; P="$2"
D="/dev/shm/suite-$$"
/verif/tools/mkworktree.sh "$D" "$C" >/dev/null
if [ -n "$P" ]; then git -C "$D" apply "$P" || { echo "patch does not apply"; /verif/tools/rmworktree.sh "$D"; exit 9; }; fi
cd "$D"
X="$(mktemp -d /dev/shm/suite-xdg.XXXXXX)"
NARG=""; [ -n "$SUITE_N" ] && [ "$SUITE_N" != "0" ] && NARG="-n $SUITE_N"
env -u TIDALPY_VERIF XDG_DATA_HOME="$X" PYTHONPATH="$D" NUMBA_CACHE_DIR="$X/numba" /venv/bin/python -m pytest -ra -q -p no:cacheprovider --timeout=900 --continue-on-collection-errors $NARG $SUITE_ARGS 2>&1 | tail -${SUITE_TAIL:-12}
cd /; /verif/tools/rmworktree.sh "$D"; rm -rf "$X"
