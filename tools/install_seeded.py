#!/usr/bin/env python3
"""install_seeded.py <src-dir> <id> <property> <what> <needs>  -- copy patch/demo/notes of one seeded change into seeded/<id>/ with meta.json"""
import json, os, shutil, sys
src, sid, prop, what, needs = sys.argv[1:6]
d = os.path.join(os.path.dirname(os.path.dirname(os.path.abspath(__file__))), 'seeded', sid)
os.makedirs(d, exist_ok=True)
for f in ('patch.diff', 'demo.py', 'notes.md'):
    shutil.copy(os.path.join(src, f), os.path.join(d, f))
json.dump({'id': sid, 'property': prop, 'what': what, 'needs_to_manifest': needs,
           'origin': 'independent sub-agent given only the property text and a scratch worktree',
           'confirmed': {'demo_fails_with_patch_passes_without': None, 'pinned_suite_passes_with_patch': None}},
          open(os.path.join(d, 'meta.json'), 'w'), indent=1)
