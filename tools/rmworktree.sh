#!/bin/bash
git -C /repo worktree remove --force "$1" 2>/dev/null || rm -rf "$1"
git -C /repo worktree prune
