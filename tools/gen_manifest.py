#!/usr/bin/env python3
"""Regenerates /verif/MANIFEST.json from the table below (one row per implemented check)."""
import json
import os

HERE = os.path.dirname(os.path.dirname(os.path.abspath(__file__)))

# id -> (category, engine, technique, level text, level note, design_ref)
CHECKS = {
    'C12': ('exploration', 'E1-lattice',
            'bounded-exhaustive enumeration of a product lattice on the real code vs closed-form reference model',
            'Every element of the stated lattice (l x mu x body x rheology x frequency x viscosity, six helper functions, scalar and '
            'array, plus quick_tidal_dissipation for l_max 2..7) is executed on the real code and compared with the closed form at 1e-12; '
            'a cross-module leg compares with the layered solver on uniform incompressible bodies.',
            'Continuous parameters are covered on the grid only; the complex compliance J is taken from the legacy compliance '
            'functions (checked separately by C07).', 'DESIGN.md section 2, C12'),
    'C13': ('model_checking', 'E2-histories',
            'explicit-state BFS over operation histories on the real world/orbit objects (replay from fresh objects, canonical '
            'state = logical state + deep fingerprint), invariant evaluated after every history',
            'All histories over a 34-37 operation alphabet (setters, set_state through world and orbit, scalar and array values, '
            'batched calls, fixed-Q/dt, layer temperature, time) up to the stated depth, then canonical-state BFS; after every '
            'history the observables are compared with the logical reference model, with a fresh world placed directly in the '
            'same state, and with the functional API, in 7 tidal configurations (CPL/CTL/layered, spin-locked or free, 1 and 2 tidal layers).',
            'Bounded depth and fixed value menu; merging of states relies on the deep fingerprint covering every attribute that can '
            'influence the future; functional oracle uses the library mode tables (C08/C09/C10 check those).', 'DESIGN.md section 2, C13'),
    'C18': ('model_checking', 'E3-crash-sched',
            'stateless deviation-bounded DFS of the real multiprocessing_run under a controlled scheduler and crash injector '
            '(every schedule / crash point with <= B deviations), restart from every distinct canonical disk state',
            'The real restart code runs against shimmed module globals (file system with CPython buffering and torn .npz writes, virtual '
            'pool with one controlled thread per Pool.map chunk, deterministic clock). For each configuration (grids 2x2..4x2 and 2x2x2, '
            'must_include as list / tuple / log axis, pool sizes 4..16, every failing-case subset persistent or first-run-only, avoid_crashes '
            'on/off) every execution with <= 2 (small grids) or 1 deviations is run, followed by a restart whose return value, disk state and '
            'per-case execution counters are checked; thorough adds crash-restart-crash-restart histories; one real pathos run per grid ties the '
            'virtual pool to the real one.',
            'Kill model: nothing after the crash point, unflushed text buffers lost, .npy/.npz torn at half; kernel write reordering and a kill '
            'of a single pool worker are not modelled; bounded deviations.', 'DESIGN.md section 2, C18'),
    'C20': ('exploration', 'E1-lattice',
            'exhaustive special-value menu (41x41, 65x65 thorough) and all integer exponents in [-200,200] on the compiled helpers at C level '
            'and through the Python wrappers, against 80-digit mpmath and literal C99 Annex G tables',
            'Every element of the stated finite lattices is executed on the real compiled functions (C level through the __pyx_capi__ pointers and '
            'through the Python wrappers) and on the interpreted twin; each result is compared with an 80-digit mpmath reference (<= 4 ulp per '
            'component; <= 4 ulp of the modulus for powers), with literal Annex G tables cross-checked against cmath, or with exact integers. '
            'All deviations of the pinned tree are classified into 17 narrow, quantitatively checked known-defect families; anything else is fresh.',
            'Decided on the stated menus only; libm of the image; cexp/cpow/cipow/hypot asserted for finite arguments with representable exact '
            'result; ctypes access assumes x86-64 SysV ABI (self-tested in every worker).', 'DESIGN.md section 2, C20'),
    'C05': ('exploration', 'E1-lattice',
            'exhaustive lattice of real solver + sensitivity-kernel + heating runs with a refinement ladder (N=240,480,960), two '
            'independent kernel references (Tobie eq. 33 literal; strain-invariant form with analytic dy1/dr) and a derivative metamorphic leg',
            'Every element of the stated lattice (7 planet families x l{2,3} x frequency x static/dynamic x tight/natural grid x N ladder) '
            'satisfies: -Im k equals the kernel integral to max(200/N^2,1e-4) on tight grids (second order measured); the heating shell sum '
            'equals the global rate; Im k <= 0; the library kernels equal Tobie eq. 33 to rounding on every slice and an analytic-derivative '
            're-derivation within the measured discretisation error; on an elastic planet dk/dlnK and dk/dlnmu equal the kernel integrals.',
            'Im K = 0 end-to-end because the solver takes a real K (H_K is checked through dk/dK and at formula level with a complex K); natural '
            'grids carry a first-order interface-gap term (C03 grid convention) that is part of the tolerance; only gate-admitted cases are asserted; '
            'only static liquid layers; nothing is claimed off the grid.', 'DESIGN.md section 2, C05 and section 8'),
}

NOT_APPLICABLE = {}


def main():
    props = [json.loads(l) for l in open(os.path.join(HERE, 'properties.jsonl'))]
    ids = [p['id'] for p in props]
    checks = []
    for pid in ids:
        if pid not in CHECKS:
            continue
        cat, engine, tech, text, note, ref = CHECKS[pid]
        checks.append(dict(
            property_id=pid,
            quick_cmd=f'./check {pid} --tier quick',
            thorough_cmd=f'./check {pid} --tier thorough',
            evidence_file=f'/verif/evidence/{pid}.json',
            replay_cmd_template=f'./check {pid} --replay {{path}}',
            engine=engine,
            level_claimed=dict(category=cat, text=text, design_ref=ref),
            level_note=note,
            technique=tech))
    na = [dict(property_id=pid, reason=NOT_APPLICABLE.get(pid, 'check not built yet in this session (planned, see DESIGN.md section 2)'))
          for pid in ids if pid not in CHECKS]
    man = dict(
        version=1,
        setup_cmd='./setup.sh',
        hooks=dict(guard='TIDALPY_VERIF',
                   enable='no source hooks: all seams are module-global rebinding from the harness; checks export TIDALPY_VERIF=1 anyway',
                   baseline_off_cmd='cd /repo && env -u TIDALPY_VERIF /venv/bin/python -m pytest -ra -q -p no:cacheprovider --timeout=900 --continue-on-collection-errors',
                   source_commits=[], add_only=True),
        engines=[
            dict(name='E1-lattice', path='mc/core.py', serves_properties=[p for p, v in CHECKS.items() if v[1].startswith('E1')],
                 kind_free_text='exhaustive product-lattice enumeration of the real code against reference models'),
            dict(name='E2-histories', path='mc/histories.py', serves_properties=[p for p, v in CHECKS.items() if 'E2' in v[1]],
                 kind_free_text='explicit-state BFS over operation histories on real objects, replay-from-fresh, canonical fingerprints'),
            dict(name='E3-crash-sched', path='mc/faultfs.py', serves_properties=[p for p, v in CHECKS.items() if 'E3' in v[1]],
                 kind_free_text='deviation-bounded DFS over schedules / crash points / injected faults on the real restart code'),
            dict(name='E4-exact', path='mc/exact.py', serves_properties=[p for p, v in CHECKS.items() if 'E4' in v[1]],
                 kind_free_text='complete enumeration of finitely-determined objects (power-series coefficients, trig-polynomial nodes)'),
        ],
        checks=checks,
        not_applicable=na,
        notes='All checks decide by bounded-exhaustive enumeration of real-code executions (model-checking family); see DESIGN.md.')
    with open(os.path.join(HERE, 'MANIFEST.json'), 'w') as fh:
        json.dump(man, fh, indent=1)
    print('MANIFEST.json:', len(checks), 'checks,', len(na), 'not yet claimed')


if __name__ == '__main__':
    main()
