#!/usr/bin/env python3
"""Regenerates /verif/MANIFEST.json from the table below (one row per implemented check)."""
import json
import os

HERE = os.path.dirname(os.path.dirname(os.path.abspath(__file__)))

# id -> (category, engine, technique, level text, level note, design_ref)
CHECKS = {
    'C12': ('exploration', 'E1-lattice',
            'bounded-exhaustive enumeration of a product lattice on the real code vs closed-form reference model',
            'Every element of the stated lattice (l x mu x body x rheology x frequency x viscosity, six helper functions, scalar and '
            'array, plus quick_tidal_dissipation for l_max 2..7) is executed on the real code and compared with the closed form at 1e-12; '
            'a cross-module leg compares with the layered solver on uniform incompressible bodies.',
            'Continuous parameters are covered on the grid only; the complex compliance J is taken from the legacy compliance '
            'functions (checked separately by C07).', 'DESIGN.md section 2, C12'),
    'C13': ('model_checking', 'E2-histories',
            'explicit-state BFS over operation histories on the real world/orbit objects (replay from fresh objects, canonical '
            'state = logical state + deep fingerprint), invariant evaluated after every history',
            'All histories over a 34-37 operation alphabet (setters, set_state through world and orbit, scalar and array values, '
            'batched calls, fixed-Q/dt, layer temperature, time) up to the stated depth, then canonical-state BFS; after every '
            'history the observables are compared with the logical reference model, with a fresh world placed directly in the '
            'same state, and with the functional API, in 7 tidal configurations (CPL/CTL/layered, spin-locked or free, 1 and 2 tidal layers).',
            'Bounded depth and fixed value menu; merging of states relies on the deep fingerprint covering every attribute that can '
            'influence the future; functional oracle uses the library mode tables (C08/C09/C10 check those).', 'DESIGN.md section 2, C13'),
    'C18': ('model_checking', 'E3-crash-sched',
            'stateless deviation-bounded DFS of the real multiprocessing_run under a controlled scheduler and crash injector '
            '(every schedule / crash point with <= B deviations), restart from every distinct canonical disk state',
            'The real restart code runs against shimmed module globals (file system with CPython buffering and torn .npz writes, virtual '
            'pool with one controlled thread per Pool.map chunk, deterministic clock). For each configuration (grids 2x2..4x2 and 2x2x2, '
            'must_include as list / tuple / log axis, pool sizes 4..16, every failing-case subset persistent or first-run-only, avoid_crashes '
            'on/off) every execution with <= 2 (small grids) or 1 deviations is run, followed by a restart whose return value, disk state and '
            'per-case execution counters are checked; thorough adds crash-restart-crash-restart histories; one real pathos run per grid ties the '
            'virtual pool to the real one.',
            'Kill model: nothing after the crash point, unflushed text buffers lost, .npy/.npz torn at half; kernel write reordering and a kill '
            'of a single pool worker are not modelled; bounded deviations.', 'DESIGN.md section 2, C18'),
    'C20': ('exploration', 'E1-lattice',
            'exhaustive special-value menu (41x41, 65x65 thorough) and all integer exponents in [-200,200] on the compiled helpers at C level '
            'and through the Python wrappers, against 80-digit mpmath and literal C99 Annex G tables',
            'Every element of the stated finite lattices is executed on the real compiled functions (C level through the __pyx_capi__ pointers and '
            'through the Python wrappers) and on the interpreted twin; each result is compared with an 80-digit mpmath reference (<= 4 ulp per '
            'component; <= 4 ulp of the modulus for powers), with literal Annex G tables cross-checked against cmath, or with exact integers. '
            'All deviations of the pinned tree are classified into 17 narrow, quantitatively checked known-defect families; anything else is fresh.',
            'Decided on the stated menus only; libm of the image; cexp/cpow/cipow/hypot asserted for finite arguments with representable exact '
            'result; ctypes access assumes x86-64 SysV ABI (self-tested in every worker).', 'DESIGN.md section 2, C20'),
    'C05': ('exploration', 'E1-lattice',
            'exhaustive lattice of real solver + sensitivity-kernel + heating runs with a refinement ladder (N=240,480,960), two '
            'independent kernel references (Tobie eq. 33 literal; strain-invariant form with analytic dy1/dr) and a derivative metamorphic leg',
            'Every element of the stated lattice (7 planet families x l{2,3} x frequency x static/dynamic x tight/natural grid x N ladder) '
            'satisfies: -Im k equals the kernel integral to max(200/N^2,1e-4) on tight grids (second order measured); the heating shell sum '
            'equals the global rate; Im k <= 0; the library kernels equal Tobie eq. 33 to rounding on every slice and an analytic-derivative '
            're-derivation within the measured discretisation error; on an elastic planet dk/dlnK and dk/dlnmu equal the kernel integrals.',
            'Im K = 0 end-to-end because the solver takes a real K (H_K is checked through dk/dK and at formula level with a complex K); natural '
            'grids carry a first-order interface-gap term (C03 grid convention) that is part of the tolerance; only gate-admitted cases are asserted; '
            'only static liquid layers; nothing is claimed off the grid.', 'DESIGN.md section 2, C05 and section 8'),
    'C07': ('exploration', 'E1-lattice',
            'exhaustive grid (all models x entry points x guard branch points with one-ulp neighbours x thread counts) on the real code '
            'vs 50-digit mpmath compliance laws; entry-point bit identity',
            'Every compiled rheology class, every find_rheology alias, both array helpers at lengths 1..1000 under 1/2/16 OpenMP threads, and every '
            'legacy compliance function are run on the full stated grid (40 frequencies incl. all guard branch points and one-ulp neighbours, 8 '
            'rigidities, 6 viscosities, 171 parameter sets). All values equal 1/J of the published law to 1e-12 (measured 7e-16), are passive, bounded and '
            'monotone for the Maxwell family, and are bit-identical across entry points.',
            'Grid points only; guarded branches are held to the documented limits; legacy functions compared outside their float_eps guards and for '
            'omega > 0; zeta(omega) of the *_freq variants taken from docstring + source; OpenMP schedules are not controlled (thread counts are enumerated).',
            'DESIGN.md section 2, C07 and section 8'),
    'C08': ('exploration', 'E4-exact',
            'complete enumeration: the real table source is executed on exact truncated power-series arguments and every coefficient is '
            'compared with an exact rational Hansen reference (Laurent-series integration)',
            'Every shipped eccentricity table function (61), every (p,q) present and every Taylor coefficient up to e^N (closed forms to e^30) is compared '
            'with exact rational G_lpq^2 from an independent reference; every absent mode with |q| <= N/2+3 is shown not to contribute; the compiled '
            'dispatchers and all 61 multi-degree look-ups are compared key by key and value by value. The coefficient space is finite and enumerated '
            'completely (exhaustive: true).',
            'Literals accepted within 1e-12 relative; closed forms compared through e^30; compiled path checked at 3 eccentricities; the placeholder '
            'eccentricity_truncations[22][l>2] (unreferenced, source FIXME) is excluded.', 'DESIGN.md section 2, C08 and section 8'),
    'C09': ('exploration', 'E4-exact',
            'complete enumeration: trig-polynomial identity on 1024 equispaced nodes (degree <= 28 established from the source AST) vs exact-rational Kaula F_lmp',
            'All 199 on-table entries (l=2..7), through the Python source and the compiled code on 1024 equispaced nodes of I/2, are compared with '
            'exact-rational Kaula F^2 with a DFT degree bound, so node agreement is identity for all I; off-tables are checked against exact F^2(0) '
            'including all omitted entries, the look-ups key by key, the universal coefficients against Fractions.',
            'Float tolerance 2e-11 of sum|a_k| (pristine worst 1.4e-12); if the AST form cannot be established the run reports exhaustive=false.',
            'DESIGN.md section 2, C09 and section 8'),
    'C14': ('exploration', 'E1-lattice',
            'exhaustive lattice of the 8 shipped potentials x all modes x parameters on the real code; spectral differentiation on an '
            'interior-colatitude basis (complete in the angles), exact Kepler point-mass reference per Fourier mode, order ratio tests',
            'All lattice cases (980 quick / 2856 thorough) of the 8 shipped potentials x all modes x spin/n, e, obliquity, use_static are executed. Every mode is '
            'verified to be a degree-2 trigonometric polynomial on 17x17 interior nodes, so derivative and Laplace agreement hold for all angles; each '
            'mode and total is compared with the exact degree-2 potential of a point mass on a Kepler orbit up to its truncation order with calibrated '
            'constants; reductions between variants are checked exactly or by order ratio tests. Known defects are classified by closed-form signature.',
            'Continuous parameters on the lattice only; sign / normalisation conventions as listed in ASSUMPTIONS; truncation constants calibrated at 10x margin, not derived.',
            'DESIGN.md section 2, C14 and section 8'),
    'C15': ('exploration', 'E1-lattice',
            'exhaustive lattice (radial functions x moduli x degree x all Y_lm and shipped potential modes x distinct-axis grids) on the real '
            'code vs an independent strain-from-displacement reference, Hooke law, tractions and heating closed forms',
            '741 (quick 285) cases: three real radial_solver outputs plus synthetic complex / real / power-law radial functions x 6 moduli profiles x l in {2,3} x '
            'all Y_lm cos/sin and every mode of the 8 shipped potentials, on grids with distinct axis lengths; strain, stress, tractions, heating and '
            'displacements are compared component-wise with a plain-numpy reference at 1e-12 on natural scales (measured 3e-15).',
            'Solid material only (the function divides by mu); heating returns |Im(sigma : conj eps)| without a frequency factor (x omega/2 is the caller\'s job).',
            'DESIGN.md section 2, C15 and section 8'),
    'C19': ('exploration', 'E1-lattice',
            'exhaustive branch-point grids (every guard constant with one-ulp neighbours) on the real code; adjacent-pair monotonicity, mpmath closed forms, table splitting',
            'All radiogenic, cooling, viscosity and partial-melt functions are run on grids containing every guard constant and its one-ulp neighbours, scalar '
            'and array; each clause of the statement (additivity by splitting isotope tables, linearity, half-life, reference value, positivity, '
            'monotonicity in contrast / viscosity / temperature / melt fraction, convection >= conduction, liquid floors, Henning end members) has its own oracle.',
            'Grids only; arrhenius with linear-T prefactor admitted only for E* >= R T_max; Henning rigidity inside the window and fixed(half-life=0) are not asserted.',
            'DESIGN.md section 2, C19 and section 8'),
    'C02': ('exploration', 'E1-lattice',
            'exhaustive enumeration of all solid-top layer stacks (1-4 layers, reduced alphabet for 5) on the real radial solver; closed-form surface '
            'conditions, slice-to-slice interface relations, joint-vs-single-solve metamorphic relation',
            'Every solid-top layer stack of 1-4 layers over {solid,liquid}x{static,dynamic}x{compressible,incompressible} (plus all 5-layer stacks over '
            '{solid,liquid}x{static,dynamic}) x l{2,3} x 2 material profiles x omega{1e-3,1e-4} (x nondimensionalize and Kamata/Takeuchi for <= 3 layers) is solved '
            'for all solve_for combinations (<= 2 layers) or joint plus single types (deeper). Every admitted solution satisfies the requested surface '
            'condition to 1e-7 of the natural row scale (measured <= 4e-11), is continuous across every interface in the components both sides define, has '
            'y4 = 0 on the solid side of every solid/liquid interface, NaN exactly in undefined components, and each type block is bit-identical to its '
            'single-type solve.',
            'Solid-top stacks only (a dynamic-liquid top kills the interpreter, known C06 finding); stacks the starting driver refuses are inadmissible; only '
            'solves that succeed and pass the rtol/100 gate are asserted (58 %; dynamic liquids at omega=1e-4 are mostly removed); physical values on the menu only.',
            'DESIGN.md section 2, C02 and section 8'),
    'C03': ('exploration', 'E1-lattice',
            'exhaustive lattice of metamorphic relations between pairs / triples of real solver runs (planet x degree x frequency x transformation)',
            'For 2 profiles x 5 planets x l{2,3,4} x omega{1e-5,1e-4,1e-3}, every gate-admitted pair of real runs related by non-dimensionalisation, exact '
            'rescaling a in {1e-2..1e2}, solve_for alone/superset/permutation (bit-identical), integrator, further tolerance tightening, tight-grid refinement or '
            'Kamata<->Takeuchi start gives equal k,h,l within 1e-5 (grid 3e-4), and k_load = k_tidal - h_tidal to 1e-5 (measured <= 7.4e-7). Natural-grid '
            'refinement re-derives the first-order interface-gap defect of solver.pyx (known finding with a quantitative classifier).',
            'Only numerically converged solves (stable under rtol/100 to 1e-6); the dynamic-liquid planet at omega=1e-3 only; Kamata<->Takeuchi only for static '
            'compressible cores; values on the menu only; not exhaustive over structures.', 'DESIGN.md section 2, C03 and section 8'),
    'C01': ('exploration', 'E1-lattice',
            'exhaustive dimensionless lattice of real radial_solver runs (every integrator x starting family x assumption) with a two-tolerance '
            'convergence gate, judged against the Kelvin/Love closed form',
            'Every gate-admitted element of the stated lattice (mu~ x loss tangent x l x integrator x 5 start families x r0/R x body x nondimensionalize x w~2; '
            '77,760 cases x 2 solves thorough, 270 quick) returns k, h, l equal to the closed form within 20*gate + 5*w~2 + (rho g R)^2/(|mu| K) + 1e-7 (per-integrator '
            'floors for the ill-conditioned Kamata dynamic-incompressible family). The only exceptions are two narrowly signed consequences of the Takeuchi y6 '
            'slot swap (known findings). Un-admitted cases are counted per (family, integrator) block.',
            '"Effectively incompressible" means K = 1e7*max(|mu|, rho g R, (rho g R)^2/|mu|) and K <= 1e9|mu|; Kamata-DI with RK45/RK23 is nearly vacuous (7 % / 0.1 % '
            'admitted); Takeuchi starts with (r0/R)^l < 1e-15 excluded; nothing claimed off the grid; sensitivity to starting vectors is weak by design (C04).',
            'DESIGN.md section 2, C01 and section 8'),
    'C04': ('exploration', 'E1-lattice',
            'exhaustive lattice: span-invariance residual of the real starting vectors under an independent TS72/S74/KMN15 ODE matrix, z(x) against mpmath, '
            'pairwise start-radius and cross-family end-to-end solves with a convergence gate',
            'On the stated lattices (2 families x 6 layer kinds x l x 5 materials x omega x r0/R: 5,760 cases; z: 448; r0 legs and cross-family legs) the span of '
            'the starting vectors is carried into itself by the reference ODE to 1e-9 (+ conditioning), z equals x j_{l+1}/j_l to 1e-11, and Love numbers and '
            'mantle-base / surface radial functions are independent of r0 in [1e-4, 0.5] and of the family to 1e-7 (1e-6 for Kamata-DI and radial functions). '
            'Exceptions: three narrowly signed known findings (Takeuchi y6 slot, z Taylor branch, their end-to-end drift).',
            'Vectors are judged as a family (span), not per vector; series / Bessel domains and low-frequency dynamic liquids are excluded and counted; interior '
            'slices are not compared (dense-output noise); uniform-sphere gravity for the ODE leg.', 'DESIGN.md section 2, C04 and section 8'),
    'C06': ('fault_enumeration', 'E1-lattice',
            'exhaustive layer-stack x fault-menu lattice (argument, integration and array-entry faults, two-call sequences) on the real compiled '
            'solver, every case in a short-lived child process with crash / hang / silent-exit attribution down to the single case; glibc heap '
            'checks, and an ASan+UBSan shadow build in the thorough tier',
            'Every 1-3-layer stack (liquid surfaces included, 584 stacks) is crossed with an explicit menu of 112 argument, integration and array-entry faults, both '
            'nondimensionalize and raise_on_fail settings, and two-call sequences on the same arrays (5,050 cases quick, 197,028 thorough + 5,042 under ASan). '
            'Asserted on every case: the call returns a RadialSolverSolution or raises an Exception subclass (never a crash, hang or silent exit); the '
            'success / message / None protocol holds; raise_on_fail is honoured; the five caller arrays are restored within 4 ulp on every exit path. '
            '13 narrowly signed known findings (Cython / CyRK).',
            'One geometry and frequency (the seed rotates materials only); a hang means exceeding 120 s wall and 20 s CPU alone in a fresh process; silent '
            'corruption that neither glibc checks nor ASan detect is not decided; dynamic-liquid-top stacks and the known process-killing / hanging inputs are '
            'crossed with a reduced menu because the known crash masks everything else on them.', 'DESIGN.md section 2, C06 and section 8'),
    'C16': ('model_checking', 'E1-lattice + E2-histories',
            'bounded-exhaustive enumeration of real world builds (shipped + generated family) and explicit-state BFS over derivation chains '
            '(build_from_world / scale_from_world / build_world) on real objects under a deterministic step budget',
            'Every shipped non-BurnMan world and every member of a generated 1-6-layer family (type pattern x radius partition x geometry style x mass mode x slices; '
            '9.6 k builds quick, 130 k thorough) is built by the real builder and checked for contiguity, volume / mass sums, strictly increasing radii, surface '
            'gravity and monotone enclosed mass against a reference model of the configuration. All chains over an 11-operation alphabet from 3 roots are executed to '
            'depth 3 (thorough: canonical-state BFS to depth 5), each operation under a 3e5-line step budget so that non-termination is an outcome; after every '
            'operation inputs-unchanged, distinct name, exact scaling and all build invariants are asserted.',
            'Grid of configurations and alphabet only; termination = step budget over traced TidalPy Python lines (compiled / third-party loops are not counted); '
            'the mass-sum clause applies only when no explicit world mass is given; chain states merge on name + canonical config + all geometry numbers.',
            'DESIGN.md section 2, C16 and section 8'),
    'C17': ('model_checking', 'E1-lattice + E2-histories',
            'ulp-level differential enumeration of the conversion twins (numba / interpreted / Cython) against an mpmath closed form; explicit-state BFS '
            'over orbit-update histories on real PhysicsOrbit objects against a Kepler reference model',
            'All 69 values (30 decades plus range edges) x scalar/array x 4 conversion pairs x 9 mass pairs are run through the numba, interpreted and Cython '
            'implementations and compared for round trip, closed form (mpmath, 60 digits) and cross-implementation agreement in ulps. All histories over a '
            '37-operation alphabet (P/n/a x 3 values x 4 access paths, plus e) are executed on freshly built real orbit objects for star and planet hosts x 2 '
            'target masses (all histories to depth 2 quick / 3 thorough, then canonical-state BFS; fixed point at 29 states per system); Kepler III, P-n '
            'consistency, last-written value and agreement of every accessor are asserted in every state at 1e-12.',
            'Value grid only; admission gate [1e-300, 1e300]; calibrated ulp budgets (32 / 512 for the cube-root pair: the interpreted **(1/3) alone is 18 ulp '
            'from the exact value); AU and Myr constants are compared across implementations, not against an external standard; the AU mismatch is a known finding.',
            'DESIGN.md section 2, C17 and section 8'),
    'C10': ('exploration', 'E1-lattice',
            'exhaustive configuration lattice (entry x rheology x l_max x truncation x obliquity slot x orbit, full spin/n x e grid, 11 input forms) on the '
            'real code against an independent un-grouped Kaula (l,m,p,q) mode-sum reference; array-vs-scalar metamorphic relation',
            'All 9300 (quick 1860) configurations of entry {quick_tidal_dissipation, calculate_terms+collapse_modes} x rheology(10) x l_max 2..7 x truncation x '
            'obliquity slot x orbit, each with the full spin/n x e grid and 11 scalar/array input forms (~1.0M real calls thorough), satisfy the heating / '
            'derivative identity, the rest state, the classical limit, the sign clause and the independent un-grouped reference including the '
            'frequency-signature grouping (key set, frequency values, every grouped term tuple) to 1e-10 of sum|terms| (measured <= 1.4e-14).',
            'F^2 / G^2 table values, compliances and the homogeneous Love number are taken from the library (checked by C08, C09, C07, C12); heating >= 0 is '
            'asserted only where all tabulated G^2 entries are >= 0; one known finding (newton rheology at an exactly zero-frequency mode); nothing off the grid.',
            'DESIGN.md section 2, C10 and section 8'),
    'C11': ('exploration', 'E1-lattice',
            'exhaustive configuration lattice (single / dual / bare dynamics entry points x rheology x mass pair x l_max x truncation x obliquity x MOI, separation) '
            'on the real code; energy and angular-momentum balances, e = 0 limit, array-vs-scalar',
            'All 32,400 (quick 4,860) configurations of entry {single, dual, bare} x rheology x mass pair x l_max x truncation x obliquity x (MOI, separation), ~1.8M real '
            'calls thorough, conserve energy and (planar) angular momentum to 1e-10 of sum|terms| (measured <= 3.3e-15), give de/dt = 0 at e = 0 for scalar and array '
            'input, array results equal scalar results exactly, the combined rate function equals the separate ones and dual(silent host) equals single.',
            'Angular momentum only for obliquity None / 0; calls on the C10 known-finding input family are not admitted; scale floor 1e-20 of the full amplitude '
            '(exact rest states leave 1e-33 residues through the general inclination tables); nothing off the grid.', 'DESIGN.md section 2, C11 and section 8'),
}

NOT_APPLICABLE = {}


def main():
    props = [json.loads(l) for l in open(os.path.join(HERE, 'properties.jsonl'))]
    ids = [p['id'] for p in props]
    checks = []
    for pid in ids:
        if pid not in CHECKS:
            continue
        cat, engine, tech, text, note, ref = CHECKS[pid]
        checks.append(dict(
            property_id=pid,
            quick_cmd=f'./check {pid} --tier quick',
            thorough_cmd=f'./check {pid} --tier thorough',
            evidence_file=f'/verif/evidence/{pid}.json',
            replay_cmd_template=f'./check {pid} --replay {{path}}',
            engine=engine,
            level_claimed=dict(category=cat, text=text, design_ref=ref),
            level_note=note,
            technique=tech))
    na = [dict(property_id=pid, reason=NOT_APPLICABLE.get(pid, 'check not built yet in this session (planned, see DESIGN.md section 2)'))
          for pid in ids if pid not in CHECKS]
    man = dict(
        version=1,
        setup_cmd='./setup.sh',
        hooks=dict(guard='TIDALPY_VERIF',
                   enable='no source hooks: all seams are module-global rebinding from the harness; checks export TIDALPY_VERIF=1 anyway',
                   baseline_off_cmd='cd /repo && env -u TIDALPY_VERIF /venv/bin/python -m pytest -ra -q -p no:cacheprovider --timeout=900 --continue-on-collection-errors',
                   source_commits=[], add_only=True),
        engines=[
            dict(name='E1-lattice', path='mc/core.py', serves_properties=[p for p, v in CHECKS.items() if v[1].startswith('E1')],
                 kind_free_text='exhaustive product-lattice enumeration of the real code against reference models'),
            dict(name='E2-histories', path='mc/histories.py', serves_properties=[p for p, v in CHECKS.items() if 'E2' in v[1]],
                 kind_free_text='explicit-state BFS over operation histories on real objects, replay-from-fresh, canonical fingerprints'),
            dict(name='E3-crash-sched', path='mc/faultfs.py', serves_properties=[p for p, v in CHECKS.items() if 'E3' in v[1]],
                 kind_free_text='deviation-bounded DFS over schedules / crash points / injected faults on the real restart code'),
            dict(name='E4-exact', path='mc/exact.py', serves_properties=[p for p, v in CHECKS.items() if 'E4' in v[1]],
                 kind_free_text='complete enumeration of finitely-determined objects (power-series coefficients, trig-polynomial nodes)'),
        ],
        checks=checks,
        not_applicable=na,
        notes='All checks decide by bounded-exhaustive enumeration of real-code executions (model-checking family); see DESIGN.md.')
    with open(os.path.join(HERE, 'MANIFEST.json'), 'w') as fh:
        json.dump(man, fh, indent=1)
    print('MANIFEST.json:', len(checks), 'checks,', len(na), 'not yet claimed')


if __name__ == '__main__':
    main()
