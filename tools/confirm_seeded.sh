#!/bin/bash
# confirm_seeded.sh <id> [full]  -- demo passes without / fails with the patch; pinned suite (or with a 3rd arg a subset) with the patch
ID="$1"; MODE="${2:-demo}"
S=/verif/seeded/$ID; D=/dev/shm/confirm-$ID-$$
/verif/tools/mkworktree.sh "$D" >/dev/null
X=$(mktemp -d /dev/shm/confirm-xdg.XXXXXX)
run_demo() { (cd "$D" && XDG_DATA_HOME=$(mktemp -d "$X/x.XXXX") PYTHONPATH="$D" NUMBA_CACHE_DIR="$X/numba" timeout 1800 /venv/bin/python "$S/demo.py" >"$X/demo.$1.log" 2>&1; echo $?); }
A=$(run_demo clean)
git -C "$D" apply "$S/patch.diff" || { echo "$ID patch does not apply"; /verif/tools/rmworktree.sh "$D"; exit 9; }
B=$(run_demo patched)
echo "$ID demo: clean_exit=$A patched_exit=$B"
if [ "$MODE" = "full" ]; then
  (cd "$D" && env -u TIDALPY_VERIF XDG_DATA_HOME="$X/suite" PYTHONPATH="$D" NUMBA_CACHE_DIR="$X/numba" /venv/bin/python -m pytest -ra -q -p no:cacheprovider --timeout=900 --continue-on-collection-errors 2>&1 | tail -4 | sed "s/^/$ID suite: /")
fi
/verif/tools/rmworktree.sh "$D"; rm -rf "$X"
